"""
Over-approximate call graph and direct filesystem effects of the package
torrentfile, computed from the ast of /repo/torrentfile/*.py (DESIGN.md M9).

Resolution rules (each one over-approximates):
  f(...)            module-level function / imported package function / class named f
                    (a class makes ALL its methods and those of its bases reachable)
  self.m(...)       method m of the enclosing class, its bases and its subclasses
  mod.attr...       attribute chain rooted at an imported non-package module or object, CALLED OR MERELY
                    MENTIONED (a mention may be a call through an alias): classified by its dotted name
                    through EXT_RULES -- FAIL CLOSED: a name that is in neither the effect tables nor the
                    allow-list of effect-free externals makes the function Unknown
  x.m(...)          any other receiver: every package function or method named m; and, by the method name,
                    an effect (pathlib-like write methods), effect-free (METHOD_PURE), or -- when no package
                    method has that name either -- Unknown
  v(...)            v a local/unknown name: every package class (constructor call)
Anything dynamic (exec/eval/subprocess/os.system/importlib/__import__/getattr with a
non-literal name/a module object used as a value) marks the function Unknown.
Module-level statements, class bodies, decorators and default-argument expressions run at import:
they are collected in the pseudo function `<module>.<module>` of each module, and every such pseudo
function is a root of every command (gen_effects.command_roots).
Statements under `if platform.system() == "Windows"` (sys.platform == "win32", os.name == "nt") are
skipped: the development speaks of the POSIX behaviour.
"""
import ast
import os

PKG = "torrentfile"

KINDS = ["Read", "Write", "Remove", "Rename", "Mkdir", "Copy", "Chmod"]

# ------------------------------------------------------------------------------------------------
# Classification of references to names outside the package.  Keys are dotted names; a key ending
# in ".*" covers every deeper attribute; the longest matching key wins.  Verdicts:
#   "pure"            no filesystem effect
#   a KINDS member    that effect
#   "open@N"          open-like: the mode is positional argument N (or mode=...); reading modes give
#                     Read, anything else (w a x + or not a literal, or a mere mention) gives Write
#   "osopen"          os.open: Read when the flags expression is built from O_RDONLY/O_BINARY/O_CLOEXEC/
#                     O_NOFOLLOW/O_DIRECTORY only, Write otherwise
#   "basicConfig"     logging.basicConfig: Write when called with filename=/handlers=/**kw or merely
#                     mentioned, pure otherwise
#   "dynamic"         Unknown
# Everything else: Unknown ("unclassified external").
EXT_RULES = {}


def _rule(verdict, *names):
    for n in names:
        EXT_RULES[n] = verdict


# modules all of whose attributes are effect-free on the filesystem
_rule("pure", *[m + ".*" for m in (
    "math", "hashlib", "time", "datetime", "typing", "collections", "functools", "itertools", "urllib.parse",
    "re", "string", "platform", "enum", "abc", "dataclasses", "operator", "copy", "struct", "binascii", "base64",
    "textwrap", "warnings", "contextlib", "types", "numbers", "decimal", "fractions", "random", "secrets", "uuid",
    "bisect", "heapq", "unicodedata", "errno", "stat", "posixpath", "fnmatch", "json", "argparse", "__future__",
    "getpass", "locale", "signal", "traceback", "pprint", "array", "zlib", "hmac", "inspect", "weakref", "queue",
    "threading")])
_rule("Write", "argparse.FileType")           # opens the file named on the command line in the given mode
# sys
_rule("pure", "sys.stdout", "sys.stdout.*", "sys.stderr", "sys.stderr.*", "sys.stdin", "sys.stdin.*",
      "sys.__stdout__", "sys.__stdout__.*", "sys.__stderr__", "sys.__stderr__.*",
      "sys.argv", "sys.argv.*", "sys.exit", "sys.platform", "sys.platform.*", "sys.version", "sys.version_info",
      "sys.version_info.*", "sys.maxsize", "sys.exc_info", "sys.getsizeof", "sys.byteorder", "sys.executable",
      "sys.getrecursionlimit", "sys.setrecursionlimit", "sys.getdefaultencoding", "sys.getfilesystemencoding",
      "sys.float_info", "sys.float_info.*", "sys.hexversion", "sys.implementation", "sys.implementation.*",
      "sys.flags", "sys.flags.*", "sys.path", "sys.intern")
# io
_rule("pure", "io.StringIO", "io.BytesIO", "io.TextIOWrapper", "io.BufferedReader", "io.BufferedWriter", "io.BufferedIOBase",
      "io.RawIOBase", "io.IOBase", "io.TextIOBase", "io.SEEK_SET", "io.SEEK_CUR", "io.SEEK_END",
      "io.UnsupportedOperation", "io.DEFAULT_BUFFER_SIZE")
_rule("open@1", "io.open", "io.FileIO", "io.open_code", "codecs.open", "gzip.open", "gzip.GzipFile", "bz2.open", "bz2.BZ2File",
      "lzma.open", "lzma.LZMAFile", "os.fdopen", "tarfile.open", "zipfile.ZipFile")
# logging: handlers that open files are effects; the plain stream machinery is not
_rule("pure", "logging.getLogger", "logging.StreamHandler", "logging.Formatter", "logging.NullHandler", "logging.Handler",
      "logging.Filter", "logging.LoggerAdapter", "logging.Logger", "logging.LogRecord", "logging.DEBUG", "logging.INFO",
      "logging.WARNING", "logging.WARN", "logging.ERROR", "logging.CRITICAL", "logging.FATAL", "logging.NOTSET",
      "logging.debug", "logging.info", "logging.warning", "logging.warn", "logging.error", "logging.critical",
      "logging.exception", "logging.log", "logging.disable", "logging.getLevelName", "logging.addLevelName",
      "logging.captureWarnings", "logging.root", "logging.root.*", "logging.lastResort", "logging.shutdown",
      "logging.getLoggerClass", "logging.setLoggerClass", "logging.BASIC_FORMAT", "logging.raiseExceptions")
_rule("basicConfig", "logging.basicConfig")
_rule("Write", "logging.FileHandler", "logging.handlers.*")
# databases / persistence that create files
_rule("Write", "sqlite3.*", "shelve.*", "dbm.*")
_rule("pure", "pickle.dumps", "pickle.loads", "pickle.load", "pickle.dump", "pickle.HIGHEST_PROTOCOL",
      "pickle.PickleError", "pickle.UnpicklingError", "pickle.PicklingError")     # work on open file objects
# tempfile
_rule("Write", "tempfile.*")
_rule("Mkdir", "tempfile.mkdtemp", "tempfile.TemporaryDirectory")
_rule("pure", "tempfile.gettempdir", "tempfile.gettempprefix", "tempfile.tempdir")
# os
_rule("Remove", "os.remove", "os.unlink", "os.rmdir", "os.removedirs")
_rule("Rename", "os.rename", "os.renames", "os.replace")
_rule("Mkdir", "os.mkdir", "os.makedirs")
_rule("Chmod", "os.chmod", "os.chown", "os.utime", "os.lchown", "os.fchmod", "os.fchown", "os.lchmod", "os.chflags")
_rule("Write", "os.truncate", "os.ftruncate", "os.symlink", "os.link", "os.write", "os.pwrite", "os.writev", "os.mkfifo",
      "os.mknod", "os.sendfile", "os.copy_file_range", "os.setxattr", "os.removexattr", "os.posix_fallocate")
_rule("osopen", "os.open")
_rule("Read", "os.listdir", "os.scandir", "os.walk", "os.fwalk", "os.stat", "os.lstat", "os.fstat", "os.getcwd", "os.getcwdb",
      "os.access", "os.readlink", "os.read", "os.pread", "os.statvfs", "os.getxattr", "os.listxattr",
      "os.path.exists", "os.path.lexists", "os.path.isfile", "os.path.isdir", "os.path.islink", "os.path.ismount",
      "os.path.getsize", "os.path.getmtime", "os.path.getatime", "os.path.getctime", "os.path.samefile",
      "os.path.realpath", "os.path.abspath", "os.path.expanduser")
_rule("pure", "os.path.*", "os.path", "os.sep", "os.linesep", "os.name", "os.curdir", "os.pardir", "os.extsep", "os.altsep",
      "os.pathsep", "os.devnull", "os.PathLike", "os.error", "os.DirEntry", "os.stat_result", "os.terminal_size",
      "os.environ", "os.environ.*", "os.getenv", "os.putenv", "os.unsetenv", "os.fspath", "os.fsencode", "os.fsdecode",
      "os.getpid", "os.getppid", "os.getuid", "os.geteuid", "os.getgid", "os.getlogin", "os.cpu_count", "os.urandom",
      "os.strerror", "os.close", "os.dup", "os.isatty", "os.get_terminal_size", "os.lseek", "os.fsync", "os.uname",
      "os.times", "os.get_blocking", "os.device_encoding", "os.SEEK_SET", "os.SEEK_CUR", "os.SEEK_END",
      "os.F_OK", "os.R_OK", "os.W_OK", "os.X_OK")
# shutil
_rule("Remove", "shutil.rmtree")
_rule("Rename", "shutil.move")
_rule("Copy", "shutil.copy", "shutil.copy2", "shutil.copyfile", "shutil.copytree", "shutil.copyfileobj")
_rule("Chmod", "shutil.copymode", "shutil.copystat", "shutil.chown")
_rule("Write", "shutil.make_archive", "shutil.unpack_archive")
_rule("Read", "shutil.which", "shutil.disk_usage")
_rule("pure", "shutil.get_terminal_size", "shutil.Error", "shutil.SameFileError", "shutil.ignore_patterns")
# pathlib (instance methods go through the method-name rules below)
_rule("pure", "pathlib.Path", "pathlib.PurePath", "pathlib.PosixPath", "pathlib.PurePosixPath", "pathlib.WindowsPath",
      "pathlib.PureWindowsPath")
_rule("Read", "pathlib.Path.home", "pathlib.Path.cwd", "pathlib.PosixPath.home", "pathlib.PosixPath.cwd")
# pyben, configparser, glob
_rule("Read", "pyben.load", "pyben.loadinto", "glob.glob", "glob.iglob", "glob.escape")
_rule("pure", "pyben.loads", "pyben.dumps", "pyben.bendecode", "pyben.benencode", "pyben.DecodeError", "pyben.EncodeError",
      "pyben.FilePathError", "pyben.exceptions.*", "pyben.version", "pyben.version.*",
      "configparser.ConfigParser", "configparser.RawConfigParser", "configparser.Error", "configparser.NoSectionError",
      "configparser.NoOptionError", "configparser.ParsingError", "configparser.MissingSectionHeaderError",
      "configparser.DuplicateSectionError", "configparser.DuplicateOptionError", "configparser.ExtendedInterpolation",
      "configparser.BasicInterpolation", "configparser.DEFAULTSECT")
_rule("Write", "pyben.dump")
_rule("dynamic", "subprocess.*", "importlib.*", "ctypes.*", "multiprocessing.*", "socket.*", "runpy.*", "os.system", "os.popen",
      "os.fork", "os.forkpty", "os.startfile", "os.kill", "os.abort", "os._exit", "os.chdir", "os.fchdir", "os.chroot",
      "os.umask", "sys.modules", "sys.modules.*", "sys.settrace", "sys.setprofile", "sys.addaudithook", "sys.meta_path",
      "sys.path_hooks", "code.*", "pty.*", "asyncio.*", "concurrent.*", "webbrowser.*", "urllib.request.*", "http.*")

RDONLY_FLAGS = {"O_RDONLY", "O_BINARY", "O_CLOEXEC", "O_NOFOLLOW", "O_DIRECTORY", "O_NOCTTY", "O_NONBLOCK", "O_NOATIME"}


def classify_ext(dotted):
    """verdict for a dotted external name (list of components), or None (unclassified)"""
    name = ".".join(dotted)
    if name in EXT_RULES:
        return EXT_RULES[name]
    if len(dotted) == 2 and dotted[0] == "os" and (dotted[1].startswith("O_") or dotted[1].startswith("EX_")):
        return "pure"                                            # open(2) flag constants; os.open itself is judged by "osopen"
    if len(dotted) >= 2 and dotted[0] == "os" and (dotted[1].startswith("exec") or dotted[1].startswith("spawn")
                                                   or dotted[1].startswith("posix_spawn")):
        return "dynamic"
    for k in range(len(dotted) - 1, 0, -1):
        key = ".".join(dotted[:k]) + ".*"
        if key in EXT_RULES:
            return EXT_RULES[key]
    return None


# ------------------------------------------------------------------------------------------------
# Method names on receivers that are not resolvable (locals holding files, paths, loggers, parsers...)
METHOD_EFFECTS = {
    "write_text": "Write", "write_bytes": "Write", "touch": "Write", "symlink_to": "Write", "hardlink_to": "Write",
    "link_to": "Write", "unlink": "Remove", "rmdir": "Remove", "mkdir": "Mkdir", "chmod": "Chmod", "lchmod": "Chmod",
    "rename": "Rename", "rmtree": "Remove", "makedirs": "Mkdir", "copyfile": "Copy", "copytree": "Copy",
    "iterdir": "Read", "glob": "Read", "rglob": "Read", "read_bytes": "Read", "read_text": "Read", "exists": "Read",
    "is_file": "Read", "is_dir": "Read", "is_symlink": "Read", "is_mount": "Read", "stat": "Read", "lstat": "Read",
    "resolve": "Read", "samefile": "Read", "owner": "Read", "group": "Read", "readlink": "Read", "expanduser": "Read",
    "absolute": "Read", "home": "Read", "cwd": "Read", "is_socket": "Read", "is_fifo": "Read", "is_block_device": "Read",
    "is_char_device": "Read", "is_junction": "Read",
    "read": "Read",            # file.read / ConfigParser.read(paths): reading either way
}
PATH_WRITE_METHODS = {m for m, k in METHOD_EFFECTS.items() if k != "Read"} | {"replace"}


def _builtin_method_names():
    import io
    names = set()
    for t in (str, bytes, bytearray, list, dict, set, frozenset, tuple, int, float, bool, complex, memoryview, range, slice,
              io.StringIO, io.BytesIO, io.BufferedReader, io.BufferedWriter, io.TextIOWrapper, BaseException, type(iter([]))):
        names |= {n for n in dir(t)}
    return names


METHOD_PURE = (_builtin_method_names() - set(METHOD_EFFECTS) - {"replace", "open"}) | {
    # logging objects
    "debug", "info", "warning", "warn", "error", "critical", "exception", "log", "setLevel", "addHandler", "removeHandler",
    "setFormatter", "addFilter", "removeFilter", "isEnabledFor", "getEffectiveLevel", "hasHandlers", "getChild", "setStream",
    "formatTime", "formatException", "getMessage",
    # argparse
    "add_argument", "add_subparsers", "add_parser", "add_argument_group", "add_mutually_exclusive_group", "set_defaults",
    "get_default", "parse_args", "parse_known_args", "parse_intermixed_args", "print_help", "print_usage", "format_help",
    "format_usage", "exit",
    # hashlib, datetime, time
    "update", "digest", "hexdigest", "now", "utcnow", "today", "timestamp", "isoformat", "strftime", "strptime",
    "fromtimestamp", "utcfromtimestamp", "date", "time", "total_seconds", "astimezone", "timetuple", "weekday",
    # configparser (read is METHOD_EFFECTS)
    "read_file", "read_string", "read_dict", "sections", "has_section", "has_option", "options", "getint", "getfloat",
    "getboolean", "add_section", "remove_section", "remove_option", "defaults",
    # pure path algebra
    "joinpath", "with_name", "with_suffix", "with_stem", "relative_to", "is_relative_to", "is_absolute", "as_posix",
    "as_uri", "match", "is_reserved", "with_segments",
    # generators, context managers, misc containers
    "send", "throw", "close", "most_common", "elements", "subtract", "appendleft", "popleft", "extendleft", "rotate",
    "move_to_end", "group", "groups", "groupdict", "span", "start", "end", "search", "fullmatch", "findall", "finditer",
    "sub", "subn", "getvalue", "getbuffer", "write", "writelines", "cache_clear", "cache_info", "bit_length",
}
DYNAMIC = {"exec", "eval", "compile", "__import__", "breakpoint", "globals", "locals"}


def is_posix_excluded_test(t):
    """`platform.system() == "Windows"`, `sys.platform == "win32"`, `os.name == "nt"`: false on the platform under study"""
    if not (isinstance(t, ast.Compare) and len(t.ops) == 1 and isinstance(t.ops[0], ast.Eq) and len(t.comparators) == 1):
        return False
    l, r = t.left, t.comparators[0]
    if not (isinstance(r, ast.Constant) and isinstance(r.value, str)):
        return False
    if isinstance(l, ast.Call) and not l.args and isinstance(l.func, ast.Attribute) and isinstance(l.func.value, ast.Name):
        return (l.func.value.id, l.func.attr, r.value) == ("platform", "system", "Windows")
    if isinstance(l, ast.Attribute) and isinstance(l.value, ast.Name):
        return (l.value.id, l.attr, r.value) in (("sys", "platform", "win32"), ("os", "name", "nt"))
    return False


def live_walk(node):
    """ast.walk that does not descend into the body of a Windows-only `if`"""
    todo = [node]
    while todo:
        n = todo.pop()
        yield n
        if isinstance(n, ast.If) and is_posix_excluded_test(n.test):
            todo.extend(n.orelse)
            continue
        todo.extend(ast.iter_child_nodes(n))


class Fn:
    def __init__(self, qual, module, cls, node):
        self.qual = qual          # "module.Class.method" or "module.func"
        self.module = module
        self.cls = cls
        self.node = node
        self.name = node.name
        self.calls = set()        # quals
        self.sites = []           # (targets, discarded: the call is a bare expression statement)
        self.effects = []         # (kind, detail)
        self.unknown = []         # reasons


class Graph:
    # the CLI dispatcher: `args.func(args)` in cli.execute calls the function the selected sub-parser stored under `func`;
    # the command theorems take (command function + cli.execute + import-time code) as roots, so this one edge is not
    # followed; its possible targets are recorded in self.dispatch and gen_effects ties them to the command roots
    DISPATCH = ("cli.execute", "func")

    def __init__(self, repo):
        self.repo = repo
        self.dispatch = set()
        self.fns = {}             # qual -> Fn
        self.classes = {}         # "module.Class" -> (bases [names], node, module)
        self.mod_imports = {}     # module -> {local name: ("module", modname) | ("pkgobj", module, name)}
        self.by_name = {}         # short name -> [quals]
        self.mod_star = {}        # module -> imports the table cannot represent (star imports, import torrentfile.x)
        self.load()
        self.resolve()

    # ---------------------------------------------------------------- loading
    def load(self):
        pdir = os.path.join(self.repo, PKG)
        for fn in sorted(os.listdir(pdir)):
            if not fn.endswith(".py"):
                continue
            mod = fn[:-3]
            tree = ast.parse(open(os.path.join(pdir, fn), encoding="utf-8").read())
            imports = {}
            star = []
            for node in ast.walk(tree):
                if isinstance(node, ast.Import):
                    for a in node.names:
                        if a.name == PKG or a.name.startswith(PKG + "."):
                            # `import torrentfile.utils [as u]`: reached through attribute chains we do not resolve
                            star.append(f"import {a.name}")
                            continue
                        # `import a.b.c` binds `a` to package a; `import a.b.c as x` binds x to a.b.c
                        if a.asname:
                            imports[a.asname] = ("module", a.name)
                        else:
                            imports[a.name.split(".")[0]] = ("module", a.name.split(".")[0])
                elif isinstance(node, ast.ImportFrom):
                    src = node.module or ""
                    if node.level:
                        src = PKG + ("." + src if src else "")
                    for a in node.names:
                        local = a.asname or a.name
                        if a.name == "*":
                            star.append(f"from {src} import *")
                        elif src == PKG:
                            imports[local] = ("pkgmod", a.name) if os.path.exists(os.path.join(pdir, a.name + ".py")) \
                                else ("pkgobj", "__init__", a.name)
                        elif src.startswith(PKG + "."):
                            imports[local] = ("pkgobj", src.split(".", 1)[1], a.name)
                        else:
                            imports[local] = ("extobj", src, a.name)
            self.mod_imports[mod] = imports
            self.mod_star[mod] = star

            def add_fn(qual, cls, node):
                f = Fn(qual, mod, cls, node)
                self.fns[qual] = f
                self.by_name.setdefault(node.name, []).append(qual)

            def visit_body(body, prefix, cls):
                for node in body:
                    if isinstance(node, (ast.FunctionDef, ast.AsyncFunctionDef)):
                        add_fn(f"{prefix}.{node.name}", cls, node)
                        # nested defs are part of their parent (their calls are attributed to it)
                    elif isinstance(node, ast.ClassDef):
                        cq = f"{prefix}.{node.name}"
                        bases = []
                        for b in node.bases:
                            if isinstance(b, ast.Name):
                                bases.append(b.id)
                            elif isinstance(b, ast.Attribute):
                                bases.append(b.attr)
                        self.classes[cq] = (bases, node, mod)
                        visit_body(node.body, cq, cq)
            visit_body(tree.body, mod, None)
            # code that runs at import is a pseudo function: module-level statements, class-body statements,
            # base-class expressions, decorators and default-argument expressions of every def
            at_import = [n for n in tree.body if not isinstance(n, (ast.FunctionDef, ast.AsyncFunctionDef, ast.ClassDef))]

            def collect(body):
                for node in body:
                    if isinstance(node, (ast.FunctionDef, ast.AsyncFunctionDef)):
                        exprs = list(node.decorator_list) + list(node.args.defaults) + [k for k in node.args.kw_defaults if k is not None]
                    elif isinstance(node, ast.ClassDef):
                        exprs = list(node.decorator_list) + list(node.bases) + [k.value for k in node.keywords]
                        at_import.extend(n for n in node.body if not isinstance(n, (ast.FunctionDef, ast.AsyncFunctionDef, ast.ClassDef)))
                        collect(node.body)
                    else:
                        continue
                    for e in exprs:
                        x = ast.Expr(value=e)
                        ast.copy_location(x, e)
                        at_import.append(x)
            collect(tree.body)
            top = ast.FunctionDef(name="<module>", args=ast.arguments(posonlyargs=[], args=[], kwonlyargs=[], kw_defaults=[], defaults=[]),
                                  body=at_import or [ast.Pass()], decorator_list=[])
            add_fn(f"{mod}.<module>", None, top)
            for why in star:
                self.fns[f"{mod}.<module>"].unknown.append(f"unsupported import form: {why}")

    def class_by_short(self, name):
        return [cq for cq in self.classes if cq.split(".")[-1] == name]

    def methods_of_class(self, cq, seen=None):
        """all methods of a class and of its (package) bases, transitively"""
        seen = seen or set()
        if cq in seen:
            return []
        seen.add(cq)
        out = [q for q in self.fns if q.startswith(cq + ".") and "." not in q[len(cq) + 1:]]
        # inner classes too
        out += [q for q in self.fns if q.startswith(cq + ".")]
        for b in self.classes[cq][0]:
            for bq in self.class_by_short(b):
                out += self.methods_of_class(bq, seen)
        return list(dict.fromkeys(out))

    def subclasses(self, cq):
        short = cq.split(".")[-1]
        return [c for c, (bases, _, _) in self.classes.items() if short in bases]

    # --------------------------------------------------------------- resolving
    def returned_names(self, q):
        """names a package function can return, when ALL its return statements return bare names; else None"""
        fn = self.fns[q]
        out = []
        for node in ast.walk(fn.node):
            if isinstance(node, ast.Return):
                if node.value is None:
                    continue
                if isinstance(node.value, ast.Name):
                    out.append((fn.module, fn.cls, node.value.id))
                else:
                    return None
        return out

    def local_callables(self, f, imports):
        """locals bound to the result of a package call that returns classes/functions by name"""
        out = {}
        for node in ast.walk(f.node):
            if isinstance(node, ast.Assign) and len(node.targets) == 1 and isinstance(node.targets[0], ast.Name) \
                    and isinstance(node.value, ast.Call):
                fn = node.value.func
                targets = []
                if isinstance(fn, ast.Attribute) and isinstance(fn.value, ast.Name) and fn.value.id in ("self", "cls") and f.cls:
                    targets = [q for q in self.methods_of_class(f.cls) if q.split(".")[-1] == fn.attr]
                elif isinstance(fn, ast.Name) and f"{f.module}.{fn.id}" in self.fns:
                    targets = [f"{f.module}.{fn.id}"]
                if not targets:
                    continue
                res, ok = set(), True
                for q in targets:
                    names = self.returned_names(q)
                    if names is None:
                        ok = False
                        break
                    for mod, cls, name in names:
                        if f"{mod}.{name}" in self.classes:
                            res.add(("class", f"{mod}.{name}"))
                        elif f"{mod}.{name}" in self.fns:
                            res.add(("fn", f"{mod}.{name}"))
                        else:
                            ok = False
                if ok and res:
                    out[node.targets[0].id] = res
        return out

    def find_cells_and_escapes(self):
        """callback cells (attributes assigned through cls.X = / Class.X =) and package callables passed as arguments"""
        self.cells, self.escaped = set(), set()
        self.kwstore = {}
        for f in self.fns.values():
            for node in ast.walk(f.node):
                if isinstance(node, ast.Assign):
                    for t in node.targets:
                        if isinstance(t, ast.Attribute) and isinstance(t.value, ast.Name):
                            if t.value.id == "cls" or any(c.split(".")[-1] == t.value.id for c in self.classes):
                                self.cells.add(t.attr)
                if isinstance(node, ast.Call):
                    # package callables stored under a keyword (parser.set_defaults(func=commands.create)): a later call
                    # `x.func(...)` on an unresolvable receiver may be any of them
                    for k in node.keywords:
                        if k.arg is None:
                            continue
                        v, q = k.value, None
                        if isinstance(v, ast.Attribute) and isinstance(v.value, ast.Name):
                            imp = self.mod_imports[f.module].get(v.value.id)
                            if imp and imp[0] == "pkgmod":
                                q = f"{imp[1]}.{v.attr}"
                        elif isinstance(v, ast.Name):
                            imp = self.mod_imports[f.module].get(v.id)
                            q = f"{imp[1]}.{imp[2]}" if imp and imp[0] == "pkgobj" else f"{f.module}.{v.id}"
                        if q in self.fns:
                            self.kwstore.setdefault(k.arg, set()).add(q)
                    for a in list(node.args) + [k.value for k in node.keywords]:
                        if isinstance(a, ast.Attribute) and isinstance(a.value, ast.Name) and a.value.id in ("self", "cls") and f.cls:
                            for q in self.methods_of_class(f.cls):
                                if q.split(".")[-1] == a.attr:
                                    self.escaped.add(q)
                        elif isinstance(a, ast.Name):
                            q = f"{f.module}.{a.id}"
                            if q in self.fns:
                                self.escaped.add(q)
                            imp = self.mod_imports[f.module].get(a.id)
                            if imp and imp[0] == "pkgobj" and f"{imp[1]}.{imp[2]}" in self.fns:
                                self.escaped.add(f"{imp[1]}.{imp[2]}")

    def resolve(self):
        self.find_cells_and_escapes()
        for f in self.fns.values():
            imports = self.mod_imports[f.module]
            self._locals = self.local_callables(f, imports)
            nodes = list(live_walk(f.node))
            discarded = {id(n.value) for n in nodes if isinstance(n, ast.Expr) and isinstance(n.value, ast.Call)}
            call_funcs = {id(n.func) for n in nodes if isinstance(n, ast.Call)}
            inner = {id(n.value) for n in nodes if isinstance(n, ast.Attribute)}      # not the outermost link of a chain
            bound = self.bound_names(f)
            # getattr(os, "O_BINARY", 0): the module name there is an attribute reference with a literal name (see reflective)
            inner |= {id(n.args[0]) for n in nodes if isinstance(n, ast.Call) and isinstance(n.func, ast.Name)
                      and n.func.id in ("getattr", "hasattr") and len(n.args) >= 2 and isinstance(n.args[1], ast.Constant)
                      and isinstance(n.args[1].value, str)}
            for node in nodes:
                if isinstance(node, ast.Call):
                    saved, f.calls = f.calls, set()
                    self.resolve_call(f, node, imports, bound)
                    targets, f.calls = f.calls, saved | f.calls
                    f.sites.append((targets, id(node) in discarded))
                elif isinstance(node, (ast.Attribute, ast.Name)) and id(node) not in call_funcs and id(node) not in inner \
                        and isinstance(node.ctx, ast.Load):
                    self.mention(f, node, imports, bound)
            # decorators may wrap the function in a package class/function
            for d in getattr(f.node, "decorator_list", []):
                name = d.id if isinstance(d, ast.Name) else (d.func.id if isinstance(d, ast.Call) and isinstance(d.func, ast.Name) else None)
                if name:
                    self.call_name(f, name, imports)

    def bound_names(self, f):
        """names bound locally in f (parameters, assignment/for/with/except targets): they shadow the import table"""
        out = set()
        args = getattr(f.node, "args", None)
        if args is not None:
            for a in list(args.posonlyargs) + list(args.args) + list(args.kwonlyargs) + [args.vararg, args.kwarg]:
                if a is not None:
                    out.add(a.arg)
        if f.name == "<module>":
            return set()          # module-level bindings are the import table's own scope
        for n in ast.walk(f.node):
            if isinstance(n, ast.Name) and isinstance(n.ctx, ast.Store):
                out.add(n.id)
            elif isinstance(n, ast.ExceptHandler) and n.name:
                out.add(n.name)
        declared = {nm for n in ast.walk(f.node) if isinstance(n, (ast.Global, ast.Nonlocal)) for nm in n.names}
        return out - declared

    def ext_dotted(self, root, chain, imports, bound):
        """dotted external name of an attribute chain rooted at an imported non-package name, else None"""
        if root is None or root in bound:
            return None
        imp = imports.get(root)
        if imp and imp[0] == "module":
            return imp[1].split(".") + chain
        if imp and imp[0] == "extobj":
            return imp[1].split(".") + [imp[2]] + chain
        return None

    def mention(self, f, node, imports, bound):
        """an external name used as a value (not called here): it may be called through the alias, so it counts as called
        with unknown arguments"""
        root, chain = self.root_of(node)
        if isinstance(node, ast.Name):
            imp = imports.get(node.id) if node.id not in bound else None
            if imp and imp[0] == "module":
                f.unknown.append(f"module object `{node.id}` used as a value")
                return
        dotted = self.ext_dotted(root, chain, imports, bound)
        if dotted:
            self.external(f, dotted, None)

    def root_of(self, node):
        chain = []
        while isinstance(node, ast.Attribute):
            chain.append(node.attr)
            node = node.value
        if isinstance(node, ast.Name):
            return node.id, list(reversed(chain))
        if isinstance(node, ast.Call):
            r, c = self.root_of(node.func)
            return ("<call>" + (r or "")), list(reversed(chain))
        return None, list(reversed(chain))

    def open_mode(self, call, pos=1):
        mode = None
        if len(call.args) > pos:
            mode = call.args[pos]
        if any(isinstance(a, ast.Starred) for a in call.args):
            return "?"
        for kw in call.keywords:
            if kw.arg == "mode":
                mode = kw.value
            if kw.arg is None:
                return "?"
        if mode is None:
            return "r"
        if isinstance(mode, ast.Constant) and isinstance(mode.value, str):
            return mode.value
        return "?"

    def open_effect(self, f, what, mode):
        if set(mode) & set("wax+?"):
            f.effects.append(("Write", f"{what} mode {mode!r}"))
        else:
            f.effects.append(("Read", f"{what} mode {mode!r}"))

    def call_name(self, f, name, imports, call=None, bound=()):
        """call of a bare name"""
        if name in DYNAMIC:
            f.unknown.append(f"dynamic call {name}")
            return
        if name == "open":
            return  # handled by caller (needs the mode)
        imp = imports.get(name) if name not in bound else None
        if imp and imp[0] == "pkgobj":
            self.call_pkg_object(f, imp[1], imp[2])
            return
        if imp and imp[0] == "extobj":
            self.external(f, imp[1].split(".") + [imp[2]], call)
            return
        if imp and imp[0] == "module":
            f.unknown.append(f"module object `{name}` called")
            return
        # same module function or class
        q = f"{f.module}.{name}"
        if q in self.fns:
            f.calls.add(q)
            return
        if q in self.classes:
            self.call_class(f, q)
            return
        # class nested in enclosing class
        if f.cls and f"{f.cls}.{name}" in self.classes:
            self.call_class(f, f"{f.cls}.{name}")
            return
        import builtins
        if hasattr(builtins, name) and name not in bound:
            if name in ("getattr", "setattr", "delattr", "hasattr") and call is not None:
                self.reflective(f, name, call, imports, bound)
            return
        if name == "cls" and f.cls:
            self.call_class(f, f.cls)
            return
        if name in getattr(self, "_locals", {}):
            for kind, q in self._locals[name]:
                if kind == "class":
                    self.call_class(f, q)
                else:
                    f.calls.add(q)
            return
        # a function DEFINED inside this function (and never rebound in it): its body is walked as part of `f`, so its calls
        # and effects are already attributed to `f`
        nested = {n.name for n in ast.walk(f.node) if isinstance(n, (ast.FunctionDef, ast.AsyncFunctionDef)) and n is not f.node}
        if name in nested:
            rebound = any(isinstance(n, ast.Name) and n.id == name and isinstance(n.ctx, (ast.Store, ast.Del))
                          for n in ast.walk(f.node)) or \
                any(isinstance(n, ast.arg) and n.arg == name for n in ast.walk(f.node)) or \
                sum(1 for n in ast.walk(f.node) if isinstance(n, (ast.FunctionDef, ast.AsyncFunctionDef, ast.ClassDef))
                    and n is not f.node and n.name == name) != 1
            if not rebound:
                return
        # unknown local callable: every package class may be constructed
        for cq in self.classes:
            self.call_class(f, cq)

    def reflective(self, f, name, call, imports, bound):
        """getattr/setattr/delattr/hasattr: a literal attribute name is an ordinary attribute reference; anything else is dynamic"""
        if len(call.args) < 2 or any(isinstance(a, ast.Starred) for a in call.args):
            f.unknown.append(f"{name} with unsupported arguments")
            return
        attr = call.args[1]
        if not (isinstance(attr, ast.Constant) and isinstance(attr.value, str)):
            if name != "hasattr":
                f.unknown.append(f"{name} with a computed attribute name")
            return
        if name in ("getattr", "hasattr"):
            root, chain = self.root_of(call.args[0])
            dotted = self.ext_dotted(root, chain + [attr.value], imports, bound)
            if dotted:
                if name == "getattr":
                    self.external(f, dotted, None)
                return
            if name == "getattr" and isinstance(call.args[0], ast.Name) and call.args[0].id not in bound \
                    and imports.get(call.args[0].id, ("",))[0] == "module":
                f.unknown.append(f"getattr on module `{call.args[0].id}`")

    def call_pkg_object(self, f, module, name):
        q = f"{module}.{name}"
        if q in self.fns:
            f.calls.add(q)
        elif q in self.classes:
            self.call_class(f, q)
        else:
            # a module-level alias (e.g. interactive = select_action): resolve by name everywhere
            for q2 in self.by_name.get(name, []):
                f.calls.add(q2)
            for cq in self.class_by_short(name):
                self.call_class(f, cq)

    def call_class(self, f, cq):
        for m in self.methods_of_class(cq):
            f.calls.add(m)
        for sub in self.subclasses(cq):
            for m in self.methods_of_class(sub):
                f.calls.add(m)

    def external(self, f, dotted, call=None):
        """reference to (call is None) or call of a name outside the package -- fail closed"""
        name = ".".join(dotted)
        v = classify_ext(dotted)
        if v is None:
            f.unknown.append(f"unclassified external `{name}`" + ("" if call is not None else " (mentioned)"))
        elif v == "dynamic":
            f.unknown.append(f"dynamic/external process: {name}")
        elif v == "pure":
            return
        elif v in KINDS:
            f.effects.append((v, name))
        elif v.startswith("open@"):
            self.open_effect(f, name, self.open_mode(call, int(v[5:])) if call is not None else "?")
        elif v == "osopen":
            ok = call is not None and len(call.args) >= 2 and not call.keywords
            if ok:
                for n in ast.walk(call.args[1]):
                    if isinstance(n, ast.Attribute):
                        ok = ok and n.attr in RDONLY_FLAGS
                    elif isinstance(n, ast.Constant):
                        ok = ok and n.value == 0
                    elif not isinstance(n, (ast.BinOp, ast.BitOr, ast.Name, ast.Load)):
                        ok = False
                    elif isinstance(n, ast.Name) and n.id != "os":
                        ok = False
            f.effects.append(("Read" if ok else "Write", name + ("" if ok else " (flags not provably read-only)")))
        elif v == "basicConfig":
            if call is None or any(kw.arg in (None, "filename", "handlers") for kw in call.keywords) or call.args:
                f.effects.append(("Write", name + " with filename=/handlers=/computed arguments"))
        else:
            f.unknown.append(f"unhandled verdict {v} for {name}")

    def method_rule(self, f, meth, call, targets):
        """method call on a receiver that is not resolvable: judged by the method name"""
        if meth == "open":
            # Path.open(mode=...) / tarfile-like: mode is the first positional argument
            self.open_effect(f, "<obj>.open", self.open_mode(call, 0))
        elif meth == "replace":
            # Path.replace(target) takes one argument; str/bytes.replace(old, new[, count]) two or three
            if len(call.args) + len(call.keywords) < 2:
                f.effects.append(("Rename", "<obj>.replace (pathlib-like)"))
        elif meth in METHOD_EFFECTS:
            f.effects.append((METHOD_EFFECTS[meth], f"<obj>.{meth} (pathlib-like)"))
        elif meth in METHOD_PURE or (meth.startswith("__") and meth.endswith("__")):
            pass
        elif not targets:
            f.unknown.append(f"method `.{meth}()` on an unclassified receiver")

    def resolve_call(self, f, call, imports, bound=()):
        fn = call.func
        if isinstance(fn, ast.Name):
            if fn.id == "open" and fn.id not in bound:
                self.open_effect(f, "open", self.open_mode(call))
                return
            self.call_name(f, fn.id, imports, call, bound)
            return
        if isinstance(fn, ast.Attribute):
            root, chain = self.root_of(fn)
            meth = chain[-1]
            if root in ("self", "cls") and len(chain) == 1 and meth in self.cells:
                for q in self.escaped:      # a callback cell may hold any callable that escapes as an argument
                    f.calls.add(q)
            if root in ("self", "cls") and len(chain) == 1 and f.cls:
                targets = [q for q in self.methods_of_class(f.cls) if q.split(".")[-1] == meth]
                for sub in self.subclasses(f.cls):
                    targets += [q for q in self.methods_of_class(sub) if q.split(".")[-1] == meth]
                if targets:
                    for q in targets:
                        f.calls.add(q)
                    return
                nested = [cq for cq in self.classes if cq.split(".")[-1] == meth and cq.count(".") >= 2]
                if nested:                      # self.Inner(...): a class nested in this class (or, by name, in any class)
                    for cq in nested:
                        self.call_class(f, cq)
                    return
                # attribute holding a callable (callback), or a method inherited from an external base: any package
                # function of that name; judged by its name otherwise
                for q in self.by_name.get(meth, []):
                    f.calls.add(q)
                if meth not in self.cells and not self.instance_attr(f.cls, meth):
                    self.method_rule(f, meth, call, self.by_name.get(meth, []))
                return
            if root == "<call>super" and f.cls:
                # super().m(...): method m of the (package) bases of the enclosing class; external otherwise
                for b in self.classes[f.cls][0]:
                    for bq in self.class_by_short(b):
                        for q in self.methods_of_class(bq):
                            if q.split(".")[-1] == meth:
                                f.calls.add(q)
                return
            dotted = self.ext_dotted(root, chain, imports, bound)
            if dotted:
                self.external(f, dotted, call)
                return
            imp = imports.get(root) if (root and root not in bound) else None
            if imp and imp[0] == "pkgmod":
                if len(chain) == 1:
                    self.call_pkg_object(f, imp[1], meth)
                    return
            if imp and imp[0] == "pkgobj" and len(chain) == 1:
                # Class.method(...) or function attribute
                cq = f"{imp[1]}.{imp[2]}"
                if cq in self.classes:
                    for q in self.methods_of_class(cq):
                        if q.split(".")[-1] == meth:
                            f.calls.add(q)
                    return
            # Class.method(...) with a class of this module
            if root and f"{f.module}.{root}" in self.classes and len(chain) == 1:
                for q in self.methods_of_class(f"{f.module}.{root}"):
                    if q.split(".")[-1] == meth:
                        f.calls.add(q)
                return
            # any other receiver: every package function/method with that name, and the verdict of the name itself
            targets = list(self.by_name.get(meth, [])) + sorted(self.kwstore.get(meth, ()))
            if (f.qual, meth) == self.DISPATCH and self.kwstore.get(meth):
                self.dispatch |= self.kwstore[meth]
                return
            self.method_rule(f, meth, call, targets)
            for q in targets:
                f.calls.add(q)
            return
        if isinstance(fn, ast.Call) or isinstance(fn, ast.Subscript) or isinstance(fn, ast.Lambda):
            for cq in self.classes:
                self.call_class(f, cq)
            return
        f.unknown.append("call of an unsupported expression form")

    def instance_attr(self, cq, name):
        """is `self.<name>` assigned somewhere in class cq, its bases or subclasses (an instance attribute holding a callable)"""
        todo, seen = [cq], set()
        while todo:
            c = todo.pop()
            if c in seen or c not in self.classes:
                continue
            seen.add(c)
            for n in ast.walk(self.classes[c][1]):
                if isinstance(n, ast.Attribute) and isinstance(n.ctx, ast.Store) and n.attr == name \
                        and isinstance(n.value, ast.Name) and n.value.id == "self":
                    return True
            for b in self.classes[c][0]:
                todo += self.class_by_short(b)
            todo += self.subclasses(c)
        return False

    # ------------------------------------------------------------------ queries
    def reach(self, roots):
        seen, todo = set(), list(roots)
        while todo:
            q = todo.pop()
            if q in seen or q not in self.fns:
                continue
            seen.add(q)
            todo.extend(self.fns[q].calls)
        return seen
