"""
Regenerates coq/Gen/GenPathCheck.v from torrentfile/rebuild.py: the TABLE of what `Metadata._check_parts` refuses and the SHAPE
of its definition and of its call sites.  Fail closed.

Read from the source:
  * `_check_parts(parts)` is a plain function (no `yield`, so a call runs it) whose body is exactly
        for <p> in parts:
            if <COND>: raise ValueError(...)
    where COND is an `or` of atoms over the loop variable <p>:
        not isinstance(<p>, str)                       -> gen_requires_str
        <p> in (<string literals>) | <p> == <literal>   -> gen_forbidden_exact
        <one-character literal> in <p>                  -> gen_forbidden_chars
        os.sep in <p> | os.path.sep in <p>              -> gen_forbidden_chars "/"   (POSIX: the model's platform)
  * every call of `_check_parts` in the module is an expression STATEMENT `..._check_parts(x)` with exactly one argument that is a
    bare name or a one-element list display `[e]` -- never a slice, a filtered copy or a generator of the elements -- so the
    whole list it names is validated (which list that is at each use is the business of the differential tie of C19).

Proofs/PathCheckInstance.v proves from this text that the generated table refuses exactly what Model/PathSafe.safe_comp refuses.
"""
import ast
import os
import sys

sys.path.insert(0, os.path.dirname(os.path.abspath(__file__)))
from pyfun2coq import Refuse  # noqa


def qs(s):
    if any(ord(ch) < 32 or ord(ch) > 126 for ch in s):
        raise Refuse(f"string literal {s!r} outside printable ASCII")
    return '"' + s.replace('"', '""') + '"'


def find_check_parts(tree):
    hits = []
    for node in ast.walk(tree):
        if isinstance(node, ast.ClassDef):
            for st in node.body:
                if isinstance(st, ast.FunctionDef) and st.name == "_check_parts":
                    hits.append(st)
    for st in tree.body:
        if isinstance(st, ast.FunctionDef) and st.name == "_check_parts":
            hits.append(st)
    if len(hits) != 1:
        raise Refuse(f"expected exactly one definition of _check_parts, found {len(hits)}")
    return hits[0]


def atoms(e):
    if isinstance(e, ast.BoolOp) and isinstance(e.op, ast.Or):
        out = []
        for v in e.values:
            out += atoms(v)
        return out
    return [e]


def gen_pathcheck(repo):
    src = os.path.join(repo, "torrentfile", "rebuild.py")
    tree = ast.parse(open(src, encoding="utf-8").read())
    fn = find_check_parts(tree)
    if any(isinstance(n, (ast.Yield, ast.YieldFrom, ast.Await)) for n in ast.walk(fn)) or isinstance(fn, ast.AsyncFunctionDef):
        raise Refuse("_check_parts is a generator or coroutine: calling it validates nothing")
    deco = [ast.unparse(d) for d in fn.decorator_list]
    params = [a.arg for a in fn.args.args]
    if fn.args.vararg or fn.args.kwarg or fn.args.kwonlyargs or fn.args.defaults:
        raise Refuse("_check_parts: signature not modelled")
    if deco == ["staticmethod"] and len(params) == 1:
        partsv = params[0]
    elif not deco and len(params) == 2 and params[0] in ("self", "cls"):
        partsv = params[1]
    elif deco == ["classmethod"] and len(params) == 2:
        partsv = params[1]
    else:
        raise Refuse(f"_check_parts: decorators {deco} / parameters {params} not modelled")
    body = [st for st in fn.body if not (isinstance(st, ast.Expr) and isinstance(st.value, ast.Constant))]
    body = [st for st in body if not isinstance(st, ast.Pass)]
    if len(body) != 1 or not isinstance(body[0], ast.For):
        raise Refuse("_check_parts: body is not a single `for <p> in parts:` loop")
    loop = body[0]
    if loop.orelse or not isinstance(loop.target, ast.Name) or not (isinstance(loop.iter, ast.Name) and loop.iter.id == partsv):
        raise Refuse(f"_check_parts: the loop does not run over the bare parameter `{partsv}`")
    pv = loop.target.id
    lbody = [st for st in loop.body if not isinstance(st, ast.Pass)]
    if len(lbody) != 1 or not isinstance(lbody[0], ast.If) or lbody[0].orelse:
        raise Refuse("_check_parts: loop body is not a single `if <cond>: raise ValueError(...)`")
    iff = lbody[0]
    if len(iff.body) != 1 or not isinstance(iff.body[0], ast.Raise):
        raise Refuse("_check_parts: the guarded statement is not a single raise")
    exc = iff.body[0].exc
    exc = exc.func if isinstance(exc, ast.Call) else exc
    if not (isinstance(exc, ast.Name) and exc.id == "ValueError"):
        raise Refuse("_check_parts: raises something other than ValueError")

    def is_p(e):
        return isinstance(e, ast.Name) and e.id == pv
    requires_str, exact, chars = False, [], []
    for a in atoms(iff.test):
        # not isinstance(p, str)
        if isinstance(a, ast.UnaryOp) and isinstance(a.op, ast.Not) and isinstance(a.operand, ast.Call) \
                and isinstance(a.operand.func, ast.Name) and a.operand.func.id == "isinstance" and len(a.operand.args) == 2 \
                and not a.operand.keywords and is_p(a.operand.args[0]) \
                and isinstance(a.operand.args[1], ast.Name) and a.operand.args[1].id == "str":
            requires_str = True
            continue
        if isinstance(a, ast.Compare) and len(a.ops) == 1:
            l, op, r = a.left, a.ops[0], a.comparators[0]
            if is_p(l) and isinstance(op, ast.In) and isinstance(r, (ast.Tuple, ast.List, ast.Set)) \
                    and all(isinstance(x, ast.Constant) and isinstance(x.value, str) for x in r.elts):
                exact += [x.value for x in r.elts]
                continue
            if isinstance(op, ast.Eq) and ((is_p(l) and isinstance(r, ast.Constant) and isinstance(r.value, str))
                                           or (is_p(r) and isinstance(l, ast.Constant) and isinstance(l.value, str))):
                exact.append(r.value if is_p(l) else l.value)
                continue
            if isinstance(op, ast.In) and is_p(r):
                if isinstance(l, ast.Constant) and isinstance(l.value, str) and len(l.value) == 1 and ord(l.value) < 128:
                    chars.append(ord(l.value))
                    continue
                if ast.unparse(l) in ("os.sep", "os.path.sep"):
                    chars.append(ord("/"))
                    continue
        raise Refuse(f"_check_parts: condition `{ast.unparse(a)}` is outside the modelled atoms")
    # call sites
    calls = [n for n in ast.walk(tree) if isinstance(n, ast.Call) and (
        (isinstance(n.func, ast.Attribute) and n.func.attr == "_check_parts") or
        (isinstance(n.func, ast.Name) and n.func.id == "_check_parts"))]
    stmts = {id(n.value) for n in ast.walk(tree) if isinstance(n, ast.Expr)}
    for c in calls:
        if id(c) not in stmts:
            raise Refuse(f"line {c.lineno}: a call of _check_parts is not an expression statement")
        if len(c.args) != 1 or c.keywords or isinstance(c.args[0], ast.Starred):
            raise Refuse(f"line {c.lineno}: _check_parts called with other than one positional argument")
        a = c.args[0]
        if not (isinstance(a, ast.Name) or (isinstance(a, ast.List) and len(a.elts) == 1 and not isinstance(a.elts[0], ast.Starred))):
            raise Refuse(f"line {c.lineno}: _check_parts({ast.unparse(a)}): the argument is neither a bare name nor a one-element list")
    # other references (passed around, rebound) would escape this reading
    refs = [n for n in ast.walk(tree) if (isinstance(n, ast.Attribute) and n.attr == "_check_parts")
            or (isinstance(n, ast.Name) and n.id == "_check_parts")]
    if len(refs) != len(calls):
        raise Refuse("_check_parts is referenced other than by direct calls")
    if not calls:
        raise Refuse("_check_parts is never called")
    out = ["(* GENERATED by gen/gen_pathcheck.py from torrentfile/rebuild.py (Metadata._check_parts and its call sites) -- do not edit. *)",
           "From Coq Require Import String Ascii List Bool.", "Import ListNotations.", "Open Scope string_scope.", "",
           "(* what one element is refused for *)",
           f"Definition gen_requires_str : bool := {'true' if requires_str else 'false'}.",
           "Definition gen_forbidden_exact : list string := [" + "; ".join(qs(s) for s in exact) + "].",
           "Definition gen_forbidden_chars : list ascii := [" + "; ".join(f"ascii_of_nat {n}" for n in chars) + "].", "",
           "(* shape: a plain function looping over the whole argument; every call is a statement on a bare name or a one-element list *)",
           "Definition gen_check_parts_plain_loop : bool := true.",
           "Definition gen_calls_validate_whole_argument : bool := true.",
           f"Definition gen_call_sites : nat := {len(calls)}."]
    return "\n".join(out) + "\n"


def write_if_changed(path, text):
    old = open(path, encoding="utf-8").read() if os.path.exists(path) else None
    if old != text:
        with open(path, "w", encoding="utf-8") as fd:
            fd.write(text)


def main(repo, outdir):
    diags = {}
    try:
        text = gen_pathcheck(repo)
    except (Refuse, SyntaxError, OSError) as e:
        diags["GenPathCheck.v"] = f"{type(e).__name__}: {e}"
        text = (f"(* GENERATED: translator refused: {str(e).replace('*)', '* )')} *)\n"
                "Definition translator_refused : unit := tt.\n")
    write_if_changed(os.path.join(outdir, "GenPathCheck.v"), text)
    return diags


if __name__ == "__main__":
    for k, v in main(sys.argv[1] if len(sys.argv) > 1 else "/repo", sys.argv[2] if len(sys.argv) > 2 else "/verif/coq/Gen").items():
        print("REFUSED", k, v)
