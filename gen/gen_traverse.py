"""
Regenerates coq/Gen/GenTraverse.v from torrentfile/torrent.py: the DECISIONS of the three `_traverse` methods (TorrentFileV2,
TorrentFileHybrid, TorrentAssembler) that BEP 52 fixes as arithmetic on the file size:

  * when a file gets a `piece layers` entry: the test of the one `if` that guards `self.piece_layers[...] = ...`
  * when a file is recorded without a root: the test of the `if` whose body returns a leaf without "pieces root"
  * that a directory's entries are visited as `sorted(os.listdir(path))`.

The tests are translated as integer comparisons over (size, pl) by gen/pyfun2coq.py (size = the name bound to
os.path.getsize(path), pl = self.piece_length); Proofs/TraverseInstance.v proves them equal to `pl <? size` and `size =? 0` for
ALL sizes and piece lengths.  Fail closed: anything else makes the translator refuse.
"""
import ast
import os
import sys

sys.path.insert(0, os.path.dirname(os.path.abspath(__file__)))
from pyfun2coq import FunTranslator, Refuse, INT  # noqa

CLASSES = ["TorrentFileV2", "TorrentFileHybrid", "TorrentAssembler"]


class _PL(ast.NodeTransformer):
    def visit_Attribute(self, node):
        if isinstance(node.value, ast.Name) and node.value.id == "self" and node.attr == "piece_length":
            return ast.copy_location(ast.Name(id="__pl", ctx=ast.Load()), node)
        return self.generic_visit(node)


def stores_layer(node):
    return any(isinstance(n, ast.Assign) and any(
        isinstance(t, ast.Subscript) and ast.unparse(t.value) == "self.piece_layers" for t in n.targets)
        for n in ast.walk(node))


def returns_rootless_leaf(stmts):
    for st in stmts:
        if isinstance(st, ast.Return) and st.value is not None:
            txt = ast.unparse(st.value)
            return "pieces root" not in txt and "length" in txt
    return False


def one_class(tree, cname):
    cls = [n for n in tree.body if isinstance(n, ast.ClassDef) and n.name == cname]
    if len(cls) != 1:
        raise Refuse(f"class {cname}: expected exactly one definition")
    fns = [n for n in cls[0].body if isinstance(n, ast.FunctionDef) and n.name == "_traverse"]
    if len(fns) != 1:
        raise Refuse(f"{cname}._traverse: expected exactly one definition")
    fn = fns[0]
    body = [st for st in fn.body if not (isinstance(st, ast.Expr) and isinstance(st.value, ast.Constant))]
    if not body or not (isinstance(body[0], ast.If) and ast.unparse(body[0].test) == "os.path.isfile(path)" and not body[0].orelse):
        raise Refuse(f"{cname}._traverse: does not start with `if os.path.isfile(path):`")
    filepart, rest = body[0], body[1:]
    if stores_layer(ast.Module(body=rest, type_ignores=[])):
        raise Refuse(f"{cname}._traverse: piece layers stored outside the file branch")
    # size variable
    sizes = [st.targets[0].id for st in ast.walk(filepart) if isinstance(st, ast.Assign) and len(st.targets) == 1
             and isinstance(st.targets[0], ast.Name) and ast.unparse(st.value) == "os.path.getsize(path)"]
    if len(sizes) != 1:
        raise Refuse(f"{cname}._traverse: expected exactly one `<name> = os.path.getsize(path)`")
    sv = sizes[0]
    rebinds = [n for n in ast.walk(fn) if isinstance(n, ast.Name) and n.id == sv and isinstance(n.ctx, ast.Store)]
    if len(rebinds) != 1:
        raise Refuse(f"{cname}._traverse: `{sv}` is bound more than once")
    # the guard of the layer store: the innermost `if` containing it; every enclosing statement up to the file branch must
    # be that `if` itself (no other conditions, loops or handlers around it)
    guards = [st for st in filepart.body if stores_layer(st)]
    if len(guards) != 1 or not isinstance(guards[0], ast.If) or guards[0].orelse:
        raise Refuse(f"{cname}._traverse: the piece-layers store is not guarded by exactly one top-level `if` of the file branch")
    g = guards[0]
    if not (len(g.body) == 1 and isinstance(g.body[0], ast.Assign) and stores_layer(g.body[0])):
        raise Refuse(f"{cname}._traverse: the guarded block is not the single store into self.piece_layers")
    empties = [st for st in filepart.body if isinstance(st, ast.If) and not st.orelse and returns_rootless_leaf(st.body)]
    if len(empties) != 1:
        raise Refuse(f"{cname}._traverse: expected exactly one `if <test>: return <leaf without pieces root>`")
    # the rootless return must come before any return that carries a root, and every other return of the branch carries one
    others = [st for st in filepart.body if isinstance(st, ast.Return)]
    if not others or any("pieces root" not in ast.unparse(r.value) for r in others if r.value is not None):
        raise Refuse(f"{cname}._traverse: a return of the file branch outside the empty-file test carries no root")
    tr = FunTranslator(fn)
    env = {sv: ("size", INT), "__pl": ("pl", INT)}
    layer = tr.boolean(_PL().visit(ast.parse(ast.unparse(g.test), mode="eval").body), env)
    empty = tr.boolean(_PL().visit(ast.parse(ast.unparse(empties[0].test), mode="eval").body), env)
    # directory part: for name in sorted(os.listdir(path))
    loops = [n for n in ast.walk(ast.Module(body=rest, type_ignores=[])) if isinstance(n, (ast.For, ast.comprehension))]
    if len(loops) != 1 or ast.unparse(loops[0].iter) != "sorted(os.listdir(path))":
        raise Refuse(f"{cname}._traverse: the directory is not walked as `sorted(os.listdir(path))`")
    return layer, empty


def gen_traverse(repo):
    src = os.path.join(repo, "torrentfile", "torrent.py")
    tree = ast.parse(open(src, encoding="utf-8").read())
    out = ["(* GENERATED by gen/gen_traverse.py from torrentfile/torrent.py (_traverse of the three v2-capable creators) -- do not edit. *)",
           "From Coq Require Import ZArith Bool.", "Open Scope Z_scope.", ""]
    for c in CLASSES:
        layer, empty = one_class(tree, c)
        out += [f"(* {c}._traverse *)",
                f"Definition gen_layer_cond_{c} (size pl : Z) : bool := {layer}.",
                f"Definition gen_rootless_cond_{c} (size pl : Z) : bool := {empty}.", ""]
    out += ["(* every directory is walked as sorted(os.listdir(path)) *)", "Definition gen_listing_sorted : bool := true."]
    return "\n".join(out) + "\n"


def write_if_changed(path, text):
    old = open(path, encoding="utf-8").read() if os.path.exists(path) else None
    if old != text:
        with open(path, "w", encoding="utf-8") as fd:
            fd.write(text)


def main(repo, outdir):
    diags = {}
    try:
        text = gen_traverse(repo)
    except (Refuse, SyntaxError, OSError) as e:
        diags["GenTraverse.v"] = f"{type(e).__name__}: {e}"
        text = (f"(* GENERATED: translator refused: {str(e).replace('*)', '* )')} *)\n"
                "Definition translator_refused : unit := tt.\n")
    write_if_changed(os.path.join(outdir, "GenTraverse.v"), text)
    return diags


if __name__ == "__main__":
    for k, v in main(sys.argv[1] if len(sys.argv) > 1 else "/repo", sys.argv[2] if len(sys.argv) > 2 else "/verif/coq/Gen").items():
        print("REFUSED", k, v)
