"""
cli.py with DECLARATION HELPERS expanded: shared by gen_cli.py (parser tables) and gen_effects.py (which function a sub-command
dispatches to).  A helper is a module-level function of cli.py without decorators, defaults, *args or **kwargs whose body
(after the docstring) consists only of

    <local> = <parameter>.add_parser(...)                       (declares a sub-parser)
    <parameter or local>.add_argument(...)
    <parameter or local>.set_defaults(...)

with argument expressions built from literals, its own parameters and module-level names.  A call of a helper that is an
expression STATEMENT of cli.execute, with positional / keyword arguments that are literals, names or dotted names, is replaced
by the helper's body: parameters substituted, locals renamed apart per call site.  So

    _add_url_list_option(create_parser, "--web-seed", "url_list", "...")       reads as   create_parser.add_argument("--web-seed", ...)
    _add_single_path_command(subparsers, "info", commands.info, ...)           reads as   p = subparsers.add_parser("info", ...); ...

Anything else is left untouched and meets the translators' own refusals.  The expansion is purely syntactic and the helper must
be called as a statement, so evaluation order and the set of declarations are those of the source.
"""
import ast
import copy

METHODS = ("add_argument", "set_defaults")


def _strip_doc(body):
    if body and isinstance(body[0], ast.Expr) and isinstance(body[0].value, ast.Constant) and isinstance(body[0].value.value, str):
        return body[1:]
    return body


class _Subst(ast.NodeTransformer):
    def __init__(self, mapping, rename):
        self.mapping, self.rename = mapping, rename

    def visit_Name(self, node):
        if node.id in self.rename:
            return ast.copy_location(ast.Name(id=self.rename[node.id], ctx=node.ctx), node)
        if isinstance(node.ctx, ast.Load) and node.id in self.mapping:
            return ast.copy_location(copy.deepcopy(self.mapping[node.id]), node)
        return node


def _helpers(tree, skip):
    module_names = {n.name for n in tree.body if isinstance(n, (ast.FunctionDef, ast.ClassDef))} | \
        {t.id for n in tree.body if isinstance(n, ast.Assign) for t in n.targets if isinstance(t, ast.Name)} | \
        {a.asname or a.name.split(".")[0] for n in tree.body if isinstance(n, (ast.Import, ast.ImportFrom)) for a in n.names}
    out = {}
    for st in tree.body:
        if not isinstance(st, ast.FunctionDef) or st.name == skip or st.decorator_list:
            continue
        a = st.args
        if a.vararg or a.kwarg or a.kwonlyargs or a.defaults or a.posonlyargs or not a.args:
            continue
        params = [x.arg for x in a.args]
        body = _strip_doc(st.body)
        local, ok = [], bool(body)
        for b in body:
            call = None
            if isinstance(b, ast.Assign) and len(b.targets) == 1 and isinstance(b.targets[0], ast.Name) \
                    and isinstance(b.value, ast.Call) and isinstance(b.value.func, ast.Attribute) \
                    and b.value.func.attr == "add_parser" and isinstance(b.value.func.value, ast.Name) \
                    and b.value.func.value.id in params and b.targets[0].id not in params + local:
                local.append(b.targets[0].id)
                call = b.value
            elif isinstance(b, ast.Expr) and isinstance(b.value, ast.Call) and isinstance(b.value.func, ast.Attribute) \
                    and b.value.func.attr in METHODS and isinstance(b.value.func.value, ast.Name) \
                    and b.value.func.value.id in params + local:
                call = b.value
            if call is None:
                ok = False
                break
            for arg in list(call.args) + [k.value for k in call.keywords]:
                for n in ast.walk(arg):
                    if isinstance(n, ast.Name) and n.id not in params and n.id not in module_names:
                        ok = False
                    if isinstance(n, (ast.Call, ast.Lambda, ast.NamedExpr, ast.Starred)):
                        ok = False
            if any(k.arg is None for k in call.keywords):
                ok = False
        if ok:
            out[st.name] = (params, local, body)
    return out


def _simple(e):
    if isinstance(e, (ast.Constant, ast.Name)):
        return True
    if isinstance(e, ast.Attribute):
        return _simple(e.value)
    return False


def expand(tree, fname="execute"):
    """returns a deep copy of `tree` in which the body of function `fname` has its helper calls expanded"""
    tree = copy.deepcopy(tree)
    fns = [n for n in tree.body if isinstance(n, ast.FunctionDef) and n.name == fname]
    if len(fns) != 1:
        return tree
    fn = fns[0]
    helpers = _helpers(tree, fname)
    out = []
    for st in fn.body:
        if isinstance(st, ast.Expr) and isinstance(st.value, ast.Call) and isinstance(st.value.func, ast.Name) \
                and st.value.func.id in helpers:
            params, local, body = helpers[st.value.func.id]
            call = st.value
            mapping = dict(zip(params, call.args)) if len(call.args) <= len(params) and not any(
                isinstance(a, ast.Starred) for a in call.args) else None
            if mapping is not None:
                for k in call.keywords:
                    if k.arg is None or k.arg in mapping or k.arg not in params:
                        mapping = None
                        break
                    mapping[k.arg] = k.value
            if mapping is None or set(mapping) != set(params) or not all(_simple(v) for v in mapping.values()):
                out.append(st)
                continue
            rename = {l: f"{l}__line{st.lineno}" for l in local}
            for b in body:
                nb = _Subst(mapping, rename).visit(copy.deepcopy(b))
                for n in ast.walk(nb):
                    if hasattr(n, "lineno"):
                        n.lineno = st.lineno
                        n.end_lineno = st.lineno
                out.append(ast.fix_missing_locations(nb))
        else:
            out.append(st)
    fn.body = out
    return tree
