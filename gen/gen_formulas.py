"""
Regenerates coq/Gen/GenFormulas.v from two one-line FORMULAS of the package that carry a property on their own:

  * torrent.py, TorrentFile.assemble (piece alignment, C15): `remainder = -filesize % self.piece_length`, the test `if remainder:`
    and the padding entry {"attr": "p", "length": remainder, "path": [".pad", str(remainder)]} appended under it
      -> gen_align_pad (size pl : Z) : Z,  gen_align_entry_shape : bool
  * recheck.py, Checker.iter_hashes (C04 C05 C16): `self._result = (matched / consumed) * 100 if consumed > 0 else 0`
      -> gen_percent_expr : fexpr (a tree of int/int true divisions and float multiplications over `matched`, `consumed` and
         integer literals), gen_percent_guard : the result is 0 unless consumed > 0

Proofs/FormulasInstance.v proves, for ALL sizes and piece lengths, that gen_align_pad is the gap to the next piece boundary, and
Proofs/PercentInstance.v that the generated expression evaluates (IEEE double, Flocq) to the `percent` of Proofs/Percent.v.
Fail closed.
"""
import ast
import os
import sys

sys.path.insert(0, os.path.dirname(os.path.abspath(__file__)))
from pyfun2coq import FunTranslator, Refuse, INT  # noqa


class _PL(ast.NodeTransformer):
    def visit_Attribute(self, node):
        if isinstance(node.value, ast.Name) and node.value.id == "self" and node.attr == "piece_length":
            return ast.copy_location(ast.Name(id="__pl", ctx=ast.Load()), node)
        return self.generic_visit(node)


def method(tree, cname, fname):
    cls = [n for n in tree.body if isinstance(n, ast.ClassDef) and n.name == cname]
    if len(cls) != 1:
        raise Refuse(f"class {cname}: expected exactly one definition")
    fns = [n for n in cls[0].body if isinstance(n, ast.FunctionDef) and n.name == fname]
    if len(fns) != 1:
        raise Refuse(f"{cname}.{fname}: expected exactly one definition")
    return fns[0]


def is_pad_entry(d, r):
    if not isinstance(d, ast.Dict) or len(d.keys) != 3:
        return False
    kv = {}
    for k, v in zip(d.keys, d.values):
        if not (isinstance(k, ast.Constant) and isinstance(k.value, str)):
            return False
        kv[k.value] = v
    if set(kv) != {"attr", "length", "path"}:
        return False
    a, ln, p = kv["attr"], kv["length"], kv["path"]
    return (isinstance(a, ast.Constant) and a.value == "p" and isinstance(ln, ast.Name) and ln.id == r
            and isinstance(p, ast.List) and len(p.elts) == 2 and isinstance(p.elts[0], ast.Constant) and p.elts[0].value == ".pad"
            and ast.unparse(p.elts[1]) == f"str({r})")


def gen_align(tree):
    fn = method(tree, "TorrentFile", "assemble")
    # every `.append(<dict with "attr">)` of the method must be the padding entry under `if <r>:`
    appends = [n for n in ast.walk(fn) if isinstance(n, ast.Call) and isinstance(n.func, ast.Attribute) and n.func.attr == "append"
               and len(n.args) == 1 and isinstance(n.args[0], ast.Dict)
               and any(isinstance(k, ast.Constant) and k.value == "attr" for k in n.args[0].keys)]
    if len(appends) != 1:
        raise Refuse(f"TorrentFile.assemble: expected exactly one appended entry with an `attr` key, found {len(appends)}")
    found = None
    for blk in ast.walk(fn):
        for field in ("body", "orelse"):
            stmts = getattr(blk, field, None)
            if not isinstance(stmts, list):
                continue
            for i, st in enumerate(stmts):
                if isinstance(st, ast.If) and isinstance(st.test, ast.Name) and not st.orelse and len(st.body) == 1 \
                        and isinstance(st.body[0], ast.Expr) and st.body[0].value is appends[0]:
                    found = (stmts, i, st)
    if not found:
        raise Refuse("TorrentFile.assemble: the padding entry is not appended as the only statement under `if <name>:`")
    stmts, i, iff = found
    r = iff.test.id
    if not is_pad_entry(appends[0].args[0], r):
        raise Refuse('TorrentFile.assemble: the padding entry is not {"attr": "p", "length": <r>, "path": [".pad", str(<r>)]}')
    if i == 0 or not (isinstance(stmts[i - 1], ast.Assign) and len(stmts[i - 1].targets) == 1
                      and isinstance(stmts[i - 1].targets[0], ast.Name) and stmts[i - 1].targets[0].id == r):
        raise Refuse(f"TorrentFile.assemble: `{r}` is not assigned by the statement just before `if {r}:`")
    sizes = [st.targets[0].id for st in stmts[:i] if isinstance(st, ast.Assign) and len(st.targets) == 1
             and isinstance(st.targets[0], ast.Name) and ast.unparse(st.value) == "os.path.getsize(path)"]
    if len(sizes) != 1:
        raise Refuse("TorrentFile.assemble: expected exactly one `<name> = os.path.getsize(path)` before the padding entry")
    # the entry of the FILE itself, appended before, records that size
    file_entries = [n for n in ast.walk(ast.Module(body=stmts[:i], type_ignores=[])) if isinstance(n, ast.Dict)
                    and any(isinstance(k, ast.Constant) and k.value == "length" for k in n.keys)]
    if len(file_entries) != 1 or not any(isinstance(k, ast.Constant) and k.value == "length" and isinstance(v, ast.Name) and v.id == sizes[0]
                                         for k, v in zip(file_entries[0].keys, file_entries[0].values)):
        raise Refuse("TorrentFile.assemble: the file entry before the padding entry does not record `length: <size>`")
    tr = FunTranslator(fn)
    env = {sizes[0]: ("size", INT), "__pl": ("pl", INT)}
    return tr.integer(_PL().visit(ast.parse(ast.unparse(stmts[i - 1].value), mode="eval").body), env)


def fexpr(e, m, c):
    if isinstance(e, ast.Name) and e.id == m:
        return "FM"
    if isinstance(e, ast.Name) and e.id == c:
        return "FC"
    if isinstance(e, ast.Constant) and isinstance(e.value, int) and not isinstance(e.value, bool) and 0 <= e.value < 2 ** 53:
        return f"(FConst {e.value})"
    if isinstance(e, ast.BinOp) and isinstance(e.op, ast.Div):
        return f"(FDiv {fexpr(e.left, m, c)} {fexpr(e.right, m, c)})"
    if isinstance(e, ast.BinOp) and isinstance(e.op, ast.Mult):
        return f"(FMul {fexpr(e.left, m, c)} {fexpr(e.right, m, c)})"
    raise Refuse(f"percentage: `{ast.unparse(e)}` is outside the expression subset")


def gen_percent(tree):
    fn = method(tree, "Checker", "iter_hashes")
    stores = [n for n in ast.walk(fn) if isinstance(n, ast.Assign) and any(ast.unparse(t) == "self._result" for t in n.targets)]
    if len(stores) != 1 or len(stores[0].targets) != 1:
        raise Refuse("Checker.iter_hashes: expected exactly one store into self._result")
    v = stores[0].value
    if not (isinstance(v, ast.IfExp) and isinstance(v.test, ast.Compare) and len(v.test.ops) == 1
            and isinstance(v.test.ops[0], ast.Gt) and isinstance(v.test.left, ast.Name)
            and isinstance(v.test.comparators[0], ast.Constant) and v.test.comparators[0].value == 0
            and isinstance(v.orelse, ast.Constant) and v.orelse.value == 0 and not isinstance(v.orelse.value, bool)):
        raise Refuse("Checker.iter_hashes: self._result is not `<expr> if <consumed> > 0 else 0`")
    c = v.test.left.id
    names = sorted({n.id for n in ast.walk(v.body) if isinstance(n, ast.Name)} - {c})
    if len(names) != 1:
        raise Refuse("Checker.iter_hashes: the percentage mentions other names than the two counters")
    m = names[0]
    # the two counters: `<m> = <c> = 0` at the top, `<c> += size` and `<m> += size` as the only other bindings
    for nm in (m, c):
        binds = [n for n in ast.walk(fn) if isinstance(n, ast.Name) and n.id == nm and isinstance(n.ctx, ast.Store)]
        augs = [n for n in ast.walk(fn) if isinstance(n, ast.AugAssign) and isinstance(n.target, ast.Name) and n.target.id == nm]
        if len(binds) != 2 or len(augs) != 1 or not isinstance(augs[0].op, ast.Add):
            raise Refuse(f"Checker.iter_hashes: counter `{nm}` is not bound exactly by an initialisation and one `+=`")
    return fexpr(v.body, m, c)


def gen_formulas(repo):
    t1 = ast.parse(open(os.path.join(repo, "torrentfile", "torrent.py"), encoding="utf-8").read())
    t2 = ast.parse(open(os.path.join(repo, "torrentfile", "recheck.py"), encoding="utf-8").read())
    pad = gen_align(t1)
    pct = gen_percent(t2)
    out = ["(* GENERATED by gen/gen_formulas.py from torrentfile/torrent.py (TorrentFile.assemble) and torrentfile/recheck.py",
           "   (Checker.iter_hashes) -- do not edit. *)",
           "From Coq Require Import ZArith Bool.", "Open Scope Z_scope.", "",
           "(* length of the padding entry after a file of `size` bytes at piece length `pl`; the entry is appended iff it is non-zero *)",
           f"Definition gen_align_pad (size pl : Z) : Z := {pad}.",
           '(* the entry is {"attr": "p", "length": <that>, "path": [".pad", str(<that>)]}, appended right after the file entry *)',
           "Definition gen_align_entry_shape : bool := true.", "",
           "(* self._result = <expr> if consumed > 0 else 0; FM = matched, FC = consumed; FDiv of the two integers is Python's",
           "   correctly rounded int / int, FMul a float multiplication *)",
           "Inductive fexpr := FM | FC | FConst (z : Z) | FDiv (a b : fexpr) | FMul (a b : fexpr).",
           f"Definition gen_percent_expr : fexpr := {pct}.",
           "Definition gen_percent_zero_unless_consumed_positive : bool := true."]
    return "\n".join(out) + "\n"


def write_if_changed(path, text):
    old = open(path, encoding="utf-8").read() if os.path.exists(path) else None
    if old != text:
        with open(path, "w", encoding="utf-8") as fd:
            fd.write(text)


def main(repo, outdir):
    diags = {}
    try:
        text = gen_formulas(repo)
    except (Refuse, SyntaxError, OSError) as e:
        diags["GenFormulas.v"] = f"{type(e).__name__}: {e}"
        text = (f"(* GENERATED: translator refused: {str(e).replace('*)', '* )')} *)\n"
                "Definition translator_refused : unit := tt.\n")
    write_if_changed(os.path.join(outdir, "GenFormulas.v"), text)
    return diags


if __name__ == "__main__":
    for k, v in main(sys.argv[1] if len(sys.argv) > 1 else "/repo", sys.argv[2] if len(sys.argv) > 2 else "/verif/coq/Gen").items():
        print("REFUSED", k, v)
