"""
Payloads at SCALE: piece lengths of 2 MiB .. 32 MiB and files of 1 .. 70 MiB whose sizes are aimed at the places where code
that buffers its reads (1 MiB / 4 MiB / 8 MiB windows, reusable zero buffers, capped padding tables) would go wrong while
every small example still works.  The models and theorems cover every size; the correspondence and the end-to-end searches
sample sizes, and before round 6 of the seeded regressions they sampled only piece lengths up to 64 KiB.  These cases are
judged by the same independent reference as the small ones (nothing here goes to the extracted model: a 30 MiB `list byte`
does not fit).

`templates()` lists aimed (piece length, [file sizes]) shapes; `gen(rng, i)` returns case i as (pl, tree, classes) with the
tree in the representation of trees.gen_tree ({relpath tuple: bytes}, () = single file).
"""
MIB = 1 << 20

# (piece length, file sizes in listing order, what it is aimed at)
TEMPLATES = [
    (2 * MIB, [3 * MIB + 100, 70000], "last piece leaves more than 1 MiB of padding"),
    (2 * MIB, [3 * MIB, 2 * MIB + MIB // 2], "file size a multiple of 1 MiB but not of the piece length"),
    (2 * MIB, [MIB + 5000, 300, 2000], "file just above 1 MiB whose tail shares a piece with small files"),
    (4 * MIB, [5 * MIB, 1000, 6 * MIB + 1], "4 MiB pieces, tails of 1 MiB and 2 MiB + 1"),
    (8 * MIB, [9 * MIB + 5, 12 * MIB, 100], "file ends exactly 4 MiB into an 8 MiB piece; tail beyond a 4 MiB window"),
    (8 * MIB, [8 * MIB + 4 * MIB + 7], "single file, 8 MiB pieces, last piece just above 4 MiB"),
    (16 * MIB, [16 * MIB + 5 * MIB + 123, 1000, 3 * MIB], "16 MiB pieces; a short file after data in the later windows of the piece"),
    (16 * MIB, [9 * MIB, 17 * MIB + 1], "16 MiB pieces; more than 8 MiB left to read; piece straddles two files"),
    (2 * MIB, [5 * MIB + 77, 1, 2 * MIB], "five-piece-and-a-bit file, then a one-byte file, then exactly one piece"),
    (4 * MIB, [4 * MIB, 4 * MIB + 1, 4 * MIB - 1], "sizes one byte either side of the piece length at 4 MiB"),
]
# one very large piece length (2^25, the largest exponent the tool accepts): more than 1024 blocks of padding per piece
TEMPLATE_32M = (32 * MIB, [65 * MIB], "32 MiB pieces: 3 pieces (not a power of two), last piece 1 MiB")

NAMES = ["a.bin", "b.bin", "c.bin", "d/e.bin", "d/f.bin"]


def templates(thorough=False):
    return TEMPLATES + ([TEMPLATE_32M] if thorough else [])


def _tree(rng, sizes, single_ok=True):
    if len(sizes) == 1 and single_ok:
        return {(): rng.randbytes(sizes[0])}
    tree = {}
    for n, name in zip(sizes, NAMES):
        tree[tuple(name.split("/"))] = rng.randbytes(n)
    return tree


def gen(rng, i, thorough=False, single_ok=True, max_total=48 * MIB):
    """case i: the templates in turn, then random shapes of the same kind (sizes k MiB + r, r in {0, 1, 123, MiB - 1, random})"""
    tpl = templates(thorough)
    if i < len(tpl):
        pl, sizes, aim = tpl[i]
    else:
        pl = rng.choice([2 * MIB, 2 * MIB, 4 * MIB, 8 * MIB, 16 * MIB])
        sizes, total = [], 0
        for _ in range(rng.randrange(1, 4)):
            k = rng.randrange(0, 3 * pl // MIB + 2)
            r = rng.choice([0, 1, 123, MIB - 1, rng.randrange(MIB)])
            n = k * MIB + r
            if total + n > max_total:
                n = rng.choice([1000, 70000, MIB + 1])
            if n == 0 and not sizes:
                n = pl + MIB + 9
            sizes.append(n)
            total += n
        aim = "random sizes k MiB + r"
    classes = {"scale: piece length %d MiB" % (pl // MIB), "scale: " + aim}
    if any(n % MIB == 0 and n % pl for n in sizes):
        classes.add("scale: file size a multiple of 1 MiB but not of the piece length")
    if any(n % pl > MIB for n in sizes):
        classes.add("scale: last piece of a file longer than 1 MiB")
    if any(0 < n % pl < pl - MIB for n in sizes):
        classes.add("scale: more than 1 MiB of padding after a file")
    return pl, _tree(rng, sizes, single_ok), classes


def summary(pl, tree):
    return {"piece_length": pl, "files": {"/".join(k) or "<single>": len(v) for k, v in tree.items()}}
