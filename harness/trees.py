"""Generators of content trees and helpers to run the real creators in process."""
import io
import os
import contextlib
import unicodedata

import core

B = 16384
NAMES = ["a", "a.txt", "a-b", "A", "b", "ab", "a b", "é", "z", "0", "_x", "a.d", "B.bin", "c+d", "k&r", "q=1", "日本",
         "we\\ird.bin", "x:y", "q's",      # a backslash is an ordinary character in a POSIX file name
         "wait....bin", "..hidden", "a..", "x..y"]      # two or more consecutive dots INSIDE a name: ordinary names, not ".."
DIRS = ["a", "d", "a.d", "sub dir", "Z", "é", "a-b", "0", "b\\s", "disc..2", "..d", "a.."]

# ------------------------------------------------------------------------------ names: TEXT versus BYTES (round 7)
# A file name is a byte string; the creators must list it byte for byte as it is on disk and sort siblings as raw strings
# (code-point order = UTF-8 byte order).  Every literal below is written with escapes so that no editor can normalise it.
#  * DECOMPOSED (NFD) Unicode names: valid UTF-8, not in NFC form.  NFD_SIBLINGS pairs a decomposed name with a plain sibling
#    that sorts AFTER the decomposed spelling and BEFORE the composed one (A + U+030A < B < U+00C5): code that normalises
#    names (before or after sorting, for keys or for paths) loses the file or the order;
#  * names with the glob metacharacters * ? [ ] (ordinary characters of a POSIX file name): code that builds a pattern from a
#    path without escaping it finds nothing below 'Album [FLAC]' and finds 'aXb' twice next to 'a*b';
#  * mixed-case siblings whose raw order differs from the case-folded one ('README.txt' < 'data.bin' raw, after it folded).
NFD_NAMES = ["cafe\u0301.bin", "re\u0301sume\u0301", "e\u0301", "A\u030a.txt", "u\u0308ber.dat", "\u1112\u1161\u11ab"]
NFD_DIRS = ["A\u030a", "re\u0301sume\u0301", "cafe\u0301"]
NFD_SIBLINGS = [("A\u030a", "B"), ("e\u0301", "f"), ("cafe\u0301", "cafz"), ("o\u0308.d", "p.d"), ("A\u030a", "a")]
GLOB_NAMES = ["a*b", "what?", "cd[1]", "[x]", "track [01].flac", "x[!a]", "*", "?"]
GLOB_DIRS = ["Album [FLAC]", "cd[1]", "a*b", "what?", "[a-z]"]
CASE_SIBLINGS = [("README.txt", "data.bin"), ("Makefile", "main.c"), ("Zebra", "apple"), ("B.bin", "a.bin")]
NAMES += NFD_NAMES[:5] + GLOB_NAMES[:6] + ["README.txt", "data.bin"]
DIRS += NFD_DIRS + GLOB_DIRS[:4] + ["B", "README"]
NAME_GROUPS = ("nfd", "glob", "case")


LONG_DIRS = ["season-" + "x" * 80, "d" * 100, "é" * 60, "A long directory name, " * 4 + "end"]


def boundary_sizes(pl):
    s = {0, 1, 2, B - 1, B, B + 1, pl - 1, pl, pl + 1, 2 * pl - 1, 2 * pl, 2 * pl + 1, 3 * pl, 3 * pl + B + 7,
         4 * pl, 5 * pl - B, pl // 2, pl + B, 2 * B - 1, 100}
    return sorted(x for x in s if x >= 0)


def gen_tree(rng, pl, max_files=7, single_prob=0.15, empty_prob=0.18, max_total=12, name_groups=None, names_prob=0.4):
    """returns (tree: dict relpath(tuple) -> bytes, classes: set of str).  relpath () = single file.
       name_groups: the aimed name groups (NAME_GROUPS, see add_aimed_names) a directory gets on top of its random names;
       None = with probability names_prob a random non-empty subset of them"""
    classes = set()
    sizes_pool = boundary_sizes(pl)

    def size():
        r = rng.random()
        if r < empty_prob:
            return 0
        if r < 0.75:
            return rng.choice(sizes_pool)
        return rng.randrange(1, 3 * pl)
    if rng.random() < single_prob:
        n = size() or rng.choice(sizes_pool[1:])
        classes.add("single file")
        return {(): rng.randbytes(n)}, classes
    nfiles = rng.randrange(1, max_files + 1)
    tree = {}
    used_dirs = set()
    budget = max_total * pl
    for _ in range(nfiles):
        depth = rng.choice([0, 0, 1, 1, 2, 3])
        comps = tuple(rng.choice(DIRS) for _ in range(depth)) + (rng.choice(NAMES),)
        # no file may be a prefix directory of another and vice versa
        if comps in tree or any(comps[:i] in tree for i in range(1, len(comps))) or \
                any(k[:len(comps)] == comps for k in tree):
            continue
        n = min(size(), max(budget, 0))
        budget -= n
        if rng.random() < 0.1 and tree:
            data = rng.choice(list(tree.values()))        # identical files share a root
            classes.add("identical files")
        else:
            data = rng.randbytes(n)
        tree[comps] = data
        used_dirs.add(comps[:-1])
    if not tree:
        tree[("a",)] = rng.randbytes(rng.choice(sizes_pool[1:]))
    if rng.random() < 0.35:
        # a directory next to a sibling whose name is the directory's name plus a character below '/':
        # whole-path string order and per-directory (component) order then differ
        d = rng.choice(["a", "d", "Show"])
        sib = d + rng.choice([".nfo", "-extras", " 2", "+x", ".d"])
        if not any(k[0] in (d, sib) for k in tree):
            tree[(d, rng.choice(NAMES))] = rng.randbytes(rng.choice([1, pl + 1, 2 * pl + 5]))
            tree[(sib,)] = rng.randbytes(rng.choice([3, pl + 2, pl - 1]))
            classes.add("full-path order != per-directory order")
    r = rng.random()
    if r < 0.10:
        # a file whose relative path alone is longer than 255 bytes (every component stays below NAME_MAX, the whole path far
        # below PATH_MAX): three or four levels of long directory names
        comps = tuple(rng.choice(LONG_DIRS) for _ in range(rng.choice([3, 4]))) + (rng.choice(NAMES),)
        tree[comps] = rng.randbytes(rng.choice([0, 5, pl + 1]))
        classes.add("path longer than 255 bytes")
    elif r < 0.14:
        # a directory with a few hundred tiny entries
        d = rng.choice(["wide", "many files"])
        if not any(k[0] == d for k in tree):
            for j in range(rng.choice([130, 260])):
                tree[(d, "%04d.dat" % j)] = bytes([j % 251]) * (j % 4)
            classes.add("directory with more than a hundred entries")
    elif r < 0.18:
        # a chain of forty nested directories
        comps = tuple("n%d" % j for j in range(40)) + ("leaf.bin",)
        if not any(k[0] == "n0" for k in tree):
            tree[comps] = rng.randbytes(rng.choice([1, B + 1]))
            classes.add("forty nested directories")
    if name_groups is None and rng.random() < names_prob:
        name_groups = [g for g in NAME_GROUPS if rng.random() < 0.6] or [rng.choice(NAME_GROUPS)]
    if name_groups:
        add_aimed_names(rng, tree, pl, name_groups, budget=max(budget, 0))
    if any(len(k) > 1 for k in tree):
        classes.add("nested")
    else:
        classes.add("flat")
    classes |= classify_names(tree)
    return tree, classes


def _free(tree, comps):
    """may a file be added at comps: no entry there, none above it that is a file, none below it"""
    return comps not in tree and not any(comps[:i] in tree for i in range(1, len(comps))) and \
        not any(k[:len(comps)] == comps for k in tree)


def add_aimed_names(rng, tree, pl, groups=NAME_GROUPS, budget=None):
    """adds the aimed name groups to a directory tree IN PLACE (small files; one of them may be longer than a piece when the
       budget allows); returns the tree.  A group goes to the top level or into a directory the tree already has.
       nfd:  a decomposed name next to a sibling that sorts between its decomposed and its composed spelling -- both files, or
             the decomposed one a directory holding a file with a decomposed name -- and one more decomposed file name;
       glob: a directory named with [ ] holding a directory named with [ ] holding a file, a file named with * or ? next to a
             plain file that the name, read as a pattern, would match as well;
       case: two siblings whose raw order differs from the case-folded order"""
    if list(tree) == [()]:
        return tree
    left = [budget if budget is not None else 4 * pl]

    def data(big=False):
        n = rng.choice([0, 1, 7, 100]) if not big or left[0] <= pl + 1 else pl + 1
        left[0] -= n
        return rng.randbytes(n)

    def put(comps, big=False):
        if _free(tree, comps):
            tree[comps] = data(big)
            return True
        return False
    dirs = sorted({k[:j] for k in tree for j in range(1, len(k))})
    for g in groups:
        base = rng.choice(dirs) if dirs and rng.random() < 0.35 else ()
        if g == "nfd":
            a, b = rng.choice(NFD_SIBLINGS)
            if rng.random() < 0.5:
                put(base + (a, rng.choice(NFD_NAMES)), big=True)       # the decomposed name is a directory
                put(base + (a, rng.choice(["x", "0", "z.bin"])))
            else:
                put(base + (a,), big=True)
            if rng.random() < 0.5:
                put(base + (b,))
            else:
                put(base + (b, rng.choice(["inner", "e\u0301"])))
            put(base + (rng.choice(NFD_NAMES),))
        elif g == "glob":
            d1, d2 = rng.choice(GLOB_DIRS), rng.choice(GLOB_DIRS)
            put(base + (d1, d2, rng.choice(["01 - track.flac", "x", "[x]"])), big=True)
            put(base + (d1, rng.choice(["cover.jpg", "what?"])))
            star = rng.choice(["a*b", "what?", "x[!a]", "*"])
            if put(base + (star,)):
                put(base + ({"a*b": "aXb", "what?": "whatX", "x[!a]": "xb", "*": "anything"}[star],))
        elif g == "case":
            a, b = rng.choice(CASE_SIBLINGS)
            put(base + (a,))
            put(base + (b,), big=True)
    return tree


NAME_CLASSES = ["name: decomposed (NFD) form", "name: sibling order changes under Unicode normalisation",
                "name: glob metacharacter in a file name", "name: glob metacharacter in a directory name",
                "name: sibling order changes under case folding"]


def classify_names(tree):
    """boundary classes of the NAMES of a tree ({components: anything}); () = single file: none"""
    cl = set()
    if list(tree) == [()]:
        return cl
    dirs, files = {}, set()
    for k in tree:
        for j in range(len(k)):
            dirs.setdefault(k[:j], set()).add(k[j])
        files.add(k)
    for parent, names in dirs.items():
        for n in names:
            is_dir = parent + (n,) not in files
            if unicodedata.normalize("NFC", n) != n:
                cl.add("name: decomposed (NFD) form")
            if any(c in n for c in "*?["):
                cl.add("name: glob metacharacter in a directory name" if is_dir else "name: glob metacharacter in a file name")
        raw = sorted(names)
        for form in ("NFC", "NFD"):
            if [unicodedata.normalize(form, n) for n in raw] != sorted(unicodedata.normalize(form, n) for n in raw):
                cl.add("name: sibling order changes under Unicode normalisation")
        if [n.casefold() for n in raw] != sorted(n.casefold() for n in raw):
            cl.add("name: sibling order changes under case folding")
    return cl


def classify_v1(tree, pl, order=None):
    """boundary classes of a tree for v1 piece hashing (files in the given order)"""
    classes = set()
    keys = order or sorted(tree)
    sizes = [len(tree[k]) for k in keys]
    total = sum(sizes)
    if total < pl:
        classes.add("total < pl")
    if total and total % pl == 0:
        classes.add("total = k*pl")
    if 0 in sizes:
        classes.add("empty file")
        if sizes[0] == 0:
            classes.add("empty file first")
        if sizes[-1] == 0:
            classes.add("empty file last")
    off = 0
    for i, s in enumerate(sizes):
        if s and (off + s) % pl == 0 and i + 1 < len(sizes):
            classes.add("file end = piece end")
        # how many files does the piece containing this file's end straddle
        off += s
    # straddling: count files intersecting each piece
    bounds, off = [], 0
    for s in sizes:
        bounds.append((off, off + s))
        off += s
    for p0 in range(0, total, pl):
        n = sum(1 for a, b in bounds if a < p0 + pl and b > p0 and b > a)
        if n == 2:
            classes.add("piece straddles 2 files")
        elif n >= 3:
            classes.add("piece straddles >=3 files")
        empties_inside = sum(1 for a, b in bounds if a == b and p0 < a < p0 + pl)
        if empties_inside and n >= 2:
            classes.add("empty file inside a straddle")
    for s in sizes:
        if s and s % pl == 0:
            classes.add("size = k*pl")
        if s % pl == 1:
            classes.add("size = k*pl+1")
        if s % pl == pl - 1:
            classes.add("size = k*pl-1")
        if 0 < s < pl:
            classes.add("size < pl")
    return classes


# ------------------------------------------------------------------------------ symbolic links inside a payload
# A value ("symlink", target) describes a symbolic link: `target` is the text of the link (what os.symlink gets), a
# '/'-separated path RELATIVE TO THE DIRECTORY OF THE LINK that names another file of the same tree.  The creators follow links
# (getsize / open / isfile), so for a reader the link is a file named like the link with the target's bytes: resolve_links
# gives that view (plain bytes everywhere) -- it is what every judge and every classifier gets; the link-bearing tree is only
# what write_tree / rewrite_tree / mutate_tree handle.
def is_link(v):
    return isinstance(v, tuple) and len(v) == 2 and v[0] == "symlink"


def link_key(comps, target):
    """key of the file the link at `comps` points to (lexical: the trees have no symlinked directories)"""
    out = list(comps[:-1])
    for c in target.split("/"):
        if c in ("", "."):
            continue
        if c == "..":
            if not out:
                raise ValueError(f"link {'/'.join(comps)} -> {target} leaves the payload")
            out.pop()
        else:
            out.append(c)
    return tuple(out)


def has_links(tree):
    return any(is_link(v) for v in tree.values())


def resolve_links(tree):
    """the tree as a reader that follows links sees it: every link is a file with the target's bytes"""
    if not has_links(tree):
        return tree
    out = {}
    for k, v in tree.items():
        at, hops = k, 0
        while is_link(v):
            at = link_key(at, v[1])
            v, hops = tree[at], hops + 1
            if hops > len(tree):
                raise ValueError("symlink loop")
        out[k] = v
    return out


def link_summary(tree):
    return {"/".join(k): v[1] for k, v in sorted(tree.items()) if is_link(v)}


LINK_NAMES = ["lnk", "0-link", "alias.bin", "a link", "zz.lnk", "é-lnk", "L"]
LINK_SHAPES = ("to a sibling", "into a sub-directory", "from a sub-directory upwards")


def add_links(rng, tree, shapes=LINK_SHAPES):
    """adds one symbolic link per shape to a directory tree (new dict, classes): a link to a file of its own directory, a link
       whose target lies in a sub-directory of the link's directory, a link in a sub-directory whose target lies above it
       (target text with ..).  A tree without a nested file gets one first when a shape needs it.  Links point at regular files
       or (rarely) at another link; names are new in their directory"""
    new = dict(tree)
    classes = set()
    if list(tree) == [()]:
        return new, classes

    def free(dirc):
        for n in rng.sample(LINK_NAMES, len(LINK_NAMES)):
            k = dirc + (n,)
            if k not in new and not any(q[:len(k)] == k for q in new):
                return k
        return None

    def pick(cands):            # mostly a regular file, now and then another link (a chain)
        reg = [q for q in cands if not is_link(new[q])]
        return rng.choice(reg if reg and rng.random() < 0.8 else cands)

    if ("into a sub-directory" in shapes or "from a sub-directory upwards" in shapes) and not any(len(k) > 1 for k in new):
        d = next((n for n in ("ldir", "ldir2", "l.d") if not any(k[0] == n for k in new)), None)
        if d:
            new[(d, "t.bin")] = rng.randbytes(rng.choice([1, B + 1, 3 * B + 5]))
    for shape in shapes:
        keys = sorted(new)
        if shape == "to a sibling":
            t = pick(keys)
            k = free(t[:-1])
            target = t[-1]
        elif shape == "into a sub-directory":
            deep = [q for q in keys if len(q) > 1]
            if not deep:
                continue
            t = pick(deep)
            up = rng.randrange(0, len(t) - 1)           # the link sits `len(t) - 1 - up` levels above its target
            k = free(t[:up])
            target = "/".join(t[up:])
        else:
            deep = sorted({q[:j] for q in keys for j in range(1, len(q))})
            deep = [d for d in deep if any(q[:len(d)] != d for q in keys)]
            if not deep:
                continue
            d = rng.choice(deep)
            t = pick([q for q in keys if q[:len(d)] != d])        # a file that is not below the link's directory
            common = 0
            while common < min(len(d), len(t) - 1) and d[common] == t[common]:
                common += 1
            k = free(d)
            target = "/".join([".."] * (len(d) - common) + list(t[common:]))
        if k is None:
            continue
        if link_key(k, target) != t:
            raise AssertionError(f"link generator: {k} -> {target} does not name {t}")
        new[k] = ("symlink", target)
        classes.add("file symlink " + shape)
        if is_link(new[t]):
            classes.add("file symlink to a symlink")
    return new, classes


# names of the payload itself (the last component of the content path: the creators record it as info.name and build every
# path below it): plain, with glob metacharacters, decomposed Unicode, mixed case -- in turn, a function of the case number
ROOT_NAMES = ["payload", "Album [FLAC]", "payload", "cafe\u0301 (re\u0301sume\u0301)", "payload", "pay*load?", "PayLoad.D"]
ROOT_CLASSES = ["payload path has a glob metacharacter", "payload path has a decomposed (NFD) name"]


def root_name(i, single):
    n = ROOT_NAMES[i % len(ROOT_NAMES)]
    return n + ".bin" if single else n


def root_name_classes(name):
    cl = set()
    if any(c in name for c in "*?["):
        cl.add(ROOT_CLASSES[0])
    if unicodedata.normalize("NFC", name) != name:
        cl.add(ROOT_CLASSES[1])
    return cl


def write_tree(root, tree):
    """root: path of the payload (file or directory); a value ("symlink", target) becomes a symbolic link"""
    if list(tree) == [()]:
        os.makedirs(os.path.dirname(root), exist_ok=True)
        with open(root, "wb") as fd:
            fd.write(tree[()])
        return
    os.makedirs(root, exist_ok=True)
    for comps, data in tree.items():
        p = os.path.join(root, *comps)
        os.makedirs(os.path.dirname(p), exist_ok=True)
        if is_link(data):
            if os.path.lexists(p):
                os.remove(p)
            os.symlink(data[1], p)
            continue
        if os.path.islink(p):           # a regular file takes the place of a link: never write through it
            os.remove(p)
        with open(p, "wb") as fd:
            fd.write(data)


def tree_summary(tree):
    """sizes as a reader following links sees them"""
    tree = resolve_links(tree)
    return {"/".join(k) if k else "<single>": len(v) for k, v in sorted(tree.items())}


def quiet(fn, *a, **k):
    sink = io.StringIO()
    with contextlib.redirect_stdout(sink), contextlib.redirect_stderr(sink):
        return fn(*a, **k)


CREATORS = {
    "v1": ("TorrentFile", {}),
    "v1-align": ("TorrentFile", {"align": True}),
    "v2-class": ("TorrentFileV2", {}),
    "v2-asm": ("TorrentAssembler", {"meta_version": "2"}),
    "hybrid-class": ("TorrentFileHybrid", {}),
    "hybrid-asm": ("TorrentAssembler", {"meta_version": "3"}),
}


def create(kind, path, outfile, piece_length, reassemble=False, **opts):
    """run a creator of /repo in process; returns raw bytes of the written metafile.
       reassemble: the legacy pattern of the library -- construct the creator (which assembles), write a first metafile, then
       call the PUBLIC assemble() again on the same object and write(): True = with the tree as it is, a callable = it is
       called between the two (it changes the payload on disk); the bytes returned are those of the LAST write and must
       satisfy the same judgement as a fresh create of the tree as it is on disk at that moment"""
    core.use_repo_in_process()
    from torrentfile import torrent, utils
    cache = getattr(utils.filelist_total, "cache", None)
    if cache is not None:       # only on trees that still memoise (C09 looks at that separately)
        cache.clear()
    cls, kw = CREATORS[kind]
    kw = dict(kw)
    kw.update(opts)
    kw.setdefault("progress", 0)
    t = quiet(getattr(torrent, cls), path=path, outfile=outfile, piece_length=piece_length, **kw)
    if reassemble:
        quiet(t.write, outfile + ".first")
        if callable(reassemble):
            reassemble()
            if cache is not None:
                cache.clear()
        quiet(t.assemble)
    out, _ = quiet(t.write)
    with open(out, "rb") as fd:
        return fd.read()


def mutate_tree(rng, tree, pl):
    """a payload that changed between two assemblies: (new tree, description).  One file grows or shrinks (across a piece
       boundary when it can), or -- in a directory -- a file is added or removed; at least one file stays"""
    new = dict(tree)
    keys = sorted(tree)
    single = keys == [()]
    # symbolic links (values ("symlink", target)): a link may be removed, its target may not (no dangling links); a resize
    # goes to a regular file (the links to it change with it).  Without links every choice is as it always was
    targets = {link_key(k, v[1]) for k, v in tree.items() if is_link(v)}
    plain = resolve_links(tree)
    r = rng.random()
    if not single and r < 0.2:
        name = next(n for n in ("added.bin", "added2.bin", "zz-added") if (n,) not in tree and not any(k[0] == n for k in tree))
        new[(name,)] = rng.randbytes(rng.choice([1, pl - 1, pl, pl + 1, 2 * pl + 5]))
        return new, {"added": name, "size": len(new[(name,)])}
    removable = [k for k in keys if k not in targets]
    if not single and r < 0.4 and len(keys) > 1 and removable:
        k = rng.choice(removable)
        del new[k]
        return new, {"removed": "/".join(k), "size": len(plain[k])}
    keys = [k for k in keys if not is_link(tree[k])]
    k = rng.choice(keys)
    old = len(tree[k])
    grow = old == 0 or rng.random() < 0.6
    if grow:
        n = old + rng.choice([1, pl - 1, pl, pl + 1, 2 * pl + 7])
        new[k] = tree[k] + rng.randbytes(n - old)
    else:
        lo = 1 if single else 0
        cands = {lo, max(old // 2, lo), max(old - pl, lo), max(old - 1, lo)} - {old}
        n = rng.choice(sorted(cands)) if cands else old + 1
        new[k] = tree[k][:n] if n <= old else tree[k] + bytes(n - old)
    return new, {"resized": "/".join(k) or "<single>", "from": old, "to": len(new[k])}


def rewrite_tree(root, old, new):
    """bring the payload at root (written from `old`) to the state `new`"""
    for k in old:
        if k and k not in new:
            os.remove(os.path.join(root, *k))
    changed = {k: v for k, v in new.items() if k not in old or old[k] != v}
    if changed:
        write_tree(root, changed)


# ---------------------------------------------------------------------------------------------------------------------------
# AIMED SMALL TREES: structural shapes that earlier seeded regressions needed and that must not depend on the luck of the random
# generator (after round 7 the new name groups shifted the random streams and four old seeds were no longer met in the quick
# tier).  Every end-to-end search of the creators runs all of them, through every creator of its property.
AIMED0 = 50000        # end-to-end case numbers AIMED0 + j are these trees (below the payloads at scale, which start at 100000)


def aimed_small(j, rng, pl):
    """aimed tree number j (j % N_AIMED): (tree, classes)"""
    k = j % N_AIMED
    if k == 0:
        return {("only.bin",): rng.randbytes(pl + 5)}, {"aimed: directory holding exactly one file"}
    if k == 1:
        return {("sub", "deep", "x.bin"): rng.randbytes(2 * pl + 1)}, {"aimed: directory holding exactly one file, nested"}
    if k == 2:
        return {("a",): b"", ("d", "b"): b"", ("d", "c"): b""}, {"aimed: every file is empty"}
    if k == 3:
        d = rng.choice(["d", "Show", "a"])
        return {(d, "f1"): rng.randbytes(pl + 1), (d, "f2"): rng.randbytes(7), (d + ".x",): rng.randbytes(pl + 3),
                (d + "-1",): rng.randbytes(5)}, {"aimed: directory beside later siblings whose names extend its name",
                                                 "full-path order != per-directory order"}
    if k == 4:
        return {("a",): rng.randbytes(pl), ("m",): rng.randbytes(3), ("z",): b"", ("zz",): b""}, \
            {"aimed: trailing empty files after data that does not end on a piece boundary"}
    if k == 5:
        return {("a",): rng.randbytes(2 * pl), ("z",): b""}, {"aimed: trailing empty file after data ending on a piece boundary"}
    if k == 6:
        return {("x", "one"): rng.randbytes(pl + 9), ("y", "two"): rng.randbytes(100), ("x", "three"): rng.randbytes(pl - 1)}, \
            {"aimed: two directories with interleaving files"}
    return {("big.bin",): rng.randbytes(3 * pl + 17), ("small.txt",): rng.randbytes(12)}, {"aimed: one multi-piece file and one small file"}


N_AIMED = 8
