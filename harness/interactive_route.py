"""
The INTERACTIVE route of torrentfile: `torrentfile.interactive.select_action()` (alias `commands.interactive`), the
dialog that reads its answers with input() and creates (InteractiveCreator), edits (InteractiveEditor) or rechecks.

Driver:
  run_interactive(answers, cwd, home, in_process=False) -> (stdout, 0 | exception | exit code)
  run_interactive_full(...)                               -> dict(stdout, stderr, rc, exception, outfile, result)
Answer builders (the dialog of /repo/torrentfile/interactive.py, in prompt order):
  create_answers(...)   action, piece length, trackers, web seeds (url-list), http seeds, comment, source, private,
                        content path, output path, meta version
  edit_answers(...)     action, metafile, then per edit: property number, new value; finally DONE
  recheck_answers(...)  action, metafile, content path   (the two prompts are labelled the other way round in the code;
                        the FIRST answer is what Checker receives as the metafile)
Which answers may be empty (get_input: a validator is retried until it accepts; an EMPTY answer always ends the retry loop):
  piece length    digits ("15", "32768") or empty = automatic
  trackers, web seeds, http seeds   any string, split on whitespace; empty = none
  comment, source any string (no validator), empty = none
  private         a substring of "yYnN" (so "" is accepted); only y/Y sets it
  content path    must exist -- or EMPTY (then MetaFile raises MissingPathError unless a tracker/seed entry names a path)
  output path     os.path.dirname(answer) must exist, so a bare file name without a directory component is REJECTED and asked
                  again; empty = default location  <cwd>/<name>.torrent
  meta version    a substring of "123" ("" = 1; anything but "2"/"3" is version 1)
An exhausted stdin raises EOFError from input(): a rejected answer without a following one shows up as EOFError.

Also a history runner for C09 (same protocol as runners/history.py, which it delegates to for the ordinary steps):
  python interactive_route.py <sandbox>                  one JSON step per line on stdin, one JSON line {"result": ..} each
  python interactive_route.py <sandbox> --once <step>    a single step
extra steps: {"op": "edit", "fields": {...}} (any of the six editable fields, library or CLI; result = the metafile's bytes),
{"op": "icreate", ...} (interactive create through the in-process driver), {"op": "cfgcreate", ...} (CLI
`create --config --config-path <ini>`), {"op": "iedit"}, {"op": "irecheck"}; execute_extended: "verbose" (-v), "hook", "target",
{"op": "mkbatch"}, {"op": "rebuild-batch"}.
"""
import io
import os
import sys
import json

ONE_LINER = "from torrentfile.interactive import select_action; select_action()"


# ------------------------------------------------------------------------------------------------ answers
def _words(v):
    if v is None:
        return ""
    if isinstance(v, str):
        return v
    return " ".join(v)


def create_answers(content, outfile="", version="", piece_length="", trackers=(), web_seeds=(), http_seeds=(), comment="",
                   source="", private=None, action="create"):
    """answers of one interactive create, in the order InteractiveCreator.get_props asks for them"""
    priv = "" if private is None else (private if isinstance(private, str) else ("Y" if private else "N"))
    return [action, str(piece_length or ""), _words(trackers), _words(web_seeds), _words(http_seeds), comment or "",
            source or "", priv, str(content), str(outfile or ""), str(version or "")]


EDIT_PROPS = {"comment": 1, "source": 2, "private": 3, "tracker": 4, "announce": 4, "web-seed": 5, "url-list": 5}


def edit_answers(metafile, edits=(), action="edit"):
    """edits: [(property name or number 1..5, new value)]; the dialog refuses 6 (httpseeds) -- `0 < int(prop) < 6`"""
    out = [action, str(metafile)]
    for prop, value in edits:
        out += [str(EDIT_PROPS.get(prop, prop)), _words(value)]
    return out + ["DONE"]


def recheck_answers(metafile, content, action="r"):
    """`recheck_torrent` hands its FIRST answer to Checker as the metafile and the second as the content path"""
    return [action, str(metafile), str(content)]


# ------------------------------------------------------------------------------------------------ driver
def _in_process(answers, cwd, home):
    """select_action() in THIS interpreter with sys.stdin patched (state of earlier calls in the process stays visible)"""
    from torrentfile.interactive import select_action
    old = (sys.stdin, sys.stdout, sys.stderr, os.getcwd(), os.environ.get("HOME"))
    out, err = io.StringIO(), io.StringIO()
    res = {"stdout": "", "stderr": "", "rc": 0, "exception": None, "outfile": None, "result": None, "raised": None}
    try:
        sys.stdin = io.StringIO("".join(a + "\n" for a in answers))
        sys.stdout, sys.stderr = out, err
        if home is not None:
            os.environ["HOME"] = home
        os.chdir(cwd)
        try:
            r = select_action()
            res["result"] = r
            res["outfile"] = getattr(r, "outfile", None)
        except BaseException as e:  # noqa  the caller judges
            res["raised"] = e
            res["exception"] = type(e).__name__
            res["rc"] = 1
    finally:
        os.chdir(old[3])
        sys.stdin, sys.stdout, sys.stderr = old[0], old[1], old[2]
        if old[4] is None:
            os.environ.pop("HOME", None)
        else:
            os.environ["HOME"] = old[4]
    res["stdout"], res["stderr"] = out.getvalue(), err.getvalue()
    if res["outfile"] is not None:
        res["outfile"] = os.path.normpath(os.path.join(cwd, str(res["outfile"])))
    return res


def run_interactive_full(answers, cwd, home, in_process=False, timeout=120):
    if in_process:
        return _in_process(answers, cwd, home)
    import subprocess
    import core
    p = subprocess.run([core.PY, "-c", ONE_LINER], input="".join(a + "\n" for a in answers), cwd=cwd,
                       env=core.impl_env({"HOME": home} if home is not None else None), capture_output=True, text=True,
                       timeout=timeout)
    exc = None
    if p.returncode != 0:
        last = [l for l in p.stderr.strip().splitlines() if l and not l.startswith(" ")]
        if last:
            exc = last[-1].split(":")[0].split(".")[-1].strip()
    return {"stdout": p.stdout, "stderr": p.stderr, "rc": p.returncode, "exception": exc, "outfile": None, "result": None,
            "raised": None}


def run_interactive(answers, cwd, home, in_process=False):
    """drive select_action() with the given answers.  Returns (stdout, status): status is 0 when the dialog returned; in
    process, the exception instance it raised; in a fresh interpreter, the non-zero exit code"""
    r = run_interactive_full(answers, cwd, home, in_process)
    if r["rc"] == 0:
        return r["stdout"], 0
    return r["stdout"], (r["raised"] if in_process else r["rc"])


# ------------------------------------------------------------------------------------------------ C09 history steps
CONFIG_KEYS = ("meta-version", "piece-length", "private", "source", "comment", "announce", "web-seed", "http-seed")


def ini_text(cfg):
    """a `[config]` section: lists one entry per continuation line, booleans as true/false"""
    lines = ["[config]"]
    for k, v in cfg.items():
        if isinstance(v, (list, tuple)):
            lines.append(f"{k} =")
            lines += [f"    {x}" for x in v]
        elif isinstance(v, bool):
            lines.append(f"{k} = {'true' if v else 'false'}")
        else:
            lines.append(f"{k} = {v}")
    return "\n".join(lines) + "\n"


def execute(sb, step):
    """one step of a C09 history against the sandbox sb (payload in sb/payload, metafiles m<k>.torrent in sb)"""
    from runners import history as H
    op = step["op"]
    if op in ("mkbatch", "rebuild-batch") or (op in ("create", "recheck", "edit", "info", "magnet", "rebuild")
                                              and any(step.get(k) for k in ("verbose", "hook", "target"))) \
            or (op == "edit" and "fields" in step):
        return execute_extended(sb, step)
    if op not in ("icreate", "cfgcreate", "iedit", "irecheck"):
        return H.execute(sb, step)
    payload = os.path.join(sb, "payload")
    wd = os.path.join(sb, step.get("cwd", "wd"))
    os.makedirs(wd, exist_ok=True)
    home = os.environ.get("HOME")
    try:
        if op == "icreate":
            v = str(step.get("version", 1))
            out = "" if step.get("out") == "default" else os.path.join(sb, step.get("out") or f"mi{v}.torrent")
            content = payload + (os.sep if step.get("trailing") else "")
            ans = create_answers(content, out, step.get("version_answer", v), step.get("pl", ""), step.get("trackers", ()),
                                 step.get("web", ()), step.get("http", ()), step.get("comment", ""), step.get("source", ""),
                                 step.get("private"))
            r = _in_process(ans, wd, home)
            if r["rc"]:
                return {"exception": r["exception"]}
            where = r["outfile"]
            return {"meta": H.canon_meta(where), "where": os.path.relpath(where, sb)}
        if op == "iedit":
            mf = os.path.join(sb, f"m{step.get('version', 1)}.torrent")
            r = _in_process(edit_answers(mf, step.get("edits", ())), wd, home)
            if r["rc"]:
                return {"exception": r["exception"]}
            return {"meta": H.canon_meta(mf)}
        if op == "irecheck":
            mf = os.path.join(sb, f"m{step.get('version', 1)}.torrent")
            r = _in_process(recheck_answers(mf, payload), wd, home)
            if r["rc"]:
                return {"exception": r["exception"]}
            return {"percent": repr(r["result"])}
        if op == "cfgcreate":
            import contextlib
            from torrentfile.cli import execute as cli
            out = os.path.join(sb, step.get("out", "mc.torrent"))
            argv = (["-v"] if step.get("verbose") else []) + [step.get("spelling", "create"), "--prog", "0", "--config", "--config-path", os.path.join(sb, step["ini"]),
                    "-o", out] + list(step.get("flags", ())) + [payload]
            sink = io.StringIO()
            old = os.getcwd()
            try:
                os.chdir(wd)
                with contextlib.redirect_stdout(sink), contextlib.redirect_stderr(sink):
                    cli(argv)
            finally:
                os.chdir(old)
            return {"meta": H.canon_meta(out)}
    except BaseException as e:  # noqa
        return {"exception": type(e).__name__}
    return {"error": "unknown op"}


def execute_extended(sb, step):
    """steps the plain runner has no spelling for:
      "verbose": true        the CLI form of create / recheck / edit / info / magnet / rebuild with the global flag -v in front (the
                             flag raises the root logger to DEBUG for the rest of the process; nothing resets it)
      "target": <dir>        the payload is sb/<dir> instead of sb/payload, the metafile m<version>-<dir>.torrent
      "hook": true           recheck with a hook registered through Checker.register_callback: the messages the hook received are
                             part of the result
      {"op": "mkbatch"}      two metafiles for the SAME single file sb/payload/<file> that differ in their tracker only, written to
                             sb/batch<version>/  (cross seeding)
      {"op": "rebuild-batch"} rebuild of that folder of metafiles (CLI `rebuild -m .. -c .. -d ..` or rebuild.Assembler) into
                             sb/destb<version>: the RETURNED counter and the destination tree are the result"""
    import hashlib
    import contextlib
    from runners import history as H
    from torrentfile import torrent
    from torrentfile.cli import execute as cli
    op = step["op"]
    v = str(step.get("version", 1))
    target = step.get("target")
    payload = os.path.join(sb, target or "payload")
    mf = os.path.join(sb, f"m{v}-{target}.torrent" if target else f"m{v}.torrent")
    pre = ["-v"] if step.get("verbose") else []
    via_cli = step.get("via") == "cli" or bool(pre)
    sink = io.StringIO()
    try:
        with contextlib.redirect_stdout(sink), contextlib.redirect_stderr(sink):
            if op == "create":
                if via_cli:
                    cli(pre + ["create", "--meta-version", v, "--piece-length", str(step.get("pl", 16384)), "-o", mf, "--prog", "0",
                               "-a", "http://t/a", payload])
                else:
                    cls = {"1": torrent.TorrentFile, "2": torrent.TorrentFileV2, "3": torrent.TorrentFileHybrid}[v]
                    if step.get("via") == "asm" and v != "1":
                        cls = torrent.TorrentAssembler
                    cls(path=payload, outfile=mf, piece_length=step.get("pl", 16384), progress=0, meta_version=v,
                        announce=["http://t/a"]).write()
                return {"meta": H.canon_meta(mf)}
            if op == "recheck":
                from torrentfile.recheck import Checker
                messages = []
                had = "_hook" in vars(Checker)
                old = vars(Checker).get("_hook")
                if step.get("hook"):
                    Checker.register_callback(messages.append)
                try:
                    if via_cli:
                        r = cli(pre + ["recheck", mf, payload])
                    else:
                        r = Checker(mf, payload).results()
                except BaseException as e:  # noqa  what the hook received before the exception is part of the result
                    if not step.get("hook"):
                        raise
                    return {"exception": type(e).__name__, "hook_messages": len(messages),
                            "hook_digest": hashlib.sha256(json.dumps(messages).encode()).hexdigest()}
                finally:
                    if step.get("hook"):       # the 3rd party program takes its hook back
                        if had:
                            Checker._hook = old
                        else:
                            try:
                                del Checker._hook
                            except AttributeError:
                                pass
                res = {"percent": repr(r)}
                if step.get("hook"):
                    res.update(hook_messages=len(messages), hook_first=messages[:2],
                               hook_digest=hashlib.sha256(json.dumps(messages).encode()).hexdigest())
                return res
            if op == "edit" and "fields" in step:
                # any of the six editable fields (value: str, list of str, "" = clear (library only), true for private); the
                # result is the metafile BYTE FOR BYTE (key order included)
                fields = step["fields"]
                if via_cli:
                    flag = {"comment": "--comment", "source": "--source", "announce": "--tracker", "url-list": "--web-seed",
                            "httpseeds": "--http-seed"}
                    argv = pre + ["edit", mf]
                    for k, val in fields.items():
                        if k == "private":
                            argv += ["--private"] if val else []
                        elif k in ("comment", "source"):
                            argv += [flag[k], val if isinstance(val, str) else " ".join(val)]
                        else:
                            argv += [flag[k]] + (list(val) if isinstance(val, list) else val.split())
                    cli(argv)
                else:
                    from torrentfile.edit import edit_torrent
                    edit_torrent(mf, dict(fields))
                raw = open(mf, "rb").read() if os.path.isfile(mf) else None
                return {"meta": H.canon_meta(mf), "raw_sha256": None if raw is None else hashlib.sha256(raw).hexdigest(),
                        "raw_len": None if raw is None else len(raw)}
            if op == "edit":
                cli(pre + ["edit", mf, "--comment", step.get("comment", "c")])
                return {"meta": H.canon_meta(mf)}
            if op == "info":
                return {"info": hashlib.sha256(str(cli(pre + ["info", mf])).encode()).hexdigest()}
            if op == "magnet":
                return {"uri": cli(pre + ["magnet", mf])}
            if op == "rebuild":
                dest = os.path.join(sb, "dest")
                os.makedirs(dest, exist_ok=True)
                n = cli(pre + ["rebuild", "-m", mf, "-c", payload, "-d", dest])
                return {"count": n, "dest": H.tree_digest(dest)}
            if op == "mkbatch":
                bdir = os.path.join(sb, f"batch{v}")
                os.makedirs(bdir, exist_ok=True)
                single = os.path.join(payload, step.get("file", "a"))
                out = {}
                for tracker in ("one", "two"):
                    o = os.path.join(bdir, f"{os.path.basename(single)}.{tracker}.torrent")
                    cls = torrent.TorrentFile if v == "1" else torrent.TorrentAssembler
                    cls(path=single, outfile=o, piece_length=step.get("pl", 16384), progress=0, meta_version=v,
                        announce=[f"http://tracker-{tracker}.example/announce"]).write()
                    out[tracker] = H.canon_meta(o)
                return {"metas": out}
            if op == "rebuild-batch":
                bdir = os.path.join(sb, f"batch{v}")
                dest = os.path.join(sb, f"destb{v}")
                os.makedirs(dest, exist_ok=True)
                if via_cli:
                    n = cli(pre + ["rebuild", "-m", bdir, "-c", payload, "-d", dest])
                else:
                    from torrentfile.rebuild import Assembler
                    n = Assembler([bdir], [payload], dest).assemble_torrents()
                return {"count": n, "dest": H.tree_digest(dest)}
    except BaseException as e:  # noqa
        return {"exception": type(e).__name__}
    return {"error": "unknown op"}


def main():
    here = os.path.dirname(os.path.abspath(__file__))
    if here not in sys.path:
        sys.path.insert(0, here)
    sb = sys.argv[1]
    if len(sys.argv) > 2 and sys.argv[2] == "--once":
        print(json.dumps({"result": execute(sb, json.loads(sys.argv[3]))}))
        return
    real_out = sys.stdout
    import state_snapshot
    import torrentfile.cli, torrentfile.commands, torrentfile.interactive, torrentfile.rebuild, torrentfile.recheck  # noqa: F401,E401
    import torrentfile.edit, torrentfile.torrent, torrentfile.hasher, torrentfile.utils  # noqa: F401,E401
    prev = state_snapshot.snapshot()
    for line in sys.stdin:
        line = line.strip()
        if not line:
            continue
        res = execute(sb, json.loads(line))
        sys.stdout = real_out
        # what of the package's process-lifetime state this step changed (validated against GenState.v by c09.py)
        now = state_snapshot.snapshot()
        changed = state_snapshot.diff(prev, now)
        prev = now
        real_out.write(json.dumps({"result": res, "state_changed": changed}) + "\n")
        real_out.flush()


if __name__ == "__main__":
    main()
