"""Runs the extracted Coq models (one OCaml driver per area) on line-based cases."""
import os
import subprocess
import tempfile

import core

AREA_OF = {}      # function name -> area, filled by register()


def register(area, *fns):
    for f in fns:
        AREA_OF[f] = area


register("hasher", "hasher", "entries")
register("v2", "hasher_v2", "hasher_hybrid", "file_hasher", "merkle_root", "bep52")
register("bencode", "roundtrip", "strict", "sortkeys")
register("recheck", "feed", "hashcheck")
register("rebuild", "map_pieces")
register("edit", "edit", "magnet", "quote", "unquote")
register("creators", "create", "flt", "wf", "path", "descend")
register("rebuildrun", "rebuildrun")
register("recheckinit", "recheck", "refmeta")


def binary(area):
    return os.path.join(core.VERIF, "ocaml", "bin", area)


def build(area=None):
    p = subprocess.run(["bash", os.path.join(core.VERIF, "ocaml", "build.sh")] + ([area] if area else []),
                       capture_output=True, text=True)
    return p.returncode == 0, p.stdout[-2000:] + p.stderr[-2000:]


def run(fn, cases, timeout=1800):
    """cases: list of tuples of str fields (without the function name). returns list of output lines or None"""
    area = AREA_OF[fn]
    exe = binary(area)
    if not os.path.exists(exe):
        return None
    with tempfile.NamedTemporaryFile("w", suffix=".cases", delete=False) as fd:
        for c in cases:
            fd.write("|".join((fn,) + tuple(c)) + "\n")
        name = fd.name
    try:
        p = subprocess.run(["bash", "-c", f"ulimit -s unlimited; exec '{exe}' < '{name}'"],
                           capture_output=True, text=True, timeout=timeout)
        if p.returncode != 0:
            return None
        out = p.stdout.split("\n")
        if out and out[-1] == "":
            out.pop()
        if len(out) != len(cases):
            return None
        return out
    finally:
        os.unlink(name)
