"""
Long-lived or one-shot executor of torrentfile operations for the C09 history
differential.  Reads one JSON step per line on stdin, executes it against the
sandbox given as argv[1], answers with one JSON line {"result": ...}.
With --once executes the single step given as argv[3] and exits.
"""
import io
import os
import sys
import json
import hashlib
import contextlib


def canon_meta(path):
    import pyben
    if not os.path.isfile(path):
        return None
    m = pyben.load(path)
    m.pop("creation date", None)
    return hashlib.sha256(pyben.dumps(m)).hexdigest()


def tree_digest(root):
    h = hashlib.sha256()
    if not os.path.exists(root):
        return None
    for dp, dns, fns in sorted(os.walk(root)):
        dns.sort()
        for n in sorted(fns):
            p = os.path.join(dp, n)
            h.update(os.path.relpath(p, root).encode() + b"\0")
            if n.endswith(".torrent"):
                try:
                    h.update((canon_meta(p) or "").encode())      # creation date is not part of the comparison
                    continue
                except Exception:  # noqa
                    pass
            with open(p, "rb") as fd:
                h.update(hashlib.sha256(fd.read()).digest())
    return h.hexdigest()


def execute(sb, step):
    from torrentfile import torrent
    from torrentfile.cli import execute as cli
    payload = os.path.join(sb, "payload")
    op = step["op"]
    sink = io.StringIO()
    try:
        with contextlib.redirect_stdout(sink), contextlib.redirect_stderr(sink):
            if op == "create":
                v = str(step["version"])
                out = os.path.join(sb, f"m{v}.torrent")
                if step.get("via") == "cli":
                    cli(["create", "--meta-version", v, "--piece-length", str(step.get("pl", 16384)), "-o", out, "--prog", "0",
                         "-a", "http://t/a", payload])
                else:
                    cls = {"1": torrent.TorrentFile, "2": torrent.TorrentFileV2, "3": torrent.TorrentFileHybrid}[v]
                    if step.get("via") == "asm" and v != "1":
                        cls = torrent.TorrentAssembler
                    cls(path=payload, outfile=out, piece_length=step.get("pl", 16384), progress=0, meta_version=v,
                        announce=["http://t/a"]).write()
                return {"meta": canon_meta(out)}
            mf = os.path.join(sb, f"m{step.get('version', 1)}.torrent")
            if op == "recheck":
                from torrentfile.recheck import Checker
                if step.get("via") == "cli":
                    r = cli(["recheck", mf, payload])
                else:
                    r = Checker(mf, payload).results()
                return {"percent": repr(r)}
            if op == "edit":
                from torrentfile.edit import edit_torrent
                if step.get("via") == "cli":
                    cli(["edit", mf, "--comment", step["comment"]])
                else:
                    edit_torrent(mf, {"comment": step["comment"], "announce": step.get("announce")})
                return {"meta": canon_meta(mf)}
            if op == "magnet":
                from torrentfile.commands import magnet
                return {"uri": magnet(mf, version=0)}
            if op == "rebuild":
                from torrentfile.rebuild import Assembler
                dest = os.path.join(sb, "dest")
                os.makedirs(dest, exist_ok=True)
                n = Assembler([mf], [payload], dest).assemble_torrents()
                return {"count": n, "dest": tree_digest(dest)}
            if op == "info":
                from torrentfile.commands import info
                from argparse import Namespace
                return {"info": hashlib.sha256(info(Namespace(metafile=mf)).encode()).hexdigest()}
    except BaseException as e:  # noqa
        return {"exception": type(e).__name__}
    return {"error": "unknown op"}


def main():
    sb = sys.argv[1]
    if len(sys.argv) > 2 and sys.argv[2] == "--once":
        print(json.dumps({"result": execute(sb, json.loads(sys.argv[3]))}))
        return
    real_out = sys.stdout
    for line in sys.stdin:
        line = line.strip()
        if not line:
            continue
        res = execute(sb, json.loads(line))
        sys.stdout = real_out
        real_out.write(json.dumps({"result": res}) + "\n")
        real_out.flush()


if __name__ == "__main__":
    main()
