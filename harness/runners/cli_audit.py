"""
Runs one torrentfile CLI command in a fresh interpreter with an audit hook that
records filesystem events on paths under a sandbox root.
usage: cli_audit.py <sandbox-root> <trace-out> <argv...>      (cwd and HOME are set by the caller)
exit status: 0 returned, 3 raised (class name on stdout), 4 SystemExit non-zero
"""
import json
import os
import sys

WRITE_FLAGS = os.O_WRONLY | os.O_RDWR | os.O_APPEND | os.O_CREAT | os.O_TRUNC


def main():
    root, trace_out = sys.argv[1], sys.argv[2]
    argv = sys.argv[3:]
    root = os.path.realpath(root)
    events = []

    def inside(p):
        try:
            p = os.path.realpath(os.fspath(p))
        except (TypeError, ValueError):
            return None
        return p if (p == root or p.startswith(root + os.sep)) else None

    def hook(name, args):
        try:
            if name == "open":
                p = inside(args[0]) if isinstance(args[0], (str, bytes, os.PathLike)) else None
                if p and not p.endswith(".pyc") and "__pycache__" not in p:
                    flags = args[2] if isinstance(args[2], int) else 0
                    kind = "Write" if flags & WRITE_FLAGS else "Read"
                    events.append([kind, "open", p, args[1] if isinstance(args[1], str) else None])
            elif name in ("os.remove", "os.unlink", "os.rmdir", "shutil.rmtree"):
                p = inside(args[0])
                if p:
                    events.append(["Remove", name, p])
            elif name in ("os.rename", "os.replace", "shutil.move"):
                a, b = inside(args[0]), inside(args[1])
                if a or b:
                    events.append(["Rename", name, a or str(args[0]), b or str(args[1])])
            elif name in ("os.mkdir", "os.makedirs"):
                p = inside(args[0])
                if p:
                    events.append(["Mkdir", name, p])
            elif name in ("shutil.copyfile", "shutil.copytree"):
                a, b = inside(args[0]), inside(args[1])
                if a or b:
                    events.append(["Copy", name, a or str(args[0]), b or str(args[1])])
            elif name in ("shutil.copymode", "shutil.copystat", "os.chmod", "os.chown", "os.utime"):
                p = inside(args[1] if name.startswith("shutil") else args[0])
                if p:
                    events.append(["Chmod", name, p])
            elif name in ("os.truncate", "os.symlink", "os.link", "os.mkfifo"):
                events.append(["Write", name, str(args[0])])
            elif name in ("subprocess.Popen", "os.system", "os.exec", "os.fork", "os.posix_spawn"):
                events.append(["Unknown", name, str(args[0])[:80]])
        except Exception:  # noqa
            pass

    sys.addaudithook(hook)
    rc = 0
    try:
        from torrentfile.cli import execute
        sink = open(os.devnull, "w")
        out, err = sys.stdout, sys.stderr
        sys.stdout = sys.stderr = sink
        try:
            execute(list(argv))
        finally:
            sys.stdout, sys.stderr = out, err
    except SystemExit as e:
        rc = 0 if not e.code else 4
    except BaseException as e:  # noqa
        print(type(e).__name__)
        rc = 3
    with open(trace_out, "w") as fd:
        json.dump(events, fd)
    sys.stdout.flush()
    os._exit(rc)


if __name__ == "__main__":
    main()
