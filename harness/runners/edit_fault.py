"""
Runs torrentfile.edit.edit_torrent on one metafile with one request under one
injected fault, in a fresh interpreter.  usage:
    edit_fault.py <metafile> <request-json> <fault-json> <trace-out>
exit status: 0 edit returned, 3 edit raised (exception class on stdout), 137/other: killed.
The filesystem events the edit performs on paths in the metafile's directory are
written to <trace-out> as JSON lines (flushed with os.write so they survive a kill).
"""
import builtins
import errno
import json
import os
import resource
import signal
import sys


def main():
    metafile, req_json, fault_json, trace_out = sys.argv[1:5]
    req = json.loads(req_json)
    fault = json.loads(fault_json)
    args = {}
    for k, v in req.items():
        if isinstance(v, dict) and "unencodable" in v:
            args[k] = {"float": 1.5, "object": object(), "set": {1, 2}}[v["unencodable"]]
        else:
            args[k] = v
    base = os.path.dirname(os.path.abspath(metafile))
    tfd = os.open(trace_out, os.O_WRONLY | os.O_CREAT | os.O_TRUNC)
    counter = [0]
    active = [True]
    tracing = fault["kind"] != "rlimit"      # a file size limit would hit the trace file too

    def sym(p):
        try:
            p = os.path.abspath(os.fspath(p))
        except TypeError:
            return None
        if os.path.dirname(p) != base and p != base:
            return None
        return "PM" if p == os.path.abspath(metafile) else "PT:" + os.path.basename(p)

    def event(kind, *paths, size=None):
        """returns an action for this event: None | ('raise', exc) | ('kill',) | ('short', then)"""
        if not active[0]:
            return None
        i = counter[0]
        counter[0] += 1
        rec = {"i": i, "op": kind, "paths": list(paths)}
        if size is not None:
            rec["size"] = size
        if tracing:
            os.write(tfd, (json.dumps(rec) + "\n").encode())
        if fault.get("event_index") == i:
            return fault
        return None

    def act(f, when):
        if f is None or f.get("when", "before") != when:
            return
        if f["kind"] == "kill":
            os._exit(137)
        if f["kind"] == "raise":
            if f["exc"] == "PermissionError":
                raise PermissionError(errno.EACCES, "injected")
            raise OSError(errno.ENOSPC, "injected: no space left on device")

    real_open = builtins.open

    class WProxy:
        def __init__(self, fobj, s):
            self._f = fobj
            self._s = s

        def write(self, data):
            f = event("write", self._s, size=len(data))
            if f and f["kind"] == "shortwrite":
                k = int(len(data) * f.get("frac", 0.5))
                self._f.write(data[:k])
                if f.get("flush", True):
                    self._f.flush()
                if f.get("then") == "kill":
                    os._exit(137)
                raise OSError(errno.ENOSPC, "injected: short write")
            act(f, "before")
            n = self._f.write(data)
            act(f, "after")
            return n

        def close(self):
            if self._f.closed:
                return
            f = event("close", self._s)
            act(f, "before")
            self._f.close()
            act(f, "after")

        def __enter__(self):
            return self

        def __exit__(self, *a):
            self.close()
            return False

        def __getattr__(self, name):
            return getattr(self._f, name)

    def open_(file, mode="r", *a, **k):
        s = sym(file) if isinstance(file, (str, bytes, os.PathLike)) else None
        if s is None:
            return real_open(file, mode, *a, **k)
        f = event("open", s, size=None)
        if tracing:
            os.write(tfd, (json.dumps({"mode": mode, "extra": bool(a or k)}) + "\n").encode())
        act(f, "before")
        fobj = real_open(file, mode, *a, **k)
        act(f, "after")
        if any(c in mode for c in "wax+"):
            return WProxy(fobj, s)
        return fobj

    def wrap2(name, real):
        def fn(a, b, *r, **k):
            sa, sb = sym(a), sym(b)
            if sa is None and sb is None:
                return real(a, b, *r, **k)
            f = event(name, sa, sb)
            act(f, "before")
            out = real(a, b, *r, **k)
            act(f, "after")
            return out
        return fn

    def wrap1(name, real):
        def fn(a, *r, **k):
            sa = sym(a)
            if sa is None:
                return real(a, *r, **k)
            f = event(name, sa)
            act(f, "before")
            out = real(a, *r, **k)
            act(f, "after")
            return out
        return fn

    if fault["kind"] == "rlimit":
        if fault.get("ignore_signal", True):
            signal.signal(signal.SIGXFSZ, signal.SIG_IGN)
        resource.setrlimit(resource.RLIMIT_FSIZE, (fault["bytes"], fault["bytes"]))

    import pyben
    import importlib
    editmod = importlib.import_module("torrentfile.edit")
    builtins.open = open_
    os.replace = wrap2("replace", os.replace)
    os.rename = wrap2("rename", os.rename)
    os.remove = wrap1("remove", os.remove)
    os.unlink = wrap1("remove", os.unlink)
    real_exists = os.path.exists

    def exists(p):
        s = sym(p) if isinstance(p, (str, bytes, os.PathLike)) else None
        if s is not None:
            event("exists", s)
        return real_exists(p)
    os.path.exists = exists
    real_dumps = pyben.dumps

    def dumps(obj):
        f = event("encode")
        act(f, "before")
        return real_dumps(obj)
    pyben.dumps = dumps
    try:
        editmod.edit_torrent(metafile, args)
    except BaseException as e:  # noqa
        active[0] = False
        print(type(e).__name__, str(e)[:200])
        sys.stdout.flush()
        os._exit(3)
    os._exit(0)


if __name__ == "__main__":
    main()
