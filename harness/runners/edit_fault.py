"""
Runs torrentfile.edit.edit_torrent on one metafile with one request under one
injected fault, in a fresh interpreter.  usage:
    edit_fault.py <metafile> <request-json> <fault-json> <trace-out>
exit status: 0 edit returned, 3 edit raised (exception class on stdout), 137/other: killed.
The filesystem events the edit performs on paths in the metafile's directory (PM = the metafile, PT:<name> = anything
else beside it) and directly in the system temp directory (PX:<name>; tempfile.gettempdir(), i.e. $TMPDIR -- it may lie
on ANOTHER filesystem than the metafile) are written to <trace-out> as JSON lines (flushed with os.write so they
survive a kill).

Observed (and fault-injectable) operations:
  open          builtins.open / io.open of a tracked path, os.open of a tracked path (mode derived from the flags: "w" only
                with O_TRUNC, "a" with O_APPEND, "r+" for a writable descriptor that does NOT truncate); a file object made
                from a tracked DESCRIPTOR (open(fd, "wb")) is tracked as well
  write / close on file objects opened for writing; os.write on a tracked descriptor
  sendfile      os.sendfile / os.copy_file_range / os.splice between descriptors of which one is tracked (the data path of
                shutil.copyfile, hence of shutil.move across filesystems, which bypasses file.write)
  replace rename remove link symlink truncate exists encode
fault (JSON): kind none | raise (exc PermissionError / ENOSPC, when before|after) | kill (when before|after) | shortwrite
(write and sendfile: frac of the bytes, then raise|kill) at event_index; rlimit (RLIMIT_FSIZE = bytes; ignore_signal);
"via": "cli" runs `torrentfile edit` through cli.execute instead of edit.edit_torrent.
Request values {"unencodable": kind}: float, object, set, surrogate (a str with a lone surrogate, as sys.argv gives for a
Latin-1 byte), surrogate-list, surrogate-words.
"""
import builtins
import errno
import io
import json
import os
import resource
import signal
import sys
import tempfile

SURROGATE = "caf\udce9 cr\udce8me"

CLI_FLAG = {"comment": "--comment", "source": "--source", "announce": "--tracker", "url-list": "--web-seed",
            "httpseeds": "--http-seed", "private": "--private"}


def odd_value(kind):
    return {"float": 1.5, "object": object(), "set": {1, 2}, "surrogate": SURROGATE,
            "surrogate-list": ["http://ok/a", "http://t/\udce9"], "surrogate-words": "http://ok/a http://t/\udcff\udcfe"}[kind]


def cli_argv(metafile, args):
    argv = ["edit", metafile]
    for k, v in args.items():
        if v is None:
            continue
        if k == "private":
            if v:
                argv.append("--private")
        elif k in ("comment", "source"):
            argv += [CLI_FLAG[k], v if isinstance(v, str) else " ".join(v)]
        else:
            argv += [CLI_FLAG[k]] + (list(v) if isinstance(v, list) else v.split())
    return argv


def main():
    metafile, req_json, fault_json, trace_out = sys.argv[1:5]
    req = json.loads(req_json)
    fault = json.loads(fault_json)
    args = {}
    for k, v in req.items():
        if isinstance(v, dict) and "unencodable" in v:
            args[k] = odd_value(v["unencodable"])
        elif isinstance(v, list) and any(isinstance(x, dict) and "unencodable" in x for x in v):
            args[k] = [odd_value(x["unencodable"]) if isinstance(x, dict) and "unencodable" in x else x for x in v]
        else:
            args[k] = v
    base = os.path.dirname(os.path.abspath(metafile))
    tdir = os.path.abspath(tempfile.gettempdir())
    if tdir == base:
        tdir = None
    tfd = os.open(trace_out, os.O_WRONLY | os.O_CREAT | os.O_TRUNC)
    counter = [0]
    active = [True]
    tracing = fault["kind"] != "rlimit"      # a file size limit would hit the trace file too
    fds = {}                                  # descriptor -> (symbol, (st_dev, st_ino))

    def sym(p):
        try:
            p = os.path.abspath(os.fspath(p))
        except TypeError:
            return None
        if isinstance(p, bytes):
            p = os.fsdecode(p)
        if os.path.dirname(p) == base or p == base:
            return "PM" if p == os.path.abspath(metafile) else "PT:" + os.path.basename(p)
        if tdir is not None and (os.path.dirname(p) == tdir or p == tdir):
            return "PX:" + (os.path.basename(p) if p != tdir else ".")
        return None

    def note_fd(fd, s):
        try:
            st = os.fstat(fd)
            fds[fd] = (s, (st.st_dev, st.st_ino))
        except OSError:
            pass

    def fd_sym(fd):
        if not isinstance(fd, int) or isinstance(fd, bool) or fd not in fds:
            return None
        s, ident = fds[fd]
        try:
            st = os.fstat(fd)
        except OSError:
            fds.pop(fd, None)
            return None
        if (st.st_dev, st.st_ino) != ident:      # the number was closed and handed out again for another file
            fds.pop(fd, None)
            return None
        return s

    def event(kind, *paths, size=None, more=None):
        """returns the fault to apply at this event, or None"""
        if not active[0]:
            return None
        i = counter[0]
        counter[0] += 1
        rec = {"i": i, "op": kind, "paths": list(paths)}
        if size is not None:
            rec["size"] = size
        if tracing:
            real_os_write(tfd, (json.dumps(rec) + "\n").encode())
            if more:
                real_os_write(tfd, (json.dumps(more) + "\n").encode())
        if fault.get("event_index") == i:
            return fault
        return None

    def injected():
        return OSError(errno.ENOSPC, "injected: short write")

    def act(f, when):
        if f is None or f.get("when", "before") != when:
            return
        if f["kind"] == "kill":
            os._exit(137)
        if f["kind"] == "raise":
            if f["exc"] == "PermissionError":
                raise PermissionError(errno.EACCES, "injected")
            raise OSError(errno.ENOSPC, "injected: no space left on device")

    real_open = builtins.open
    real_os_open, real_os_write, real_os_close = os.open, os.write, os.close

    class WProxy:
        def __init__(self, fobj, s):
            self._f = fobj
            self._s = s

        def write(self, data):
            f = event("write", self._s, size=len(data))
            if f and f["kind"] == "shortwrite":
                k = int(len(data) * f.get("frac", 0.5))
                self._f.write(data[:k])
                if f.get("flush", True):
                    self._f.flush()
                if f.get("then") == "kill":
                    os._exit(137)
                raise injected()
            act(f, "before")
            n = self._f.write(data)
            act(f, "after")
            return n

        def writelines(self, lines):
            for x in lines:
                self.write(x)

        def close(self):
            if self._f.closed:
                return
            f = event("close", self._s)
            act(f, "before")
            try:
                fds.pop(self._f.fileno(), None)
            except (OSError, ValueError):
                pass
            self._f.close()
            act(f, "after")

        def __enter__(self):
            return self

        def __exit__(self, *a):
            self.close()
            return False

        def __iter__(self):
            return iter(self._f)

        def __getattr__(self, name):
            return getattr(self._f, name)

    def open_(file, mode="r", *a, **k):
        if isinstance(file, int) and not isinstance(file, bool):
            s = fd_sym(file)             # a file object over a descriptor that os.open returned for a tracked path
            if s is None:
                return real_open(file, mode, *a, **k)
            fobj = real_open(file, mode, *a, **k)
            return WProxy(fobj, s) if any(c in mode for c in "wax+") else fobj
        s = sym(file) if isinstance(file, (str, bytes, os.PathLike)) else None
        if s is None:
            return real_open(file, mode, *a, **k)
        f = event("open", s, size=None, more={"mode": mode, "extra": bool(a or k)})
        act(f, "before")
        fobj = real_open(file, mode, *a, **k)
        try:
            note_fd(fobj.fileno(), s if s != "PX:." else "PX:" + os.path.basename(str(getattr(fobj, "name", "?"))))
        except (OSError, ValueError, AttributeError):
            pass
        act(f, "after")
        if any(c in mode for c in "wax+"):
            return WProxy(fobj, s)
        return fobj

    def os_open(path, flags, mode=0o777, *a, **k):
        s = sym(path) if isinstance(path, (str, bytes, os.PathLike)) and not k.get("dir_fd") else None
        if s is None:
            return real_os_open(path, flags, mode, *a, **k)
        acc = flags & os.O_ACCMODE
        if acc == os.O_RDONLY:
            m = "r"
        elif flags & os.O_TRUNC:
            m = "w"
        elif flags & os.O_APPEND:
            m = "a"
        else:
            m = "r+"                      # writable and NOT truncating: old bytes beyond what is written stay
        f = event("open", s, more={"mode": m, "extra": False, "lowlevel": True, "flags": flags})
        act(f, "before")
        fd = real_os_open(path, flags, mode, *a, **k)
        note_fd(fd, s)
        act(f, "after")
        return fd

    def os_write(fd, data):
        s = fd_sym(fd)
        if s is None or fd == tfd:
            return real_os_write(fd, data)
        f = event("write", s, size=len(data))
        if f and f["kind"] == "shortwrite":
            real_os_write(fd, bytes(data)[:int(len(data) * f.get("frac", 0.5))])
            if f.get("then") == "kill":
                os._exit(137)
            raise injected()
        act(f, "before")
        n = real_os_write(fd, data)
        act(f, "after")
        return n

    def os_close(fd):
        s = fd_sym(fd)
        if s is None or fd == tfd:
            return real_os_close(fd)
        f = event("close", s)
        act(f, "before")
        fds.pop(fd, None)
        real_os_close(fd)
        act(f, "after")

    def wrap_fdcopy(name, real, out_pos, in_pos, count_pos):
        """os.sendfile(out, in, offset, count) / os.copy_file_range(src, dst, count) / os.splice(src, dst, count)"""
        def fn(*a, **k):
            so = fd_sym(a[out_pos]) if len(a) > out_pos else None
            si = fd_sym(a[in_pos]) if len(a) > in_pos else None
            if so is None and si is None:
                return real(*a, **k)
            count = a[count_pos] if len(a) > count_pos and isinstance(a[count_pos], int) else None
            f = event("sendfile", so, si, size=count, more={"call": name})
            if f and f["kind"] == "shortwrite":
                n = int((count or 0) * f.get("frac", 0.5))
                try:
                    avail = os.fstat(a[in_pos]).st_size
                    n = min(n, int(avail * f.get("frac", 0.5)))
                except OSError:
                    pass
                if n > 0:
                    b = list(a)
                    b[count_pos] = n
                    real(*b, **k)
                if f.get("then") == "kill":
                    os._exit(137)
                raise injected()
            act(f, "before")
            out = real(*a, **k)
            act(f, "after")
            return out
        return fn

    def wrap2(name, real):
        def fn(a, b, *r, **k):
            sa, sb = sym(a), sym(b)
            if sa is None and sb is None:
                return real(a, b, *r, **k)
            f = event(name, sa, sb)
            act(f, "before")
            out = real(a, b, *r, **k)
            act(f, "after")
            return out
        return fn

    def wrap1(name, real):
        def fn(a, *r, **k):
            sa = fd_sym(a) if isinstance(a, int) else sym(a)
            if sa is None:
                return real(a, *r, **k)
            f = event(name, sa)
            act(f, "before")
            out = real(a, *r, **k)
            act(f, "after")
            return out
        return fn

    if fault["kind"] == "rlimit":
        if fault.get("ignore_signal", True):
            signal.signal(signal.SIGXFSZ, signal.SIG_IGN)
        resource.setrlimit(resource.RLIMIT_FSIZE, (fault["bytes"], fault["bytes"]))

    import pyben
    import importlib
    import shutil  # noqa: F401  (imported before the patches so that its feature tests see the real os)
    editmod = importlib.import_module("torrentfile.edit")
    climod = importlib.import_module("torrentfile.cli") if fault.get("via") == "cli" else None
    builtins.open = open_
    io.open = open_
    os.open = os_open
    os.write = os_write
    os.close = os_close
    os.replace = wrap2("replace", os.replace)
    os.rename = wrap2("rename", os.rename)
    os.link = wrap2("link", os.link)
    os.symlink = wrap2("symlink", os.symlink)
    os.remove = wrap1("remove", os.remove)
    os.unlink = wrap1("remove", os.unlink)
    os.truncate = wrap1("truncate", os.truncate)
    os.ftruncate = wrap1("truncate", os.ftruncate)
    if hasattr(os, "sendfile"):
        os.sendfile = wrap_fdcopy("sendfile", os.sendfile, 0, 1, 3)
    if hasattr(os, "copy_file_range"):
        os.copy_file_range = wrap_fdcopy("copy_file_range", os.copy_file_range, 1, 0, 2)
    if hasattr(os, "splice"):
        os.splice = wrap_fdcopy("splice", os.splice, 1, 0, 2)
    real_exists = os.path.exists

    def exists(p):
        s = sym(p) if isinstance(p, (str, bytes, os.PathLike)) else None
        if s is not None:
            event("exists", s)
        return real_exists(p)
    os.path.exists = exists
    real_dumps = pyben.dumps

    def dumps(obj):
        f = event("encode")
        act(f, "before")
        return real_dumps(obj)
    pyben.dumps = dumps
    try:
        if climod is not None:
            sink = io.StringIO()
            import contextlib
            with contextlib.redirect_stdout(sink), contextlib.redirect_stderr(sink):
                climod.execute(cli_argv(metafile, args))
        else:
            editmod.edit_torrent(metafile, args)
    except BaseException as e:  # noqa
        active[0] = False
        sys.stdout = sys.__stdout__
        print(type(e).__name__, ascii(str(e))[:200])
        sys.stdout.flush()
        os._exit(3)
    os._exit(0)


if __name__ == "__main__":
    main()
