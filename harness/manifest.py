"""Regenerates /verif/MANIFEST.json from the table below (run: python3 harness/manifest.py)."""
import json
import os

VERIF = os.path.dirname(os.path.dirname(os.path.abspath(__file__)))

# id -> (technique, level text, level note, design ref)
CLAIMED = {
    "C12": (
        "Coq proof over a model regenerated from utils.py by an ast translator; vm_compute correspondence",
        "Machine-checked proof (Coq 8.16.1, closed under the global context) about the Gallina functions that a fail-closed "
        "Python-ast translator regenerates from torrentfile/utils.py on every run: normalize_piece_length accepts exactly the powers of "
        "two >= 16 KiB and the exponents 14..25 (26..29 either way), rejects everything else with PieceLengthValueError for every integer "
        "and for every behaviour of str.isnumeric/int(); get_piece_length is a power of two in 2^14..2^24 and monotone for every size. "
        "The generated functions are compared with the real ones by vm_compute on ~72k inputs per run and the implementation is "
        "searched against the property's own rule through the library, the CLI flag and the config key.",
        "Trusted: Coq kernel + vm_compute; the translator (checked dynamically each run); a/b>c rewritten to a>c*b (argued exact); "
        "argparse/configparser deliver the value as str (exercised end to end, not modelled).",
        "DESIGN.md section 5 C12"),
    "C01": (
        "Coq proof (cursor invariant of the Hasher iterator) + extracted-model correspondence + reference-oracle search",
        "Machine-checked proof, for every SHA-1 function, every list of files (any sizes, empty files anywhere, pieces straddling any "
        "number of files) and every piece length > 0, that the hand-written state-machine model of hasher.Hasher feeds exactly the "
        "successive piece-length slices of the concatenated files to the hash (only the last may be short), that the entry list has one "
        "non-padding entry per file, and that a single file is hashed alone.  The model is tied to the code on every run by running its "
        "extracted OCaml against the real iterator (small scope exhaustively in the thorough tier) and the written metafiles are "
        "compared with an independent BEP 3 reference on generated trees.",
        "Trusted: Coq kernel; extraction (ExtrOcamlBasic/String) and the OCaml SHA-1 for the correspondence only; the hand model's tie is "
        "differential testing; directory listing and file reads by the OS; listing order (sorted) is exercised end to end here and proved in C08.",
        "DESIGN.md section 5 C01"),
    "C15": (
        "Coq proof (align mode of the Hasher model and of the entry list; the pad-length expression REGENERATED from TorrentFile.assemble is the least gap to the next piece boundary and equals the model's, for every size) + extracted-model correspondence + oracle search",
        "Machine-checked proof, for every hash function, file list and piece length, that in align mode the model of Hasher hashes the "
        "stream in which each file is followed by zeros up to the next piece boundary, that the entry list of TorrentFile.assemble "
        "describes exactly that stream (each pad entry = the gap, 0 < gap < pl, after its file), that every payload file starts on a "
        "boundary, that listed lengths = pieces * piece length, and that a single file is hashed alone.  Tied to the code by extracted-model "
        "correspondence (Hasher(align=True), info.files) and searched end to end against the property on generated trees.",
        "Trusted: as C01.",
        "DESIGN.md section 5 C15"),
    "C17": (
        "Coq-certified checker (safe_ops_sound, by induction over operation lists) applied by vm_compute to the operation list "
        "regenerated from edit.py; event-trace correspondence; exhaustive real fault injection",
        "Machine-checked proof that EVERY operation list accepted by the executable checker safe_ops leaves, at every kill point "
        "(between operations, inside the buffered write at any byte count, during clean-up) and after every raised error, either the "
        "complete original or the complete edited metafile at the metafile path, plus the instance safe_ops(edit_fs_ops)=true for the "
        "list a translator regenerates from edit_torrent on every run (anything it cannot classify is Unknown and rejected).  The "
        "generated list is compared with the filesystem events of a real edit, and real faults (raise/kill at every operation, short "
        "writes, RLIMIT_FSIZE, unencodable values) are injected exhaustively per (metafile, request).",
        "Trusted: Coq kernel; the crash semantics in Spec/FsOps.v; the translator (checked against observed traces); rename(2) atomicity; "
        "no durability claim across power loss (no fsync).",
        "DESIGN.md section 5 C17"),
    "C18": (
        "Coq-certified reachability/effect checkers (closed_sound, readonly_cmd_sound) applied by vm_compute to the call graph and "
        "effect summary regenerated from the package; small operational models of the probe and of rename; audit-hook traces; snapshots",
        "Machine-checked proof that whenever the executable checker accepts a (call graph, effect summary, roots) triple, every execution "
        "that stays within the summary leaves every path unchanged; instances by computation for recheck, info and magnet on the "
        "over-approximate call graph a translator regenerates from torrentfile/*.py on every run; proof that the writability probe "
        "(op list regenerated from check_path_writable) restores its path in every case so that create changes exactly the output path; "
        "proof that rename (op list regenerated from commands.rename) refuses without effect when the new name exists and otherwise moves "
        "the same bytes and touches nothing else.  Tie: audited filesystem events of real runs must be of predicted kinds; search: full "
        "recursive snapshots around every command spelling, version, intact/damaged tree and output variant.",
        "Trusted: Coq kernel; the translators' over-approximation (name-based call resolution; external calls FAIL CLOSED: an explicit allow-list of "
        "effect-free externals, known file-creating externals are Write effects, anything else makes the caller Unknown and the checker rejects; "
        "import-time code is analysed; roots are read from the sub-parsers' func= targets; validated dynamically, not proved); effects inside "
        "allow-listed standard-library calls; no concurrent processes.",
        "DESIGN.md section 5 C18"),
    "C09": (
        "Coq non-interference theorem (induction over histories) + instance check_flows by vm_compute on state-cell summaries "
        "regenerated from the package; history differential against fresh interpreters",
        "Machine-checked proof that for any semantics respecting a summary accepted by the executable checker check_flows (no "
        "process-lifetime cell that may flow into a result is written by any operation) every history of operations, of any length and "
        "interleaving, yields step by step exactly the results of fresh processes; instance by computation on the cells (memo caches = "
        "decorated functions, module-level mutables, class-level attributes, mutable default arguments, function attributes, os.environ) "
        "and per-operation read/write/flow sets that a translator regenerates from torrentfile/*.py on every run.  PARTIAL: the theorem "
        "shows no hidden channel among the channels the translator can see; the search runs random and aimed histories (create / file "
        "add, delete, grow, shrink, rewrite / edit / recheck / rebuild / magnet / info) in one interpreter against a fresh interpreter "
        "per step on the same filesystem state.",
        "Trusted: Coq kernel; soundness of the syntactic read/write/flow extraction (the weakest link; not proved; cells = memo decorators, module-level "
        "mutables incl. attribute/item stores, class attributes written through cls.x / Class.x / type(self).x / self.__class__.x / setattr, mutable "
        "default arguments, function attributes, os.environ, stream rebinding); stdout/stderr rebinding and logging declared benign; Python offers other "
        "channels (monkey-patching, sys.modules) that only the differential looks for.",
        "DESIGN.md section 5 C09"),
}

V2TB = ("Trusted: Coq kernel; hand models Model/HasherV2.v tied to hasher.py by differential execution (extracted OCaml vs the real classes; "
        "exhaustive small scopes with BLOCK_SIZE patched to 4/3/1 in the thorough tier, theorems hold for every B); Spec/Bep52.v cross-checked "
        "against the oracle's two independent BEP 52 formulations; extraction and the OCaml SHA functions for the correspondence only; OS reads.")
RCTB = ("Trusted: Coq kernel; hand models Model/Recheck.v, Model/HasherV2.v, Model/CheckPaths.v tied to recheck.py/hasher.py by differential execution of "
        "whole traces and of Checker.__init__ on real scratch directories; the step from exact integers to the reported IEEE double is PROVED "
        "(Proofs/Percent.v over Flocq's binary64 rounding: (m/c)*100 = 100 iff m = c, < 100 otherwise, for 0 < c <= 2^53) and those *_float_* theorems "
        "depend on the standard library's real-number axioms ClassicalDedekindReals.sig_not_dec, ClassicalDedekindReals.sig_forall_dec, "
        "FunctionalExtensionality.functional_extensionality_dep, Classical_Prop.classic (every other theorem is closed); CPython's correctly rounded "
        "int/int division and IEEE multiplication are trusted to implement that rounding.")
RBTB = ("Trusted: Coq kernel; hand models Model/Rebuild.v, Model/CopyPath.v, Model/PathSafe.v tied to rebuild.py / utils.copypath by differential "
        "execution; the reference verifier/encoder (harness/ref/oracle.py); OS file operations on regular files; no symbolic links; no concurrent writer.")
CLAIMED.update({
    "C02": (
        "Coq proof (merkle tree lemmas; the three v2 hashers' models equal an independent BEP 52 specification; the size decisions of the three _traverse methods REGENERATED from torrent.py equal the model's for every size) + extracted-model correspondence + oracle search",
        "Machine-checked proof, for every SHA-256 function, every block size B > 0, every piece length B*2^k and every file content of any length, that "
        "the models of HasherV2, HasherHybrid and FileHasher (one Gallina function per method of hasher.py) return exactly the BEP 52 merkle root "
        "(leaf hashes of the B-byte blocks, zero-hash padding to the next power of two, balanced tree) and exactly the piece layer restricted to the "
        "nodes that cover data (ceil(len/pl) hashes, padding omitted; a one-piece file's layer is its root), that merkle_root on 2^k hashes is the tree "
        "root and next_power_2 the least power of two.  PARTIAL at the creator level: the file-tree/piece-layers dictionary theorems of "
        "Proofs/CreatorsProofs2.v (tree mirrors disk, one layer entry per file larger than a piece, none for others) are proved about Model/Creators.v, "
        "whose tie to torrent.py is the end-to-end comparison of written metafiles with the reference oracle, not a unit correspondence.",
        V2TB, "DESIGN.md section 5 C02"),
    "C03": (
        "Coq proof (hybrid hashers: v1 inputs = file followed by zeros to the piece boundary; pad length = the gap; v2 side = BEP 52) + extracted-model correspondence + oracle search",
        "Machine-checked proof, for all hash functions, B > 0, pl = B*2^k and file contents, that HasherHybrid and FileHasher(hybrid) feed SHA-1 exactly "
        "the pl-slices of the file followed by zeros up to the next piece boundary (directory payload) or of the file alone (single-file payload), that "
        "the padding entry length is exactly that gap (none when the file ends on a boundary or is single), that the v2 root and layer of the same call "
        "are the BEP 52 values of the same bytes, and that the two hybrid hashers return identical results.  Creator level (file order, pad entries "
        "marked attr=p path .pad/<n>, pieces hash that stream, single file) proved about Model/Creators.v and searched end to end against the oracle.",
        V2TB, "DESIGN.md section 5 C03"),
    "C04": (
        "Coq proof (exactness of both checker models against a zero-fill specification; one differing digest forces matched < consumed = total) + trace correspondence + damage search",
        "Machine-checked proof, for all hash functions, layouts, piece lengths and disk states no longer than recorded, that the models of FeedChecker "
        "(v1) and HashChecker (v2/hybrid) produce, piece by piece, exactly the specification trace over the zero-filled layout, so that a single piece "
        "whose digest differs from the recorded one (visible premise piece_differs: collision resistance, not an axiom) forces matched < consumed = total, "
        "and that damage outside all-zero regions changes some zero-filled piece.  Tie: whole traces of Checker.iter_hashes vs the extracted models "
        "(every single damage of every small layout in the thorough tier); search: generated trees x 9 metafile kinds x damage sets through the library and the CLI.",
        RCTB, "DESIGN.md section 5 C04"),
    "C05": (
        "Coq proof (intact disk => every piece of both checker models verifies; FileHasher reproduces BEP 52 roots/layers) + trace correspondence + oracle search",
        "Machine-checked proof that for an intact disk state and recorded hashes equal to BEP 3 piece hashes (v1) / BEP 52 roots and layers (v2, hybrid) "
        "both checker models report matched = consumed = total > 0, for every layout (empty files anywhere), piece length and hash function; COMPOSITION "
        "(Proofs/OwnMetafiles.v): for every well-formed tree, options and piece length the metafile value written by each of the six creator models "
        "(v1, v1 --align, v2 class/assembler, hybrid class/assembler), read back through the models of Checker.__init__ / check_paths / FeedChecker / "
        "HashChecker on a disk holding that tree, gives matched = consumed = total = payload size -- the premises are discharged, not assumed (this proof "
        "found defect D39); find_root through root or parent (guard = known finding D33); the reported double is exactly 100.0 (Flocq).  Tie as C16; "
        "search: every metafile kind incl. reference-encoded v2 without info.length and hybrid without trailing pad, through payload root and parent "
        "directory, library and CLI.  Known finding D33 (parent directory named like the payload) is reported as KNOWN-FINDING.",
        RCTB, "DESIGN.md section 5 C05"),
    "C06": (
        "Coq proof (strict recogniser <-> encoder image on key-sorted values; decoders agree; edit preserves canonical form) + extracted-model correspondence vs pyben and a strict reference decoder",
        "Machine-checked proof that the executable strict recogniser canonical_bytes accepts exactly the encodings of values whose dictionaries are "
        "strictly key-sorted at every depth, that encoding is injective, that the lenient decoder (model of pyben) and the strict one agree on canonical "
        "bytes, that sort_keys yields canonical values, and that the edit model keeps a canonical metafile canonical with a sorted top level; canon and "
        "structure_ok of the value each creator model writes (all six creators, all option subsets) are proved in Proofs/CreatorsProofs2.v.  Tie: "
        "extracted bencode model vs pyben and vs the oracle's strict decoder on generated/mutated byte strings; search: written and edited metafiles "
        "(library and CLI) must pass the strict decoder and the version's structure rules.",
        "Trusted: Coq kernel; hand model of pyben 0.3.2 (dependency, not in /repo); str/bytes collapsed to raw bytes; Model/Creators.v tied end to end only.",
        "DESIGN.md section 5 C06"),
    "C07": (
        "Coq proof (frame theorems of the edit model; info value and hence info-hash unchanged; history = last writes; file round trip) + exhaustive shape-space correspondence",
        "Machine-checked proof, for every decoded metafile with the tool's layout, every request (Keep/Clear/Set per field) and every history of requests, "
        "that the model of edit_torrent changes no top-level key and no info key outside the named fields, leaves the info value (hence its encoding and "
        "both info-hashes) identical when no info field is named, makes named fields take effect, equals the last-write summary over any history, and "
        "that encode/decode round-trips the file; and, over the argparse-slice model driven by the edit option table and the commands.edit "
        "mapping REGENERATED from cli.py / commands.py, that for every argv (any flags, order, repetitions, position of the metafile) a field is Keep iff "
        "none of its flags occurs and otherwise carries exactly the last given value (certified checker edit_table_ok + generated instance; D10 "
        "refuted).  Tie: all 3^6 requests x 16 base metafiles (incl. unsorted foreign files and multi-tier announce-lists) through edit_torrent (bytes "
        "equal to the extracted model's) and the CLI; run_edit_parse (vm_compute) vs cli.execute + commands.edit on generated argv.  Known finding D11 (foreign layout) is reported as KNOWN-FINDING; C07_layout_needed shows the guard is necessary.",
        "Trusted: Coq kernel; hand models Model/Edit.v, Model/Bencode.v (pyben); str.split on ASCII whitespace; argparse mapping exercised end to end.",
        "DESIGN.md section 5 C07"),
    "C10": (
        "Coq proof (the three hasher models return identical roots, layers, v1 inputs and pad lengths for every file) + extracted-model correspondence + creator-pair comparison",
        "Machine-checked proof, for all hash functions, B > 0, pl = B*2^k and every file (the empty one included), that HasherV2, HasherHybrid and FileHasher "
        "(both modes, iterated to exhaustion as TorrentAssembler drives it) agree on root and piece layer, and the two hybrid-capable ones on v1 piece inputs "
        "and padding, and that the iterator yields what it stores; Proofs/CreatorsProofs.v proves the assembler and class-based creator models equal.  Tie: "
        "field-by-field comparison of the real classes with each other and with their extracted models; creator pairs (TorrentAssembler vs TorrentFileV2 / "
        "TorrentFileHybrid vs CLI) must write identical info dictionaries and piece layers on generated trees.",
        V2TB, "DESIGN.md section 5 C10"),
    "C13": (
        "Coq proof (piece map exactness and coverage; soundness and completeness of the candidate search) + extracted-model correspondence + scattered-rebuild search judged by a reference verifier",
        "Machine-checked proof, for every piece length > 0 and list of file lengths, that the model of Metadata._map_pieces assigns to piece i exactly the "
        "byte ranges whose concatenation is the i-th pl-slice of the concatenated files and covers every non-empty file; that the model of "
        "PieceNode._find_matches succeeds iff some choice of same-name same-size candidates hashes to the recorded digest and then copies exactly that "
        "choice; that pieces skipped by the `copied` shortcut already have their file copied; that the model of Metadata.extract / _parse_tree "
        "(Model/RebuildMeta.v, over the decoded metafile) lists exactly the files of the metafile at name :: path, in order; and that the model of the v2 "
        "route _match_v2 copies an entry iff some same-name candidate has the recorded length and the recorded BEP 52 root (first such candidate), "
        "entries being independent; WHOLE RUN on the abstract filesystem (Model/RebuildRun.v: matcher, then the copypath calls in order, a raising call "
        "ending the command): with a candidate of the recorded length and root for every entry the v2 rebuild leaves every file of the torrent at its "
        "assigned place (C13_v2_complete_on_fs), the v1 rebuild does under candidates_clean (C13_v1_complete_partial), every counted copy is present, "
        "and a batch is one run of the concatenated traces.  PARTIAL: completeness of the whole v1 run needs candidates_clean (known finding D27).  Known findings D27, D28 are "
        "reported as KNOWN-FINDING.",
        RBTB, "DESIGN.md section 5 C13"),
    "C14": (
        "Coq proof (frame, idempotence and no-shrink theorems of the copypath model on an abstract filesystem; copies only for verified choices, v1 and v2 routes; generated effect kinds of rebuild) + filesystem correspondence + snapshot search",
        "Machine-checked proof, for every abstract filesystem, source and destination, that the model of utils.copypath changes nothing but the destination "
        "and ancestor directories that did not exist (also when it raises half way), leaves a destination that is a directory or at least as long as the "
        "source untouched, never alters the source, is idempotent, and that a v1 rebuild calls copypath only with same-name same-size candidates of a "
        "choice whose bytes hash to the recorded digest, never on a failed search; that the v2 route copies only candidates of the recorded length whose "
        "BEP 52 root equals the recorded root, to the path the metafile assigns, inside the destination; and (instance on the call graph regenerated from "
        "the package) that everything reachable from the rebuild command has only Read, Mkdir and Copy effects; WHOLE RUN (Model/RebuildRun.v): every "
        "path a v1 / v2 / batch rebuild changes is the assigned place of a listed entry now holding the bytes of a verified same-name candidate of the "
        "recorded length (over nothing or a strictly shorter file) or a new directory on the way to one; candidates and everything outside the "
        "destination keep their bytes when the destination is disjoint from the search directories; a destination file of at least the recorded length "
        "is never altered; a second identical rebuild changes nothing.  Tie: copypath on real small filesystems "
        "vs the extracted model (state of every path), match_v1 / match_v2 call sequences, Metadata(...) vs the extracted extract model; search: full snapshots of search roots, metafiles and pre-populated destinations, repeated rebuilds.",
        RBTB + " sys.addaudithook reports every mutation Python code performs (cross-checked against snapshots each run).", "DESIGN.md section 5 C14"),
    "C16": (
        "Coq proof (both checker models = zero-fill specification trace; matched/consumed are the exact sums; locality; the percentage expression REGENERATED from recheck.py evaluates in binary64 to the proved formula) + whole-trace correspondence + reference verifier",
        "Machine-checked proof, for all hash functions, layouts, piece lengths and disk states within the recorded lengths, that FeedChecker's and "
        "HashChecker's models yield exactly one entry per recorded piece with the specification's digest and size (full pieces pl, last piece the "
        "remainder; per file for v2), that Checker.iter_hashes' matched and consumed are the sums of matching and of all sizes, consumed = total, the "
        "result is their ratio, 100 iff every piece verifies, and that a piece's verdict depends only on its own byte range.  Tie: every trace entry and "
        "the returned float vs the extracted models (every single damage of every small layout in the thorough tier); search: the reference verifier's "
        "matched/total on generated trees, 9 metafile kinds, multi-damage sets.",
        RCTB, "DESIGN.md section 5 C16"),
    "C19": (
        "Coq proof (lexical resolution of validated components stays under the destination; validator = forall safe_comp; the element test REGENERATED from rebuild.py is safe_comp: certified table checker + generated instance) + extracted-model correspondence + hostile-metafile search",
        "Machine-checked proof that for every destination and every list of path elements accepted by the model of Metadata._check_parts (not '', '.', "
        "'..', no separator, no NUL) the lexically resolved target is the destination extended by exactly those elements, hence inside it; that a list "
        "with any unsafe element is refused before anything is written; that the model of Metadata.extract / _parse_tree (Model/RebuildMeta.v) validates "
        "the name, EVERY element of every v1 path whatever other keys the entry carries, and EVERY key of the v2 file tree at every depth, so that every "
        "copy target of an accepted metafile lies inside the destination; and that without the validator the statement is false (witness).  The element "
        "test itself is read from the source on every run (gen/gen_pathcheck.py -> Gen/GenPathCheck.v: refused strings and characters, str required, plain "
        "function looping over its whole argument, every call a statement on a bare name or one-element list) and proved equal to safe_comp for EVERY string.  Tie: "
        "_check_parts vs safe_comp, normpath(join) vs resolve and Metadata(...) vs the extracted extract model (refusal <-> none, entries) on all generated "
        "sequences and shapes; search: all hostile sequences of <= 3 (quick) / 4 (thorough) "
        "elements in v1 paths, v2 tree keys and names with matching candidates present, snapshotting everything outside the destination.",
        RBTB + " Lexical resolution only: symbolic links already inside the destination are outside the theorem.", "DESIGN.md section 5 C19"),
    "C11": (
        "Coq proof (magnet model: hash input is the raw info span; xt table; quote_plus/unquote_plus round trip and separator-freeness; parameter round trip) + extracted-model correspondence + URL-parser search",
        "Machine-checked proof, for every metafile value with duplicate-free keys and for arbitrary hex-digest functions, that the bytes the magnet model "
        "hashes are exactly the encoding of the info value, which occurs verbatim as a span of the file; that the xt parameters follow the v1/v2/hybrid x "
        "requested-version table; that unquote_plus (quote_plus s) = s for every byte string and quote_plus emits none of & = # space ? / :; and that the "
        "query of the produced URI parses back to exactly the xt values, the name, every tracker URL in order (flattened announce-list, else announce) and "
        "every web seed in order (list or single string).  Tie: urllib quote_plus/unquote vs the extracted functions on all single bytes, all %XY triples "
        "and random strings; commands.magnet vs the extracted model for versions 0..3 on created, edited and reference-encoded metafiles with arbitrary "
        "key sets; search: URIs (library, get_magnet, CLI) parsed with urllib and compared with hashlib digests of the raw info span located by a strict decoder.",
        "Trusted: Coq kernel; hand models Model/Magnet.v, Model/Uri.v (urllib.parse.quote_plus is standard library: modelled and compared, not verified), "
        "Model/Bencode.v (pyben); str/bytes collapsed to raw bytes; SHA-1/SHA-256 arbitrary in the theorems, hashlib in the search.",
        "DESIGN.md section 5 C11"),
    "C20": (
        "Coq proof (argparse-slice parser over the generated option table; config route; keyword route; landing fields; certified route-table checker with generated instance) + vm_compute correspondence + three-route search",
        "Machine-checked proof, for EVERY option record over the ten documented create options (all values satisfying visible side conditions: no value "
        "begins with '-', URLs are not existing paths, the content path exists), every subset, every documented flag spelling, every order of the flags and "
        "every position of the content path -- including the positions where a list-valued flag swallows it and MetaFile.__init__ must recover it -- that the "
        "model of the argparse slice driven by the table a translator regenerates from cli.py, followed by the model of MetaFile.__init__, yields exactly the "
        "parameters of the record and the documented creator class; the same for the configuration route (cfg_route regenerated from "
        "commands.parse_config_file, applied to the pairs ConfigParser delivers) and the keyword route; that each parameter lands in its documented metafile "
        "field; and soundness of the executable checker route_table_ok with its instance on the generated tables by vm_compute (a renamed dest, a config key "
        "stored under another keyword, a dropped recovery branch, a changed dispatch literal or interpolation setting make it false).  Tie: generated tables vs "
        "introspection of the real parser and inspect.signature; run_parse / run_cfg / run_init / run_dispatch (vm_compute) vs parse_args, commands.create and "
        "MetaFile.__init__ on generated inputs; search: three routes in fresh interpreters, strict decode, byte equality minus creation date, per-field landing.",
        "Trusted: Coq kernel + vm_compute; translator gen/gen_cli.py (checked dynamically every run); hand model of the argparse slice (exact flags, store, "
        "store_true, nargs='+', one optional positional; abbreviations and --flag=value only exercised end to end); ConfigParser's reading of the ini text is not "
        "modelled (the theorem starts from the (key, value) pairs); the documented option table as transcribed in Model/Routes.v and harness/props/c20.py.",
        "DESIGN.md section 5 C20"),
    "C08": (
        "Coq proof (enumeration-order, outer-option, clock, location and path-spelling irrelevance of the creator models and of a lexical model of posixpath/pathlib; fail-closed static reading of the package REGENERATED every run: no set iteration and no unsorted listing on the creation path can reach an output) + extracted-model byte correspondence under controlled enumeration + metamorphic search",
        "Machine-checked proof, for all hash functions, trees (any enumeration order of every directory: node_perm), options and piece lengths, that each of "
        "the four creator models writes the same value whatever the enumeration order; that the info dictionary does not depend on trackers, web seeds, "
        "http seeds, creation date or created-by and the rest of the file differs at most in those top-level keys (two runs differ only in the creation "
        "date); that the v1 creator's result does not depend on the root path string; and, over an executable lexical model of os.path.normpath / abspath / "
        "relpath / basename and pathlib (Spec/PathSem.v), that every spelling of the same location (relative/absolute, '.' segments anywhere, doubled and "
        "trailing separators, x/.. detours; inductive relation same_location) gives the same abspath, the same torrent name and the same recorded path "
        "components for every file below it.  Tie: the bytes each real creator writes vs encode(create_X) of the extracted model with the directory "
        "enumeration order, clock, cwd and spelling controlled by runner-side patches; PathSem functions vs posixpath/pathlib on generated strings; "
        "search: raw info span and whole file minus creation date across permutations, spellings, working directories, copies, tracker/seed/outfile/"
        "progress/quiet settings and clock values, library and CLI.",
        "Trusted: Coq kernel; hand models Model/Creators.v and Spec/PathSem.v (POSIX flavour, lexical: no symbolic links) tied by differential execution; "
        "os.listdir/os.scandir patching reproduces every enumeration order the OS could produce; outfile/progress/quiet are not inputs of the creator models "
        "(exercised end to end only).",
        "DESIGN.md section 5 C08"),
})

PENDING = {}


def main():
    props = [json.loads(l)["id"] for l in open(os.path.join(VERIF, "properties.jsonl"))]
    checks = []
    for pid in props:
        if pid not in CLAIMED or not os.path.exists(os.path.join(VERIF, "harness", "props", pid.lower() + ".py")):
            continue
        tech, text, note, ref = CLAIMED[pid]
        checks.append({
            "property_id": pid,
            "quick_cmd": f"./check {pid} --tier quick",
            "thorough_cmd": f"./check {pid} --tier thorough",
            "evidence_file": f"/verif/evidence/{pid}.json",
            "replay_cmd_template": f"./check {pid} --replay {{path}}",
            "engine": "coq-proof+correspondence",
            "level_claimed": {"category": "proof", "text": text, "design_ref": ref},
            "level_note": note,
            "technique": tech,
        })
    man = {
        "version": 1,
        "setup_cmd": "./check --setup",
        "hooks": {
            "guard": "TORRENTFILE_VERIF",
            "enable": "no source hooks exist: the checks drive /repo through its public Python interface and observe it with "
                      "sys.addaudithook and runner-side patching (os.listdir order, clock, fault injection); TORRENTFILE_VERIF=1 is exported "
                      "by the harness but nothing in /repo reads it",
            "baseline_off_cmd": "cd /repo && /venv/bin/python -m pytest -ra -q -p no:cacheprovider --timeout=900 --continue-on-collection-errors",
            "source_commits": [],
            "add_only": True,
        },
        "engines": [{
            "name": "coq-proof+correspondence",
            "path": "/verif/check",
            "serves_properties": [c["property_id"] for c in checks],
            "kind_free_text": "Coq 8.16.1 theorems over models of the code (coq/), tied to /repo on every run by translators "
                              "(gen/, regenerating coq/Gen) and by differential execution of the models (vm_compute / extracted OCaml) "
                              "against the implementation; an independent reference oracle (harness/ref) searches for concrete failing inputs",
        }],
        "checks": checks,
        "notes": "Fix commits in /repo (unguarded, 'fix:') and known findings are listed in /verif/known_findings.json and DESIGN.md section 6.",
        "not_applicable": [{"property_id": p, "reason": PENDING.get(p, "check not built yet")} for p in props if p not in [c["property_id"] for c in checks]],
    }
    with open(os.path.join(VERIF, "MANIFEST.json"), "w") as fd:
        json.dump(man, fd, indent=1)
    return man


if __name__ == "__main__":
    m = main()
    print("claimed:", [c["property_id"] for c in m["checks"]])
