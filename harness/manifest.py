"""Regenerates /verif/MANIFEST.json from the table below (run: python3 harness/manifest.py)."""
import json
import os

VERIF = os.path.dirname(os.path.dirname(os.path.abspath(__file__)))

# id -> (technique, level text, level note, design ref)
CLAIMED = {
    "C12": (
        "Coq proof over a model regenerated from utils.py by an ast translator; vm_compute correspondence",
        "Machine-checked proof (Coq 8.16.1, closed under the global context) about the Gallina functions that a fail-closed "
        "Python-ast translator regenerates from torrentfile/utils.py on every run: normalize_piece_length accepts exactly the powers of "
        "two >= 16 KiB and the exponents 14..25 (26..29 either way), rejects everything else with PieceLengthValueError for every integer "
        "and for every behaviour of str.isnumeric/int(); get_piece_length is a power of two in 2^14..2^24 and monotone for every size. "
        "The generated functions are compared with the real ones by vm_compute on ~72k inputs per run and the implementation is "
        "searched against the property's own rule through the library, the CLI flag and the config key.",
        "Trusted: Coq kernel + vm_compute; the translator (checked dynamically each run); a/b>c rewritten to a>c*b (argued exact); "
        "argparse/configparser deliver the value as str (exercised end to end, not modelled).",
        "DESIGN.md section 5 C12"),
    "C01": (
        "Coq proof (cursor invariant of the Hasher iterator) + extracted-model correspondence + reference-oracle search",
        "Machine-checked proof, for every SHA-1 function, every list of files (any sizes, empty files anywhere, pieces straddling any "
        "number of files) and every piece length > 0, that the hand-written state-machine model of hasher.Hasher feeds exactly the "
        "successive piece-length slices of the concatenated files to the hash (only the last may be short), that the entry list has one "
        "non-padding entry per file, and that a single file is hashed alone.  The model is tied to the code on every run by running its "
        "extracted OCaml against the real iterator (small scope exhaustively in the thorough tier) and the written metafiles are "
        "compared with an independent BEP 3 reference on generated trees.",
        "Trusted: Coq kernel; extraction (ExtrOcamlBasic/String) and the OCaml SHA-1 for the correspondence only; the hand model's tie is "
        "differential testing; directory listing and file reads by the OS; listing order (sorted) is exercised end to end here and proved in C08.",
        "DESIGN.md section 5 C01"),
    "C15": (
        "Coq proof (align mode of the Hasher model and of the entry list) + extracted-model correspondence + oracle search",
        "Machine-checked proof, for every hash function, file list and piece length, that in align mode the model of Hasher hashes the "
        "stream in which each file is followed by zeros up to the next piece boundary, that the entry list of TorrentFile.assemble "
        "describes exactly that stream (each pad entry = the gap, 0 < gap < pl, after its file), that every payload file starts on a "
        "boundary, that listed lengths = pieces * piece length, and that a single file is hashed alone.  Tied to the code by extracted-model "
        "correspondence (Hasher(align=True), info.files) and searched end to end against the property on generated trees.",
        "Trusted: as C01.",
        "DESIGN.md section 5 C15"),
    "C17": (
        "Coq-certified checker (safe_ops_sound, by induction over operation lists) applied by vm_compute to the operation list "
        "regenerated from edit.py; event-trace correspondence; exhaustive real fault injection",
        "Machine-checked proof that EVERY operation list accepted by the executable checker safe_ops leaves, at every kill point "
        "(between operations, inside the buffered write at any byte count, during clean-up) and after every raised error, either the "
        "complete original or the complete edited metafile at the metafile path, plus the instance safe_ops(edit_fs_ops)=true for the "
        "list a translator regenerates from edit_torrent on every run (anything it cannot classify is Unknown and rejected).  The "
        "generated list is compared with the filesystem events of a real edit, and real faults (raise/kill at every operation, short "
        "writes, RLIMIT_FSIZE, unencodable values) are injected exhaustively per (metafile, request).",
        "Trusted: Coq kernel; the crash semantics in Spec/FsOps.v; the translator (checked against observed traces); rename(2) atomicity; "
        "no durability claim across power loss (no fsync).",
        "DESIGN.md section 5 C17"),
    "C18": (
        "Coq-certified reachability/effect checkers (closed_sound, readonly_cmd_sound) applied by vm_compute to the call graph and "
        "effect summary regenerated from the package; small operational models of the probe and of rename; audit-hook traces; snapshots",
        "Machine-checked proof that whenever the executable checker accepts a (call graph, effect summary, roots) triple, every execution "
        "that stays within the summary leaves every path unchanged; instances by computation for recheck, info and magnet on the "
        "over-approximate call graph a translator regenerates from torrentfile/*.py on every run; proof that the writability probe "
        "(op list regenerated from check_path_writable) restores its path in every case so that create changes exactly the output path; "
        "proof that rename (op list regenerated from commands.rename) refuses without effect when the new name exists and otherwise moves "
        "the same bytes and touches nothing else.  Tie: audited filesystem events of real runs must be of predicted kinds; search: full "
        "recursive snapshots around every command spelling, version, intact/damaged tree and output variant.",
        "Trusted: Coq kernel; the translators' over-approximation (name-based call resolution; validated dynamically, not proved); "
        "standard-library effects beyond the audited primitives; no concurrent processes.",
        "DESIGN.md section 5 C18"),
    "C09": (
        "Coq non-interference theorem (induction over histories) + instance check_flows by vm_compute on state-cell summaries "
        "regenerated from the package; history differential against fresh interpreters",
        "Machine-checked proof that for any semantics respecting a summary accepted by the executable checker check_flows (no "
        "process-lifetime cell that may flow into a result is written by any operation) every history of operations, of any length and "
        "interleaving, yields step by step exactly the results of fresh processes; instance by computation on the cells (memo caches = "
        "decorated functions, module-level mutables, class-level attributes, mutable default arguments, function attributes, os.environ) "
        "and per-operation read/write/flow sets that a translator regenerates from torrentfile/*.py on every run.  PARTIAL: the theorem "
        "shows no hidden channel among the channels the translator can see; the search runs random and aimed histories (create / file "
        "add, delete, grow, shrink, rewrite / edit / recheck / rebuild / magnet / info) in one interpreter against a fresh interpreter "
        "per step on the same filesystem state.",
        "Trusted: Coq kernel; soundness of the syntactic read/write/flow extraction (the weakest link; not proved); stdout/stderr rebinding "
        "and logging declared benign; Python offers other channels (monkey-patching, sys.modules) that only the differential looks for.",
        "DESIGN.md section 5 C09"),
}

PENDING_REASON = "check not built yet (work in progress; see DESIGN.md section 9)"


def main():
    props = [json.loads(l)["id"] for l in open(os.path.join(VERIF, "properties.jsonl"))]
    checks = []
    for pid in props:
        if pid not in CLAIMED or not os.path.exists(os.path.join(VERIF, "harness", "props", pid.lower() + ".py")):
            continue
        tech, text, note, ref = CLAIMED[pid]
        checks.append({
            "property_id": pid,
            "quick_cmd": f"./check {pid} --tier quick",
            "thorough_cmd": f"./check {pid} --tier thorough",
            "evidence_file": f"/verif/evidence/{pid}.json",
            "replay_cmd_template": f"./check {pid} --replay {{path}}",
            "engine": "coq-proof+correspondence",
            "level_claimed": {"category": "proof", "text": text, "design_ref": ref},
            "level_note": note,
            "technique": tech,
        })
    man = {
        "version": 1,
        "setup_cmd": "./check --setup",
        "hooks": {
            "guard": "TORRENTFILE_VERIF",
            "enable": "no source hooks exist: the checks drive /repo through its public Python interface and observe it with "
                      "sys.addaudithook and runner-side patching (os.listdir order, clock, fault injection); TORRENTFILE_VERIF=1 is exported "
                      "by the harness but nothing in /repo reads it",
            "baseline_off_cmd": "cd /repo && /venv/bin/python -m pytest -ra -q -p no:cacheprovider --timeout=900 --continue-on-collection-errors",
            "source_commits": [],
            "add_only": True,
        },
        "engines": [{
            "name": "coq-proof+correspondence",
            "path": "/verif/check",
            "serves_properties": [c["property_id"] for c in checks],
            "kind_free_text": "Coq 8.16.1 theorems over models of the code (coq/), tied to /repo on every run by translators "
                              "(gen/, regenerating coq/Gen) and by differential execution of the models (vm_compute / extracted OCaml) "
                              "against the implementation; an independent reference oracle (harness/ref) searches for concrete failing inputs",
        }],
        "checks": checks,
        "notes": "Fix commits in /repo (unguarded, 'fix:') and known findings are listed in /verif/known_findings.json and DESIGN.md section 6.",
        "not_applicable": [{"property_id": p, "reason": PENDING_REASON} for p in props if p not in [c["property_id"] for c in checks]],
    }
    with open(os.path.join(VERIF, "MANIFEST.json"), "w") as fd:
        json.dump(man, fd, indent=1)
    return man


if __name__ == "__main__":
    m = main()
    print("claimed:", [c["property_id"] for c in m["checks"]])
