#!/venv/bin/python
"""
Pinned reproducers for the defects of DESIGN.md section 6 (D1..D34).

Each probe builds its input in a scratch directory, runs the real
implementation (imported from $PYTHONPATH, normally /repo) and returns a pair
(defect_present: bool, detail: str).  They are the regression corpus: every
check replays the probes of its property first, and a probe that reports the
defect again is a violation (or a KNOWN-FINDING if listed as such).

usage: repro.py [D1 D2 ...]   prints  "<id> PRESENT|absent <detail>" per probe
"""
import os
import sys
import io
import json
import shutil
import hashlib
import tempfile
import contextlib

PL = 16384


def _quiet(fn, *a, **k):
    out = io.StringIO()
    with contextlib.redirect_stdout(out), contextlib.redirect_stderr(out):
        return fn(*a, **k)


def _clear_cache():
    from torrentfile import utils
    cache = getattr(utils.filelist_total, "cache", None)
    if cache is not None:
        cache.clear()


def _mk(root, files):
    """files: dict relpath -> bytes|int(size, pseudo-random content)."""
    for rel, data in files.items():
        p = os.path.join(root, rel)
        os.makedirs(os.path.dirname(p), exist_ok=True)
        if isinstance(data, int):
            data = _rand(data, rel)
        with open(p, "wb") as fd:
            fd.write(data)


def _rand(n, seed="x"):
    out = bytearray()
    ctr = 0
    while len(out) < n:
        out += hashlib.sha256(f"{seed}:{ctr}".encode()).digest()
        ctr += 1
    return bytes(out[:n])


def _create(cls_name, path, out, **kw):
    from torrentfile import torrent
    _clear_cache()
    cls = getattr(torrent, cls_name)
    t = _quiet(cls, path=path, outfile=out, progress=0, **kw)
    _quiet(t.write)
    import pyben
    return pyben.load(out)


def _recheck(meta, content):
    from torrentfile.recheck import Checker
    _clear_cache()
    c = _quiet(Checker, meta, content)
    return _quiet(c.results)


# ---------------------------------------------------------------- C12
def D1(tmp):
    from torrentfile.utils import normalize_piece_length
    try:
        r = normalize_piece_length(16385)
        return True, f"normalize_piece_length(16385) returned {r}"
    except Exception as e:  # noqa
        return False, type(e).__name__


def D2(tmp):
    from torrentfile.utils import normalize_piece_length
    try:
        r = normalize_piece_length(32)
        return True, f"normalize_piece_length(32) returned {r}"
    except Exception as e:  # noqa
        return False, type(e).__name__


def D3(tmp):
    from torrentfile.utils import normalize_piece_length, PieceLengthValueError
    try:
        normalize_piece_length("²")
        return True, "accepted"
    except PieceLengthValueError:
        return False, "PieceLengthValueError"
    except Exception as e:  # noqa
        return True, f"raised {type(e).__name__}"


# ---------------------------------------------------------------- C15
def D4(tmp):
    d = os.path.join(tmp, "t")
    _mk(d, {"a": PL + 100, "b": 5})
    m = _create("TorrentFile", d, os.path.join(tmp, "o.torrent"),
                piece_length=PL, align=True)
    pad = m["info"]["files"][1]
    ok = pad.get("attr") == "p" and pad["length"] == PL - 100
    return (not ok), f"pad after file of pl+100 has length {pad['length']}"


def D5(tmp):
    d = os.path.join(tmp, "t")
    _mk(d, {"a": b"", "b": 5})
    m = _create("TorrentFile", d, os.path.join(tmp, "o.torrent"),
                piece_length=PL, align=True)
    files = m["info"]["files"]
    listed = sum(f["length"] for f in files)
    npieces = len(m["info"]["pieces"]) // 20
    need = -(-listed // PL)
    return need != npieces, f"listed lengths need {need} pieces, {npieces} recorded"


def D6(tmp):
    f = os.path.join(tmp, "single.bin")
    _mk(tmp, {"single.bin": PL + 100})
    m = _create("TorrentFile", f, os.path.join(tmp, "o.torrent"),
                piece_length=PL, align=True)
    data = open(f, "rb").read()
    exp = b"".join(hashlib.sha1(data[i:i + PL]).digest()
                   for i in range(0, len(data), PL))
    return bytes(m["info"]["pieces"]) != exp, "single file + align: pieces != BEP3 of the file alone"


# ---------------------------------------------------------------- C03
def _d7(tmp, cls, **kw):
    f = os.path.join(tmp, "single.bin")
    _mk(tmp, {"single.bin": PL + 100})
    m = _create(cls, f, os.path.join(tmp, "o.torrent"), piece_length=PL, **kw)
    data = open(f, "rb").read()
    exp = b"".join(hashlib.sha1(data[i:i + PL]).digest()
                   for i in range(0, len(data), PL))
    return bytes(m["info"]["pieces"]) != exp, f"{cls}: single-file hybrid v1 pieces != BEP3 of the file with its declared length"


def D7(tmp):
    a = _d7(os.path.join(tmp, "1"), "TorrentFileHybrid")
    b = _d7(os.path.join(tmp, "2"), "TorrentAssembler", meta_version="3")
    return (a[0] or b[0]), (a[1] if a[0] else b[1])


# ---------------------------------------------------------------- C06
def D8(tmp):
    d = os.path.join(tmp, "t")
    _mk(d, {f"f{i}": 2 * PL + i for i in range(6)})
    bad = []
    for cls, kw in (("TorrentFileV2", {}), ("TorrentFileHybrid", {}),
                    ("TorrentAssembler", {"meta_version": "2"})):
        m = _create(cls, d, os.path.join(tmp, "o.torrent"), piece_length=PL, **kw)
        keys = list(m["piece layers"].keys())
        if keys != sorted(keys):
            bad.append(cls)
    return bool(bad), f"piece layers keys unsorted for {bad}"


def D9(tmp):
    from torrentfile.edit import edit_torrent
    import pyben
    d = os.path.join(tmp, "t")
    _mk(d, {"a": 10})
    out = os.path.join(tmp, "o.torrent")
    _create("TorrentFile", d, out, piece_length=PL)
    _quiet(edit_torrent, out, {"announce": "http://x/a", "private": "1"})
    m = pyben.load(out)
    k1, k2 = list(m.keys()), list(m["info"].keys())
    return (k1 != sorted(k1) or k2 != sorted(k2)), f"after edit: top keys {k1}, info keys {k2}"


# ---------------------------------------------------------------- C07
def D10(tmp):
    from torrentfile.cli import execute
    import pyben
    d = os.path.join(tmp, "t")
    _mk(d, {"a": 10})
    out = os.path.join(tmp, "o.torrent")
    _create("TorrentFile", d, out, piece_length=PL)
    before = pyben.load(out)["info"]
    _quiet(execute, ["edit", out, "--tracker", "http://x/a"])
    after = pyben.load(out)["info"]
    return before != after, f"edit --tracker changed info: private={after.get('private')}"


def D11(tmp):
    from torrentfile.edit import edit_torrent
    import pyben
    out = os.path.join(tmp, "o.torrent")
    meta = {"comment": "top", "info": {"comment": "inner", "length": 1,
                                       "name": "a", "piece length": PL,
                                       "pieces": b"x" * 20}}
    pyben.dump(meta, out)
    _quiet(edit_torrent, out, {"comment": ""})
    m = pyben.load(out)
    return ("comment" not in m and "comment" in m["info"]), \
        "Clear comment removed the foreign top-level 'comment', kept info.comment"


def D42(tmp):
    from torrentfile.cli import execute
    import pyben
    out = os.path.join(tmp, "o.torrent")
    meta = {"announce": "http://t/a", "info": {"comment": "before", "length": 1, "name": "a", "piece length": PL,
                                              "pieces": b"x" * 20}}
    pyben.dump(meta, out)
    _quiet(execute, ["edit", out, "--comment=--"])
    got = pyben.load(out)["info"].get("comment")
    return got != "--", f"edit --comment=-- wrote comment = {got!r} (the value '--' is eaten by argparse)"


# ---------------------------------------------------------------- C08
def D12(tmp):
    d = os.path.join(tmp, "payload")
    _mk(d, {"a": 10})
    m1 = _create("TorrentFile", d, os.path.join(tmp, "o1.torrent"), piece_length=PL)
    m2 = _create("TorrentFile", d + os.sep + ".", os.path.join(tmp, "o2.torrent"),
                 piece_length=PL)
    return m1["info"]["name"] != m2["info"]["name"], \
        f"name {m1['info']['name']!r} vs {m2['info']['name']!r} for 'dir/.'"


# ---------------------------------------------------------------- C09
def D13(tmp):
    from torrentfile import torrent
    d = os.path.join(tmp, "t")
    _mk(d, {"a": 10})
    out = os.path.join(tmp, "o.torrent")
    import pyben
    # NB: no cache clearing between the two creates: that is the point
    _quiet(lambda: torrent.TorrentFile(path=d, outfile=out, progress=0,
                                       piece_length=PL).write())
    _mk(d, {"b": 10})
    _quiet(lambda: torrent.TorrentFile(path=d, outfile=out, progress=0,
                                       piece_length=PL).write())
    m = pyben.load(out)
    n = len(m["info"]["files"])
    return n != 2, f"second create after adding a file lists {n} file(s)"


# ---------------------------------------------------------------- C11
def D14(tmp):
    from torrentfile.commands import magnet
    import pyben
    out = os.path.join(tmp, "o.torrent")
    meta = {"info": {"length": 1, "name": "a", "piece length": PL,
                     "pieces": b"x" * 20}, "url-list": "http://w/s"}
    pyben.dump(meta, out)
    uri = _quiet(magnet, out)
    return uri.count("&ws=") != 1, f"string url-list gives {uri.count('&ws=')} ws parameters"


# ---------------------------------------------------------------- C17
def D15(tmp):
    from torrentfile.edit import edit_torrent
    d = os.path.join(tmp, "t")
    _mk(d, {"a": 10})
    out = os.path.join(tmp, "o.torrent")
    _create("TorrentFile", d, out, piece_length=PL)
    before = open(out, "rb").read()
    try:
        _quiet(edit_torrent, out, {"comment": 1.5})
    except Exception:  # noqa
        pass
    now = open(out, "rb").read() if os.path.exists(out) else None
    return now != before, "unencodable value: metafile " + ("missing" if now is None else "changed/truncated" if now != before else "intact")


# ---------------------------------------------------------------- C19
def D16(tmp):
    from torrentfile.rebuild import Assembler
    import pyben
    sb = os.path.join(tmp, "sandbox")
    src = os.path.join(sb, "search")
    dest = os.path.join(sb, "a", "b", "dest")
    os.makedirs(dest)
    data = _rand(100, "evil")
    _mk(src, {"evil.txt": data})
    meta = {"info": {"name": "n", "piece length": PL,
                     "files": [{"length": 100,
                                "path": ["..", "..", "escaped", "evil.txt"]}],
                     "pieces": hashlib.sha1(data).digest()}}
    mf = os.path.join(sb, "m.torrent")
    pyben.dump(meta, mf)
    try:
        _quiet(lambda: Assembler([mf], [src], dest).assemble_torrents())
    except Exception:  # noqa
        pass
    esc = os.path.exists(os.path.join(sb, "a", "b", "escaped", "evil.txt")) or \
        os.path.exists(os.path.join(sb, "a", "escaped", "evil.txt"))
    return esc, "'..' components wrote outside the destination" if esc else "nothing outside dest"


# ---------------------------------------------------------------- C20
def _cfg_create(tmp, ini_body, extra=()):
    from torrentfile.cli import execute
    import pyben
    d = os.path.join(tmp, "t")
    _mk(d, {"a": 10})
    ini = os.path.join(tmp, "torrentfile.ini")
    with open(ini, "w", encoding="utf-8") as fd:
        fd.write("[config]\n" + ini_body)
    cwd = os.getcwd()
    wd = os.path.join(tmp, "wd")
    os.makedirs(wd, exist_ok=True)
    os.chdir(wd)
    try:
        _clear_cache()
        ns = _quiet(execute, ["create", "--config", "--config-path", ini, *extra, d])
        return pyben.load(ns.outfile), ns.outfile
    finally:
        os.chdir(cwd)


def D17(tmp):
    m, _ = _cfg_create(tmp, "web-seed = http://w/1\n", ["-o", os.path.join(tmp, "o.torrent")])
    return m.get("url-list") != ["http://w/1"], f"config web-seed -> url-list={m.get('url-list')}"


def D18(tmp):
    want = os.path.join(tmp, "viacfg.torrent")
    _, out = _cfg_create(tmp, f"out = {want}\n")
    return os.path.abspath(out) != os.path.abspath(want), f"config out ignored: wrote {out}"


def D19(tmp):
    try:
        m, _ = _cfg_create(tmp, "announce = http://t/a%20b\n", ["-o", os.path.join(tmp, "o.torrent")])
        return m.get("announce") != "http://t/a%20b", f"announce={m.get('announce')}"
    except Exception as e:  # noqa
        return True, f"config value with %: {type(e).__name__}"


def D20(tmp):
    out = os.path.join(tmp, "o.torrent")
    try:
        m, _ = _cfg_create(tmp, "comment = true\n", ["-o", out])
    except Exception as e:  # noqa
        return True, f"comment = true: {type(e).__name__}"
    raw = open(out, "rb").read()
    return (b"iTruee" in raw or m["info"].get("comment") != "true"), \
        f"comment = true encoded as {m['info'].get('comment')!r}"


def D21(tmp):
    d = os.path.join(tmp, "t")
    _mk(d, {"a": 10, "b": 10})
    m = _create("TorrentAssembler", d, os.path.join(tmp, "o.torrent"),
                piece_length=PL, meta_version=3)
    return "pieces" not in m["info"], "meta_version=3 (int) produced no v1 pieces"


# ---------------------------------------------------------------- C13
def _rebuild(tmp, files, cls, kw, scatter=None, pl=PL):
    from torrentfile.rebuild import Assembler
    d = os.path.join(tmp, "orig", "payload")
    _mk(d, files)
    mf = os.path.join(tmp, "m.torrent")
    _create(cls, d, mf, piece_length=pl, **kw)
    src = os.path.join(tmp, "search")
    if scatter is None:
        shutil.copytree(d, os.path.join(src, "x", "payload"))
    else:
        scatter(d, src)
    dest = os.path.join(tmp, "dest")
    os.makedirs(dest)
    n = _quiet(lambda: Assembler([mf], [src], dest).assemble_torrents())
    missing = [rel for rel, dat in files.items()
               if (dat if isinstance(dat, int) else len(dat)) > 0
               and not _same(os.path.join(d, rel), os.path.join(dest, "payload", rel))]
    return n, missing


def _same(a, b):
    return os.path.exists(b) and open(a, "rb").read() == open(b, "rb").read()


def D22(tmp):
    n, missing = _rebuild(tmp, {"a": 100, "s/b": PL + 1}, "TorrentFileV2", {})
    return bool(missing), f"v2 rebuild counted {n}, missing {missing}"


def D23(tmp):
    try:
        n, missing = _rebuild(tmp, {"a": 100, "e": b""}, "TorrentFileV2", {})
        return bool(missing), f"missing {missing}"
    except KeyError as e:
        return True, f"KeyError {e} on empty file"


def D24(tmp):
    n, missing = _rebuild(tmp, {"a": PL, "b": 100, "c": 7}, "TorrentFile", {})
    return bool(missing), f"v1 rebuild, file ends on piece boundary: missing {missing}"


def D25(tmp):
    def scatter(d, src):
        # a same-size wrong decoy is enumerated first (name sorts first in the
        # directory listing order used by the runner: we create both orders)
        for sub, good in (("1", False), ("2", True)):
            p = os.path.join(src, sub)
            os.makedirs(p)
            if good:
                shutil.copy(os.path.join(d, "a"), os.path.join(p, "a"))
            else:
                with open(os.path.join(p, "a"), "wb") as fd:
                    fd.write(_rand(100, "decoy"))
    import os as _os
    real = _os.listdir
    _os.listdir = lambda p=".": sorted(real(p))
    try:
        n, missing = _rebuild(tmp, {"a": 100}, "TorrentFile", {}, scatter)
    finally:
        _os.listdir = real
    return bool(missing), f"wrong same-size candidate first: missing {missing}"


def D26(tmp):
    n, missing = _rebuild(tmp, {"d/a": PL, "d/b": PL, "d/c": PL}, "TorrentFile", {})
    return bool(missing), f"siblings in one directory: missing {missing}"


# ---------------------------------------------------------------- C04/C05/C16
def D29(tmp):
    d = os.path.join(tmp, "payload")
    _mk(d, {"a": 100, "z": b""})
    mf = os.path.join(tmp, "m.torrent")
    _create("TorrentFile", d, mf, piece_length=PL)
    r = _recheck(mf, d)
    return r != 100, f"intact v1 tree with empty last file reports {r}"


def D30(tmp):
    d = os.path.join(tmp, "payload")
    _mk(d, {"a": PL, "b": PL, "c": PL})
    mf = os.path.join(tmp, "m.torrent")
    _create("TorrentFile", d, mf, piece_length=PL)
    os.remove(os.path.join(d, "b"))
    r = _recheck(mf, d)
    return abs(r - 200 / 3) > 1e-9, f"one of three one-piece files absent reports {r}"


def D31(tmp):
    d = os.path.join(tmp, "payload")
    _mk(d, {"a": 100, "b": b"", "c": 100})
    mf = os.path.join(tmp, "m.torrent")
    _create("TorrentFileV2", d, mf, piece_length=PL)
    with open(os.path.join(d, "c"), "r+b") as fd:
        fd.write(b"\xff" if open(os.path.join(d, "c"), "rb").read(1) != b"\xff" else b"\x00")
    r = _recheck(mf, d)
    return r == 100, f"v2: damage after an empty file reports {r}"


def D32(tmp):
    import pyben
    f = os.path.join(tmp, "single.bin")
    _mk(tmp, {"single.bin": 100})
    mf = os.path.join(tmp, "m.torrent")
    m = _create("TorrentFileV2", f, mf, piece_length=PL)
    del m["info"]["length"]
    pyben.dump(m, mf)
    try:
        r = _recheck(mf, f)
    except Exception as e:  # noqa
        return True, f"v2 single file without info.length: {type(e).__name__}"
    return r != 100, f"v2 single file without info.length reports {r}"


def D33(tmp):
    d = os.path.join(tmp, "payload", "payload")
    _mk(d, {"a": 100})
    mf = os.path.join(tmp, "m.torrent")
    _create("TorrentFile", d, mf, piece_length=PL)
    r1 = _recheck(mf, d)
    try:
        r2 = _recheck(mf, os.path.dirname(d))
    except Exception as e:  # noqa
        r2 = type(e).__name__
    return r1 != r2, f"root gives {r1}, parent named like the payload gives {r2}"


# ---------------------------------------------------------------- C18
def D34(tmp):
    from torrentfile.cli import execute
    d = os.path.join(tmp, "t")
    _mk(d, {"a": 10})
    wd = os.path.join(tmp, "wd")
    os.makedirs(wd)
    victim = os.path.join(wd, ".torrent")
    with open(victim, "wb") as fd:
        fd.write(b"precious")
    cwd = os.getcwd()
    os.chdir(wd)
    try:
        _clear_cache()
        _quiet(execute, ["create", d])
    finally:
        os.chdir(cwd)
    return not os.path.exists(victim), "pre-existing ./.torrent deleted by the writability probe"


def D35(tmp):
    """single-file v2/hybrid torrent must be rebuilt as dest/<name> (a file), not dest/<name>/<name>"""
    from torrentfile.rebuild import Assembler
    bad = []
    for cls, kw in (("TorrentFileV2", {}), ("TorrentAssembler", {"meta_version": "3"})):
        t = os.path.join(tmp, cls)
        f = os.path.join(t, "src", "single.bin")
        _mk(os.path.join(t, "src"), {"single.bin": PL + 5})
        mf = os.path.join(t, "m.torrent")
        _create(cls, f, mf, piece_length=PL)
        dest = os.path.join(t, "dest")
        os.makedirs(dest)
        _quiet(lambda: Assembler([mf], [os.path.join(t, "src")], dest).assemble_torrents())
        if not os.path.isfile(os.path.join(dest, "single.bin")):
            bad.append(f"{cls}: dest holds {sorted(os.listdir(dest))}, dest/single.bin is not a file")
    return bool(bad), "; ".join(bad)


def D36(tmp):
    """rebuild into a destination given as '.' (single path element) must still copy"""
    from torrentfile.rebuild import Assembler
    f = os.path.join(tmp, "src", "single.bin")
    _mk(os.path.join(tmp, "src"), {"single.bin": 100})
    mf = os.path.join(tmp, "m.torrent")
    _create("TorrentFile", f, mf, piece_length=PL)
    dest = os.path.join(tmp, "dest")
    os.makedirs(dest)
    cwd = os.getcwd()
    os.chdir(dest)
    try:
        n = _quiet(lambda: Assembler([mf], [os.path.join(tmp, "src")], ".").assemble_torrents())
    finally:
        os.chdir(cwd)
    ok = os.path.isfile(os.path.join(dest, "single.bin"))
    return not ok, f"rebuild -d . counted {n} file(s), destination holds {sorted(os.listdir(dest))}"


def D37(tmp):
    """a recorded digest that happens to be valid UTF-8 is decoded as str by pyben: intact content must still give 100"""
    d = os.path.join(tmp, "p")
    _mk(d, {"a": b"x27632"})           # SHA-1 of these 6 bytes is valid UTF-8
    mf = os.path.join(tmp, "m.torrent")
    _create("TorrentFile", d, mf, piece_length=PL)
    r = _recheck(mf, d)
    # and rebuild must still recognise the intact file
    from torrentfile.rebuild import Assembler
    dest = os.path.join(tmp, "dest")
    os.makedirs(dest)
    _quiet(lambda: Assembler([mf], [d], dest).assemble_torrents())
    rebuilt = os.path.isfile(os.path.join(dest, "p", "a"))
    return (r != 100 or not rebuilt), f"digest is valid UTF-8: recheck of intact content reports {r}, rebuilt={rebuilt}"


def D38(tmp):
    """a directory occupying a payload file's path in the destination: nothing may be written inside it"""
    from torrentfile.rebuild import Assembler
    f = os.path.join(tmp, "src", "single0.bin")
    _mk(os.path.join(tmp, "src"), {"single0.bin": PL + 1})
    mf = os.path.join(tmp, "m.torrent")
    _create("TorrentFile", f, mf, piece_length=PL)
    dest = os.path.join(tmp, "dest")
    _mk(dest, {"single0.bin/zz_unrelated": b"u"})
    try:
        _quiet(lambda: Assembler([mf], [os.path.join(tmp, "src")], dest).assemble_torrents())
    except Exception:  # noqa
        pass
    inside = sorted(os.listdir(os.path.join(dest, "single0.bin")))
    return inside != ["zz_unrelated"], f"directory at the payload file's path now holds {inside}"


def D39(tmp):
    """--align on a payload that itself contains .pad/<n> with n a pad length the creator emits: intact content must verify"""
    d = os.path.join(tmp, "payload")
    _mk(d, {".pad/1": b"x", "a": PL - 1})
    mf = os.path.join(tmp, "m.torrent")
    _create("TorrentFile", d, mf, piece_length=PL, align=True)
    r = _recheck(mf, d)
    return r != 100, f"aligned payload containing .pad/1: recheck of intact content reports {r}"


def D40(tmp):
    """assemble() called again on a hybrid / v2 creator object must give the same metafile as the first call"""
    import importlib
    torrent = importlib.import_module("torrentfile.torrent")
    d = os.path.join(tmp, "p")
    _mk(d, {"a": 40000, "b": 20000})
    bad = []
    for cls, kw in (("TorrentFileHybrid", {}), ("TorrentAssembler", {"meta_version": "3"}), ("TorrentFileV2", {})):
        t = _quiet(lambda: getattr(torrent, cls)(path=d, piece_length=PL, progress=0, **kw))
        o1, _ = _quiet(lambda: t.write(os.path.join(tmp, "1.torrent")))
        b1 = open(o1, "rb").read()
        _quiet(t.assemble)
        o2, _ = _quiet(lambda: t.write(os.path.join(tmp, "2.torrent")))
        b2 = open(o2, "rb").read()
        if len(b1) != len(b2):
            bad.append(f"{cls}: {len(b1)} then {len(b2)} bytes")
    return bool(bad), "second assemble() on the same creator object: " + ("; ".join(bad) or "identical metafiles")


def D41(tmp):
    """the interactive editor with no edit at all (edit, <metafile>, DONE) must leave the metafile unchanged"""
    d = os.path.join(tmp, "p")
    _mk(d, {"a": 30000})
    mf = os.path.join(tmp, "m.torrent")
    _create("TorrentFile", d, mf, piece_length=PL, announce=["http://t/a", "http://t/b"], comment="c", private=True)
    before = open(mf, "rb").read()
    from torrentfile.interactive import select_action
    old = sys.stdin
    sys.stdin = io.StringIO(f"edit\n{mf}\nDONE\n")
    try:
        _quiet(select_action)
    finally:
        sys.stdin = old
    after = open(mf, "rb").read()
    import pyben
    return before != after, f"interactive edit dialog without any edit: announce now {pyben.loads(after).get('announce')!r}"


# D27/D28: known findings of rebuild
def D27(tmp):
    def scatter(d, src):
        good = open(os.path.join(d, "a"), "rb").read()
        bad = good[:PL] + _rand(len(good) - PL, "tail")
        for sub, dat in (("1", bad), ("2", good)):
            p = os.path.join(src, sub)
            os.makedirs(p)
            with open(os.path.join(p, "a"), "wb") as fd:
                fd.write(dat)
    real = os.listdir
    os.listdir = lambda p=".": sorted(real(p))
    try:
        n, missing = _rebuild(tmp, {"a": 2 * PL}, "TorrentFile", {}, scatter)
    finally:
        os.listdir = real
    return bool(missing), f"partially matching candidate first: missing {missing}"


def D28(tmp):
    n, missing = _rebuild(tmp, {"a": 100, "b": 200}, "TorrentFile", {"align": True})
    return bool(missing), f"rebuild of aligned v1 metafile: missing {missing}"


ALL = [n for n in sorted(globals(), key=lambda s: (len(s), s)) if n[0] == "D" and n[1:].isdigit()]


def run(names=None):
    res = {}
    for n in (names or ALL):
        tmp = tempfile.mkdtemp(prefix="vrepro_")
        try:
            try:
                present, detail = globals()[n](tmp)
            except Exception as e:  # noqa
                present, detail = None, f"probe error {type(e).__name__}: {e}"
        finally:
            shutil.rmtree(tmp, ignore_errors=True)
        res[n] = (present, detail)
    return res


if __name__ == "__main__":
    os.environ.setdefault("HOME", tempfile.gettempdir())
    r = run(sys.argv[1:] or None)
    for k, (p, d) in r.items():
        print(k, "PRESENT" if p else ("ERROR" if p is None else "absent"), d)
