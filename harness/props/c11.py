"""C11 -- the magnet URI carries the true info-hash(es), the name, all trackers and all web seeds."""
import io
import os
import copy
import hashlib
import contextlib
import subprocess
import urllib.parse as U

import core
import trees
import modelrun
from ref import oracle
from props.v2_common import require_classes

GEN_FILES = []
EXTRA_TARGETS = ["Extract/ExtractEdit.vo"]
AREAS = ["edit"]
RULE = ("metafiles: every creator of the tool (TorrentFile, TorrentFile align, TorrentFileV2, TorrentFileHybrid, TorrentAssembler v2 / hybrid) "
        "on payloads whose on-disk names contain space & = % + # ? : and non-ASCII text, with random tracker / web-seed / http-seed lists "
        "over an alphabet rich in reserved characters, percent-escape look-alikes and multi-byte UTF-8; the same files edited by edit_torrent "
        "(tracker set as list / as string / removed, url-list set / removed, info field edited); reference-encoded variants of them and "
        "metafiles of the reference encoder and hand-built dictionaries with arbitrary extra keys (non-UTF-8 keys, keys named like magnet "
        "parameters, decoy 'info' text before the info dictionary), cycling announce only / announce-list only / both / neither x url-list "
        "list / string / absent, multi-tier lists, names with '/' and names / URLs that are not UTF-8; payloads that consist of "
        "ZERO-LENGTH files only (a directory and a single file through every creator, the reference encoder and hand-built "
        "dictionaries: `pieces` is the empty string, which is still v1 content).  Metafiles AT SCALE (64 KiB .. 2 MiB; "
        "the rest stays below a few KiB; above 256 KiB only the hash strings grow): the tool's creators on sparse single files of 4200 .. "
        "16500 pieces of 16 KiB (v1 info dictionaries "
        "above 128 / 256 KiB, v2 / hybrid piece layers above 256 KiB) with trackers and web seeds, those files edited by edit_torrent and "
        "reference-encoded variants of them; hand-built dictionaries of each version ONE component of which is scaled up (pieces, files "
        "list, file tree, piece layers, announce-list or url-list; the lists of up to 1200 entries, thorough 3000) and padded so that the info dictionary -- or the "
        "whole metafile -- has exactly 2^k - 1, 2^k and 2^k + 1 bytes for 2^k = 64 KiB .. 256 KiB (quick; also 1 MiB and 2 MiB + 1) and up to 2 MiB, "
        "3 * 2^k and random offsets (thorough), always with announce, a multi-tier announce-list and url-list; metafiles above "
        "600000 bytes are judged end to end only.  Every metafile is asked for version "
        "0, 1, 2 and 3 (at scale in the quick tier: 0 and one other in rotation; model tie on those below 300000 bytes) through commands.magnet; a subset also through commands.get_magnet, cli.execute and a fresh `python -m torrentfile "
        "magnet` process.  A case is distinct by (SHA-1 of the metafile bytes, version, route).  Model tie: returned string = extracted "
        "Model/Magnet.v on the file bytes; quote_plus / unquote_plus of urllib = extracted Model/Uri.v on all 256 bytes, all '%XY' triples, "
        "(thorough: all 65536 two-byte strings) and random strings.  PATH ARGUMENTS: a metafile stored as P on a shelf NEXT TO other metafiles "
        "named P + '.torrent', P + '.TORRENT' and P without its '.torrent' that describe something else ('album' next to 'album.torrent', "
        "'data.torrent' next to 'data.torrent.torrent' and 'data', names with spaces and '&'), P spelled absolute / relative / './'-relative / "
        "through the parent ('../shelf/P') with the shelf as working directory, through commands.magnet, get_magnet, `magnet`, the alias `m`, in "
        "process and in a fresh interpreter: the URI must describe P.  CREATE -m: `create|new` with -m / --magnet / `magnet = true` in a "
        "fresh interpreter, with and without --config (ini in the working directory, in ~/.torrentfile/, via --config-path), the ini's "
        "meta-version absent / equal to / DIFFERENT from the command line's (ini 3 vs default 1, 3 vs 2, 2 vs 1, 1 vs 3 ...; thorough all 16 "
        "pairs x 4 locations), payload name with ' & = + #': the one 'magnet:?' line create prints is judged against the FILE WRITTEN "
        "(automatic row of the xt table, dn, tr, ws).  End to end, without the model: the URI is parsed with urllib.parse "
        "(urlsplit, strict parse_qsl) and xt must equal the table over SHA-1 / SHA-256 of the raw info span located by the reference "
        "strict decoder, dn / tr / ws must decode to exactly name / BEP 12 tracker list / BEP 19 web-seed list, no other parameter.")
TRUSTED_BASE = [
    "Coq 8.16.1 kernel; theorems closed under the global context",
    "hand models Model/Magnet.v, Model/Uri.v, Model/Bencode.v tied to commands.magnet / urllib.parse / pyben by differential execution",
    "Python str/bytes duality collapsed to raw bytes (a str is its UTF-8 encoding)",
    "SHA-1 / SHA-256 of the OCaml driver (self-tested against hashlib vectors) stand for the Section variables sha1hex / sha256hex",
    "urllib.parse.urlsplit / parse_qsl are the reading of 'URL-decode' in the end-to-end judge (tied to the model's unquote_plus / parse_query)",
]
ASSUMPTIONS = ["metafiles are canonical bencode with duplicate-free keys (what the reference strict decoder accepts)",
               "announce-list is a list of lists of strings, announce a string, url-list a string or a list of strings; no empty-string URL",
               "a v2-only metafile asked for version 1 is outside the quantifier (the tool then emits no xt: observed, counted, not judged)"]

RESERVED = [" ", "&", "=", "%", "+", "#", "/", "?", ":"]
# precomposed AND decomposed / compatibility forms: the URI must carry the name's own code points, not a normalised spelling
NONASCII = ["é", "ü", "世", "日本", "😀", "\u00a0", "ß", "Ж", "e\u0301", "A\u030a", "\u212b", "\u2126", "\u1112\u1161\u11ab", "\ufb01", "\uf900"]
PLAIN = list("abzAZ09-_.~") + ["seed", "file", "announce", "x1"]
OTHER = list("'\"<>[]{}|\\^`@!$()*,;") + ["%20", "%2B", "%2b", "%C3%A9", "%zz", "%4", "%%", "++", "&amp;", "a=b&c=d", "?k=v", "#top", "+ +"]
CONTROL = ["\t", "\n", "\r", "\x01", "\x7f"]
ATOMS = RESERVED * 2 + NONASCII + PLAIN + OTHER
MUSTS = RESERVED + ["nonascii", None]
TSHAPES = ["announce only", "announce-list only", "announce and announce-list", "no tracker"]
WSHAPES = ["url-list list", "url-list string", "url-list absent"]
PARAM_KEYS = ("xt", "dn", "tr", "ws")
PL = 16384


# ------------------------------------------------------------------------------------------------ generators
class Gen:
    def __init__(self, rng):
        self.rng = rng
        self.n = 0
        self.shape = 0

    def must(self):
        self.n += 1
        return MUSTS[self.n % len(MUSTS)]

    def text(self, disk=False, lo=1, hi=6, control=False):
        rng = self.rng
        must = self.must()
        pool = ATOMS + (CONTROL if control else [])
        parts = [rng.choice(pool) for _ in range(rng.randrange(lo, hi + 1))]
        if must == "nonascii":
            parts.insert(rng.randrange(len(parts) + 1), rng.choice(NONASCII))
        elif must:
            parts.insert(rng.randrange(len(parts) + 1), must)
        s = "".join(parts)
        if disk:
            s = s.replace("/", "-").replace("\x00", "")
            if s.strip(". ") == "":
                s = "n" + s
        return s

    def url(self, control=False):
        rng = self.rng
        scheme = rng.choice(["http://", "https://", "udp://", "http://", "wss://", ""])
        host = rng.choice(["t.example", "träcker.example", "10.0.0.1", "[::1]", "seed.example", "例え.jp"])
        port = rng.choice(["", "", ":80", ":6969"])
        return scheme + host + port + "/" + self.text(lo=0, hi=5, control=control)

    def urls(self, lo=1, hi=3):
        return [self.url() for _ in range(self.rng.randrange(lo, hi + 1))]

    def raw_bytes(self, s):
        """a byte string that is not UTF-8"""
        b = s.encode()
        i = self.rng.randrange(len(b) + 1)
        # cut on a character boundary so that only the inserted bytes are malformed
        while i < len(b) and (b[i] & 0xC0) == 0x80:
            i += 1
        return b[:i] + self.rng.choice([b"\xff", b"\xfe\xff", b"\xc3", b"\x80", b"\xe4\xb8"]) + b[i:]


EXTRA_TOP = [(b"created by", b"ref encoder"), (b"creation date", 1700000000), (b"comment", b"4:infod4:name1:xe"),
             (b"zz-extra", [1, b"x", {b"k": b""}]), (b"httpseeds", [b"http://h/s?a=b&c"]), (b"nodes", [[b"router.example", 6881]]),
             (b"\xff\xfebin", b"\x00\xff"), (b"xt", b"urn:btih:decoy"), (b"dn", b"decoy"), (b"tr", [b"http://decoy/"]),
             (b"ws", b"http://decoy/"), (b"encoding", b"UTF-8"), (b"", b"empty key"), (b"announce-list-2", [[b"http://decoy/"]]),
             (b"a", {b"info": {b"name": b"decoy"}})]
EXTRA_INFO = [(b"source", b"SRC & co"), (b"private", 1), (b"x-unknown", {b"k": 1, b"\xff": [b""]}), (b"\xffkey", b"\xfe"),
              (b"name.utf-8", b"other"), (b"comment", b"in info"), (b"zzz", -5), (b"announce", b"http://decoy-in-info/"),
              (b"url-list", [b"http://decoy-in-info/"]), (b"", 0), (b"announce-list", [[b"http://decoy-in-info/"]])]


def tiers(rng, urls):
    out, cur = [], []
    for u in urls:
        cur.append(u)
        if rng.random() < 0.4:
            out.append(cur)
            cur = []
    if cur:
        out.append(cur)
    if rng.random() < 0.15:
        out.insert(rng.randrange(len(out) + 1), [])
    return out


def variant(meta, g):
    """a reference-encoded variant of a strict-decoded metafile: tracker / url-list shape by a global cycle, random name and extras"""
    rng = g.rng
    m = dict(meta)
    m[b"info"] = dict(meta[b"info"])
    n = g.shape
    g.shape += 1
    tshape, wshape = TSHAPES[n % 4], WSHAPES[(n // 4) % 3]
    for k in (b"announce", b"announce-list", b"url-list"):
        m.pop(k, None)

    def enc(u):
        return g.raw_bytes(u) if rng.random() < 0.08 else u.encode()
    urls = [enc(g.url(control=rng.random() < 0.1)) for _ in range(rng.randrange(1, 4))]
    if tshape == "announce only":
        m[b"announce"] = urls[0]
    elif tshape == "announce-list only":
        m[b"announce-list"] = tiers(rng, urls)
    elif tshape == "announce and announce-list":
        m[b"announce-list"] = [] if rng.random() < 0.06 else tiers(rng, urls)
        m[b"announce"] = urls[0] if rng.random() < 0.5 else enc(g.url())
    seeds = [enc(g.url(control=rng.random() < 0.1)) for _ in range(rng.randrange(1, 4))]
    if wshape == "url-list list":
        m[b"url-list"] = [] if rng.random() < 0.06 else seeds
    elif wshape == "url-list string":
        m[b"url-list"] = seeds[0]
    r = rng.random()
    if r < 0.55:
        m[b"info"][b"name"] = g.text(control=rng.random() < 0.15).encode()
    elif r < 0.65:
        m[b"info"][b"name"] = g.raw_bytes(g.text())
    elif r < 0.68:
        m[b"info"][b"name"] = b""
    for k, v in rng.sample(EXTRA_TOP, rng.randrange(0, 6)):
        m.setdefault(k, v)
    for k, v in rng.sample(EXTRA_INFO, rng.randrange(0, 4)):
        m[b"info"].setdefault(k, v)
    return oracle.bencode(m)


def hand_built(g, ver, empty=False):
    """a minimal dictionary written down by hand and encoded with the reference bencoder; empty: the file has no bytes (length 0,
       `pieces` the empty string, no pieces root)"""
    rng = g.rng
    info = {b"name": b"a", b"piece length": PL}
    top = {}
    if ver in (1, 3):
        info[b"length"] = 0 if empty else 1
        info[b"pieces"] = b"" if empty else rng.choice([b"x" * 20, rng.randbytes(20)])
    if ver in (2, 3):
        info[b"meta version"] = 2
        info[b"file tree"] = {b"a": {b"": {b"length": 0}}} if empty else {b"a": {b"": {b"length": 1, b"pieces root": rng.randbytes(32)}}}
        top[b"piece layers"] = {}
    top[b"info"] = info
    return top


# ------------------------------------------------------------------------------ the property, without the model
def expected_of(raw):
    """what the property text demands for this metafile; reference strict decoder + hashlib only"""
    meta, span = oracle.bdecode_strict(raw, want_span=b"info")
    info = meta[b"info"]
    span_bytes = raw[span[0]:span[1]]
    has_v1, has_v2 = b"pieces" in info, b"meta version" in info
    if b"announce-list" in meta:
        tr = [u for tier in meta[b"announce-list"] for u in tier]
    elif b"announce" in meta:
        tr = [meta[b"announce"]]
    else:
        tr = []
    ws = meta.get(b"url-list", [])
    if isinstance(ws, bytes):
        ws = [ws]
    tshape = ("announce and announce-list" if b"announce" in meta else "announce-list only") if b"announce-list" in meta \
        else ("announce only" if b"announce" in meta else "no tracker")
    wshape = "url-list absent" if b"url-list" not in meta else \
        ("url-list string" if isinstance(meta[b"url-list"], bytes) else "url-list list")
    return {"kind": "hybrid" if has_v1 and has_v2 else ("v2" if has_v2 else "v1"),
            "btih": b"urn:btih:" + hashlib.sha1(span_bytes).hexdigest().encode(),
            "btmh": b"urn:btmh:1220" + hashlib.sha256(span_bytes).hexdigest().encode(),
            "name": info[b"name"], "tr": tr, "ws": list(ws), "tshape": tshape, "wshape": wshape,
            "empty_pieces": info.get(b"pieces") == b"",
            "multi_tier": len(meta.get(b"announce-list", [])) > 1, "info_len": span[1] - span[0], "has_layers": b"piece layers" in meta,
            "extra": sorted(set(meta) - {b"info", b"announce", b"announce-list", b"url-list", b"piece layers"})}


def expected_xts(exp, v):
    """the xt table of the property; None = outside the quantifier"""
    if exp["kind"] == "v1":
        return [exp["btih"]]
    if exp["kind"] == "v2":
        return None if v == 1 else [exp["btmh"]]
    return {0: [exp["btih"], exp["btmh"]], 3: [exp["btih"], exp["btmh"]], 1: [exp["btih"]], 2: [exp["btmh"]]}[v]


def parse_uri(uri):
    """[(key, value bytes)] via urllib.parse only, or (None, reason)"""
    if not isinstance(uri, str):
        return None, f"not a string: {type(uri).__name__}"
    if "#" in uri:
        return None, "unescaped '#': the rest of the URI is a fragment"
    try:
        sp = U.urlsplit(uri)
        if sp.scheme != "magnet" or sp.netloc or sp.path or sp.fragment:
            return None, f"urlsplit gives scheme={sp.scheme!r} netloc={sp.netloc!r} path={sp.path!r} fragment={sp.fragment!r}"
        pairs = U.parse_qsl(sp.query, keep_blank_values=True, strict_parsing=True, encoding="utf-8", errors="surrogateescape")
    except ValueError as e:
        return None, f"urllib.parse rejects it: {e}"
    return [(k, val.encode("utf-8", "surrogateescape")) for k, val in pairs], None


def judge(raw, v, uri, exp=None):
    """list of (kind, expected, observed); None when (metafile, version) is outside the quantifier
       (exp: expected_of(raw) when the caller has computed it already)"""
    exp = expected_of(raw) if exp is None else exp
    want_xt = expected_xts(exp, v)
    if want_xt is None:
        return None
    pairs, why = parse_uri(uri)
    if pairs is None:
        return [("malformed-uri", "magnet:?<query of key=value pairs, no fragment>", why)]
    got = {k: [val for kk, val in pairs if kk == k] for k in PARAM_KEYS}
    out = []
    if got["xt"] != want_xt:
        out.append(("xt-mismatch", want_xt, got["xt"]))
    if got["dn"] != [exp["name"]]:
        out.append(("dn-mismatch", [exp["name"]], got["dn"]))
    if got["tr"] != exp["tr"]:
        out.append(("tr-mismatch", exp["tr"], got["tr"]))
    if got["ws"] != exp["ws"]:
        out.append(("ws-mismatch", exp["ws"], got["ws"]))
    other = [k for k, _ in pairs if k not in PARAM_KEYS]
    if other:
        out.append(("unexpected-parameter", [], other))
    return out


def show(x):
    """byte strings as Python literals (readable in a replay file)"""
    if isinstance(x, (bytes, bytearray)):
        return repr(bytes(x))
    if isinstance(x, (list, tuple)):
        return [show(y) for y in x]
    return x


def string_classes(exp):
    cl = []
    for what, items in (("name", [exp["name"]]), ("url", exp["tr"] + exp["ws"])):
        blob = b"\x00".join(items)
        for c in RESERVED:
            if c.encode() in blob:
                cl.append(f"{what} has {c!r}")
        for it in items:
            try:
                it.decode("utf-8")
                if any(x >= 0x80 for x in it):
                    cl.append(f"{what} non-ASCII")
            except UnicodeDecodeError:
                cl.append(f"{what} not UTF-8")
        if any(x < 0x20 or x == 0x7f for x in blob.replace(b"\x00", b"")):
            cl.append(f"{what} has a control character")
    return sorted(set(cl))


# ------------------------------------------------------------------------------------------ running the tool
def printed_uri(out):
    lines = [ln for ln in out.split("\n") if ln.startswith("magnet:")]
    return lines[0] if len(lines) == 1 else None


def call_lib(path, v):
    from torrentfile.commands import magnet
    sink = io.StringIO()
    with contextlib.redirect_stdout(sink), contextlib.redirect_stderr(io.StringIO()):
        uri = magnet(path, version=v)
    return uri, printed_uri(sink.getvalue())


def call_ns(path, v):
    from argparse import Namespace
    from torrentfile.commands import get_magnet
    sink = io.StringIO()
    with contextlib.redirect_stdout(sink), contextlib.redirect_stderr(io.StringIO()):
        uri = get_magnet(Namespace(metafile=path, meta_version=str(v)))
    return uri, printed_uri(sink.getvalue())


def call_cli(path, v, flag=True):
    from torrentfile.cli import execute
    argv = ["magnet", path] + (["--meta-version", str(v)] if flag else [])
    sink = io.StringIO()
    with contextlib.redirect_stdout(sink), contextlib.redirect_stderr(io.StringIO()):
        uri = execute(argv)
    return uri, printed_uri(sink.getvalue())


def call_sub(path, v, home, flag=True):
    argv = [core.PY, "-m", "torrentfile", "magnet", path] + (["--meta-version", str(v)] if flag else [])
    p = subprocess.run(argv, env=core.impl_env({"HOME": home}), capture_output=True, text=True, timeout=120, cwd=home)
    if p.returncode != 0:
        raise RuntimeError(f"exit {p.returncode}: {p.stderr[-300:]}")
    uri = printed_uri(p.stdout)
    return uri, uri


ROUTES = {"lib": call_lib, "get_magnet": call_ns, "cli": call_cli}


def run_route(route, path, v, home):
    if route == "subprocess":
        return call_sub(path, v, home)
    if route == "cli-default":
        return call_cli(path, 0, flag=False)
    if route == "subprocess-default":
        return call_sub(path, 0, home, flag=False)
    return ROUTES[route](path, v)


def problems_on(raw, v, route, tmp):
    """run the tool on these metafile bytes and judge: (uri, problems or None, exception or None)"""
    path = os.path.join(tmp, "probe.torrent")
    with open(path, "wb") as fd:
        fd.write(raw)
    try:
        uri, shown = run_route(route, path, v, tmp)
    except Exception as e:  # noqa
        return None, [("magnet-raised", "a magnet URI", f"{type(e).__name__}: {e}")], e
    probs = judge(raw, v, uri)
    if probs is not None and shown != uri:
        probs = probs + [("printed-differs-from-returned", uri, shown)]
    return uri, probs, None


def shrink(raw, v, route, kind, tmp, budget=800):
    """greedy reduction of a failing metafile through the reference encoder; keeps the failure kind"""
    def fails(cand):
        try:
            _, probs, _ = problems_on(cand, v, route, tmp)
        except Exception:  # noqa
            return False
        return bool(probs) and any(p[0] == kind for p in probs)

    def cuts(n):
        """how many units to drop from a component of n units: half, a quarter, ... one (the first cut that keeps the failure wins)"""
        out, k = [], n // 2
        while k >= 1:
            out.append(k)
            k //= 2
        return out

    def big_cuts(meta):
        """metafiles at scale: trim the large components first (a failure that needs the size stops just above its threshold)"""
        info = meta[b"info"]
        for holder, key, unit in ((info, b"pieces", 20),) + tuple((meta.get(b"piece layers") or {}, r, 32)
                                                                   for r in (meta.get(b"piece layers") or {})):
            s = holder.get(key)
            if isinstance(s, bytes) and len(s) >= 200 * unit:
                for k in cuts(len(s) // unit):
                    m = copy.deepcopy(meta)
                    (m[b"info"] if holder is info else m[b"piece layers"])[key] = s[:len(s) - k * unit]
                    yield m
        for holder, key in ((info, b"files"), (meta, b"announce-list"), (meta, b"url-list")):
            lst = holder.get(key)
            if isinstance(lst, list) and len(lst) >= 200:
                for k in cuts(len(lst)):
                    m = copy.deepcopy(meta)
                    (m[b"info"] if holder is info else m)[key] = lst[:len(lst) - k]
                    yield m
        tree = info.get(b"file tree")
        if isinstance(tree, dict):
            for d, sub in tree.items():
                if isinstance(sub, dict) and len(sub) >= 100:
                    names = sorted(sub)
                    for k in cuts(len(names)):
                        m = copy.deepcopy(meta)
                        m[b"info"][b"file tree"][d] = {x: sub[x] for x in names[:len(names) - k]}
                        yield m
        for holder, key in ((info, b"x-pad"), (meta, b"comment"), (meta, b"zz-pad"), (meta, b"created by")):
            s = holder.get(key)
            if isinstance(s, bytes) and len(s) >= 200:
                for k in cuts(len(s)):
                    m = copy.deepcopy(meta)
                    (m[b"info"] if holder is info else m)[key] = s[:len(s) - k]
                    yield m

    def candidates(meta):
        if len(cur) >= BIG // 2:
            yield from big_cuts(meta)
        for k in list(meta):
            if k != b"info":
                m = dict(meta)
                del m[k]
                yield m
        for k in list(meta[b"info"]):
            if k != b"name":
                m = dict(meta)
                m[b"info"] = {a: b for a, b in meta[b"info"].items() if a != k}
                yield m
        for k in (b"announce-list", b"url-list"):
            val = meta.get(k)
            if isinstance(val, list):
                for i in range(len(val)):
                    m = dict(meta)
                    m[k] = val[:i] + val[i + 1:]
                    yield m
                    if isinstance(val[i], list):
                        for j in range(len(val[i])):
                            m = dict(meta)
                            m[k] = val[:i] + [val[i][:j] + val[i][j + 1:]] + val[i + 1:]
                            yield m
        for holder, k in ((meta, b"announce"), (meta, b"url-list"), (meta[b"info"], b"name")):
            s = holder.get(k)
            if isinstance(s, bytes) and len(s) > 1:
                for cut in (s[:len(s) // 2], s[len(s) // 2:], s[1:], s[:-1]):
                    m = copy.deepcopy(meta)
                    (m if holder is meta else m[b"info"])[k] = cut
                    yield m
        for k in (b"announce-list", b"url-list"):
            val = meta.get(k)
            if isinstance(val, list):
                flat = [(i, None) for i, x in enumerate(val) if isinstance(x, bytes)] + \
                       [(i, j) for i, x in enumerate(val) if isinstance(x, list) for j in range(len(x))]
                for i, j in flat:
                    s = val[i] if j is None else val[i][j]
                    if len(s) > 1:
                        for cut in (s[:len(s) // 2], s[len(s) // 2:], s[1:], s[:-1]):
                            m = copy.deepcopy(meta)
                            if j is None:
                                m[k][i] = cut
                            else:
                                m[k][i][j] = cut
                            yield m
        if meta.get(b"piece layers"):
            m = dict(meta)
            m[b"piece layers"] = {}
            yield m

    cur = raw
    progress = True
    while progress and budget > 0:
        progress = False
        try:
            meta = oracle.bdecode_strict(cur)
        except Exception:  # noqa
            return cur
        for m in candidates(meta):
            budget -= 1
            if budget <= 0:
                break
            try:
                cand = oracle.bencode(m)
            except Exception:  # noqa
                continue
            if len(cand) < len(cur) and fails(cand):
                cur, progress = cand, True
                break
    return cur


# -------------------------------------------------------------------------------------------- metafile streams
def payload_trees(g, tmp, count):
    """payloads whose on-disk names carry reserved characters; (name, path).  The last two (numbers count, count + 1) consist of
       ZERO-LENGTH files only -- a directory and a single file: a v1 / hybrid metafile of such a payload has the EMPTY string as
       its piece string (it still has v1 content: the key is there)"""
    rng = g.rng
    out = []
    for i in range(count + 2):
        name = g.text(disk=True, lo=2, hi=5)[:60]
        root = os.path.join(tmp, f"p{i}", name)
        if i == count:
            tree = {("e\u0301mpty",): b"", ("d", "0 bytes"): b"", ("d", "z&z"): b""}
        elif i == count + 1:
            tree = {(): b""}
        elif i % 3 == 0:
            tree = {(): rng.randbytes(PL + 7)}
        elif i % 3 == 1:
            tree = {("a b&c",): rng.randbytes(PL + 7), ("d", "b=1%"): rng.randbytes(2 * PL + 1), ("d", "é#"): b""}
        else:
            tree = {("x",): rng.randbytes(100), ("y+",): rng.randbytes(PL)}
        trees.write_tree(root, tree)
        out.append((name, root))
    return out


def creator_options(g):
    rng = g.rng
    o = {}
    if rng.random() < 0.8:
        o["announce"] = g.urls(1, 3)
    if rng.random() < 0.7:
        o["url_list"] = g.urls(1, 3)
    if rng.random() < 0.4:
        o["httpseeds"] = g.urls(1, 2)
    if rng.random() < 0.4:
        o["comment"] = g.text()
    if rng.random() < 0.3:
        o["source"] = g.text()
    if rng.random() < 0.3:
        o["private"] = True
    return o


def edit_requests(g):
    return [
        ("tracker list", {"announce": g.urls(1, 3)}),
        ("tracker removed", {"announce": ""}),
        ("url-list list", {"url-list": g.urls(1, 3)}),
        ("url-list removed", {"url-list": ""}),
        ("tracker and url-list as strings", {"announce": "http://n/1?a=b&c=%20 udp://n:2/x+y#z", "url-list": "http://nw/1%2B  http://nw/é/2"}),
        ("url-list and comment", {"url-list": g.urls(1, 2), "comment": g.text()}),
    ]


def metafiles(ctx, g, tmp):
    """yields (label, origin, raw bytes)"""
    from torrentfile.edit import edit_torrent
    quick = ctx.tier == "quick"
    n_trees, n_opts, n_edits, n_var, n_ref = (3, 2, 2, 4, 48) if quick else (9, 4, 6, 24, 6000)
    work = os.path.join(tmp, "edit.torrent")
    created = 0
    for ti, (name, root) in enumerate(payload_trees(g, tmp, n_trees)):
        for kind in trees.CREATORS:
            for oi in range(n_opts):
                opts = creator_options(g) if oi else {}
                mf = os.path.join(tmp, "created.torrent")
                label = f"{kind} tree{ti} opts{oi}"
                try:
                    raw = trees.create(kind, root, mf, PL, **opts)
                except Exception as e:  # noqa
                    ctx.broken.append(f"creator {kind} failed on {name!r} {opts}: {type(e).__name__}: {e}")
                    continue
                created += 1
                yield label, f"created by {kind}", raw
                reqs = edit_requests(g)
                for ei in range(n_edits):
                    what, req = reqs[(created + ei * 3) % len(reqs)] if quick else reqs[ei]
                    with open(work, "wb") as fd:
                        fd.write(raw)
                    try:
                        trees.quiet(edit_torrent, work, dict(req))
                    except Exception as e:  # noqa
                        ctx.broken.append(f"edit_torrent failed ({what}) on {label}: {type(e).__name__}: {e}")
                        continue
                    yield f"{label} edited: {what}", "edited", oracle.read(work)
                try:
                    meta = oracle.bdecode_strict(raw)
                except Exception as e:  # noqa
                    ctx.broken.append(f"creator {kind} wrote a metafile the strict decoder rejects: {e}")
                    continue
                for vi in range(n_var):
                    yield f"{label} reference variant {vi}", "reference variant of a created metafile", variant(meta, g)
    files = [(("a",), g.rng.randbytes(100)), (("d", "b"), g.rng.randbytes(PL + 1))]
    empties = [(("a",), b""), (("d", "b"), b""), (("d", "c"), b"")]       # zero-length files only: `pieces` is the empty string
    for i in range(n_ref):
        ver = (1, 2, 3)[i % 3]
        if i % 4 == 3:
            base, origin = hand_built(g, ver, empty=i % 16 == 7), "hand-built dictionary"
        else:
            single = i % 8 < 2
            fl = empties if i % 16 in (4, 8, 9) else files          # 4: directory (hybrid, v2, v1 in turn); 8, 9: single file
            base = oracle.bdecode_strict(oracle.ref_metafile(g.text(lo=1, hi=3), fl[:1] if single else fl, PL, ver, single=single))
            origin = "reference encoder"
        yield f"{origin} v{ver} #{i}", origin, variant(base, g)
    # metafiles at scale (see above): 4-tuples, the last element lists the classes the construction aimed at
    yield from big_created(ctx, g, tmp)
    yield from big_synthetic(ctx, g)


# ------------------------------------------------------------------------------------------ metafiles at scale
# Everything above stays below a few KiB.  A magnet is computed from the BYTES of the metafile, so code that digests the info
# dictionary block by block, or that treats "large" metafiles (long piece strings, piece layers, thousands of files / trackers /
# web seeds) on another path, is exercised only by metafiles of that size.  The stream below produces them in two ways:
# (a) the tool's creators on sparse single files of several thousand 16 KiB pieces (created here), the same files edited by
# edit_torrent (edited here) and reference-encoded variants of them; (b) dictionaries written down by hand and encoded by the
# reference encoder, ONE component of which is scaled up (pieces / files list / file tree / piece layers / announce-list /
# url-list) and then padded so that the size of the info dictionary, or of the whole metafile, lands exactly on, one byte below
# and one byte above a power-of-two threshold (64 KiB .. 2 MiB; thorough also 3 * 2^k) -- always WITH trackers and web seeds,
# so that every parameter of the URI has something to lose.  They are judged like every other metafile (urllib + hashlib over
# the raw info span).
BIG = 1 << 16                      # from here on a metafile counts as "at scale"
MODEL_BOUND = 600000               # extracted model: bytes per case (notes/HARNESS_GUIDE.md)
THRESHOLDS = ([1 << 16, 1 << 17, 1 << 18], [3 << 16, 1 << 19, 3 << 17, 1 << 20, 1 << 21])
BIG_COMPONENTS = {1: ["pieces", "files", "url-list", "announce-list"],
                  2: ["piece layers", "file tree", "announce-list", "url-list"],
                  3: ["piece layers", "pieces", "file tree", "files", "url-list", "announce-list"]}


def big_dict(g, ver, comp, n):
    """a dictionary of version ver whose component comp has n units (20-byte hashes / 32-byte hashes / files / URLs); every other
       component small; announce + multi-tier announce-list + url-list always present"""
    rng = g.rng
    info = {b"name": g.text(lo=1, hi=3).encode(), b"piece length": PL}
    top = {}
    nfiles = n if comp in ("files", "file tree") else 2
    names = [(b"d%d" % (i % 7), b"f%05d" % i) for i in range(nfiles)]
    if ver in (1, 3):
        if comp == "files" or (ver == 3 and comp == "file tree") or rng.random() < 0.5:
            info[b"files"] = [{b"length": 1 + i % 5, b"path": [d, f]} for i, (d, f) in enumerate(names)]
        else:
            info[b"length"] = PL * (n if comp == "pieces" else 3) - 5
        info[b"pieces"] = rng.randbytes(20 * (n if comp == "pieces" else 3))
    if ver in (2, 3):
        info[b"meta version"] = 2
        nroots = 1 + (n > 40) + (n > 400) if comp == "piece layers" else 1
        roots = [rng.randbytes(32) for _ in range(nroots)]
        tree = {}
        for i, (d, f) in enumerate(names):
            leaf = {b"length": PL * 3 if i < nroots else 1 + i % 5, b"pieces root": roots[i] if i < nroots else rng.randbytes(32)}
            tree.setdefault(d, {})[f] = {b"": leaf}
        info[b"file tree"] = tree
        share = (n if comp == "piece layers" else 3)
        layers, left = {}, share
        for i, r in enumerate(roots):
            k = left if i == nroots - 1 else max(2, left // 3)
            layers[r] = rng.randbytes(32 * k)
            left -= k
        top[b"piece layers"] = layers
    urls = [g.url().encode() for _ in range(n if comp == "announce-list" else 4)]
    top[b"announce"] = urls[0] if rng.random() < 0.7 else g.url().encode()
    if len(urls) < 50:
        top[b"announce-list"] = [t for t in tiers(rng, urls) if t]
    else:
        top[b"announce-list"], i = [], 0
        while i < len(urls):                       # tiers of 1, 2, 3, 4, 1, ... URLs
            k = 1 + len(top[b"announce-list"]) % 4
            top[b"announce-list"].append(urls[i:i + k])
            i += k
    seeds = [g.url().encode() for _ in range(n if comp == "url-list" else 2)]
    top[b"url-list"] = seeds
    top[b"info"] = info
    return top


def pad_to(holder, key, need):
    """add key -> b'p' * L (and, where no L fits because of the digits of L, a second tiny key) to the dictionary so that its
       encoding grows by exactly `need` bytes; False when impossible"""
    head = len(b"%d:" % len(key)) + len(key)
    key2 = key + b"2"
    head2 = len(b"%d:" % len(key2)) + len(key2) + 2          # key2 -> b""
    for extra in (0, head2, head2 + 1):
        for digits in range(1, 9):
            length = need - extra - head - digits - 1
            if length >= 0 and len(str(length)) == digits:
                holder[key] = b"p" * length
                if extra:
                    holder[key2] = b"p" * (extra - head2)
                return True
    return False


HEAVY = ("files", "file tree", "announce-list", "url-list")        # components of many small elements


def sized(g, ver, comp, what, target, cap=1200):
    """reference-encoded big_dict whose info dictionary (what = 'info') or whole encoding (what = 'metafile') has EXACTLY `target`
       bytes: the component is scaled to just below the target and a padding string supplies the rest (when the component lies
       outside the measured dictionary -- trackers or piece layers for the info dictionary -- it gets 1500 units and the padding
       supplies everything); None when the construction does not converge (the caller notes it)"""
    def measure(top):
        return len(oracle.bencode(top[b"info"] if what == "info" else top))
    state = g.rng.getstate()
    shape = (g.n, g.shape)

    def build(n):
        g.rng.setstate(state)              # the same random stream for every trial: only n differs
        g.n, g.shape = shape
        return big_dict(g, ver, comp, n)
    a, b = measure(build(8)), measure(build(72))
    flat = b - a < 64
    unit = max(1.0, (b - a) / 64.0)
    n = 1500 if flat else max(4, int((target - a) / unit) + 8 - 2)
    if comp in HEAVY:
        n = min(n, cap)                # pyben's decoder is quadratic in (elements x bytes): the padding supplies the rest
    for _ in range(60):
        top = build(n)
        need = target - measure(top)
        if need >= 8:
            holder, key = (top[b"info"], b"x-pad") if what == "info" else (top, g.rng.choice([b"comment", b"zz-pad", b"created by"]))
            if pad_to(holder, key, need) and measure(top) == target:
                return oracle.bencode(top)
        if flat:
            return None
        n -= 1 if need > -3 * unit else max(1, int(-need / unit))
        if n < 1:
            return None
    return None


def big_synthetic(ctx, g):
    """(label, origin, raw, classes): sizes on / next to the thresholds, components and versions in a fixed rotation"""
    quick = ctx.tier == "quick"
    ths = THRESHOLDS[0] + ([] if quick else THRESHOLDS[1])
    deltas = [-1, 0, 1] if quick else [-1, 0, 1, -16, 16, None]
    combos = [(th, what, delta) for th in ths for what in ("info", "metafile") for delta in deltas]
    if quick:
        combos += [(1 << 20, "info", 0), (1 << 21, "info", 1)]
    used = {1: 0, 2: 0, 3: 0}
    for j, (th, what, delta) in enumerate(combos):
        for ver in (((1, 3), (2, 1), (3, 2))[j % 3] if quick else (1, 2, 3)):
            comps = BIG_COMPONENTS[ver]
            k = used[ver]
            used[ver] += 1
            comp = comps[(k + k // len(comps)) % len(comps)]      # every component in turn, shifted by one after each round
            if comp in HEAVY and th > 1 << 18:
                comp = comps[k % 2] if ver == 3 else comps[0]     # above 256 KiB only the hash strings grow (cost of pyben's decoder)
            d = g.rng.randrange(-3000, 3000) if delta is None else delta
            raw = sized(g, ver, comp, what, th + d, cap=1200 if quick else 3000)
            if raw is None:
                ctx.notes.append(f"scale: no {what} of {th + d} bytes with a big {comp} (v{ver}) could be constructed")
                continue
            yield (f"scale: hand-built v{ver}, big {comp}, {what} of {th}{d:+d} bytes", "hand-built dictionary", raw,
                   ["scale: big " + comp])


def big_created(ctx, g, tmp):
    """(label, origin, raw, classes): the tool's creators on sparse single files of thousands of pieces; edited; reference variants"""
    from torrentfile.edit import edit_torrent
    quick = ctx.tier == "quick"
    rng = g.rng
    # pieces: v1 info >= 128 KiB needs > 6553 pieces, >= 256 KiB > 13107; 32-byte layer hashes > 256 KiB need > 8192 pieces
    plan = [("v1", 6600 + rng.randrange(500)), (rng.choice(["hybrid-asm", "hybrid-class"]), 8300 + rng.randrange(600)),
            (rng.choice(["v2-asm", "v2-class"]), 8300 + rng.randrange(600))]
    if not quick:
        plan += [("v1", 13200 + rng.randrange(500)), ("v1-align", 6600), ("hybrid-class", 13200 + rng.randrange(500)),
                 ("hybrid-asm", 4200), ("v2-class", 16500), ("v2-asm", 4200)]
    work = os.path.join(tmp, "bigedit.torrent")
    for bi, (kind, npieces) in enumerate(plan):
        name = g.text(disk=True, lo=2, hi=4)[:40]
        path = os.path.join(tmp, f"big{bi}", name)
        os.makedirs(os.path.dirname(path))
        with open(path, "wb") as fd:
            fd.truncate(npieces * PL - rng.randrange(PL))        # a hole: nothing large is written
            fd.seek(rng.randrange(PL))
            fd.write(rng.randbytes(64))
        opts = {"announce": g.urls(2, 3), "url_list": g.urls(2, 3)}
        if rng.random() < 0.5:
            opts["httpseeds"] = g.urls(1, 2)
        if rng.random() < 0.5:
            opts["comment"] = g.text()
        label = f"scale: {kind} on a sparse file of {npieces} pieces"
        try:
            raw = trees.create(kind, path, os.path.join(tmp, "bigcreated.torrent"), PL, **opts)
        except Exception as e:  # noqa
            ctx.broken.append(f"creator {kind} failed on a sparse file of {npieces} pieces: {type(e).__name__}: {e}")
            continue
        finally:
            os.remove(path)
        yield label, f"created by {kind}", raw, ["scale: created by the tool"]
        reqs = edit_requests(g)
        for ei in ([bi % len(reqs), (bi + 2) % len(reqs)] if quick else range(len(reqs))):
            what, req = reqs[ei]
            with open(work, "wb") as fd:
                fd.write(raw)
            try:
                trees.quiet(edit_torrent, work, dict(req))
            except Exception as e:  # noqa
                ctx.broken.append(f"edit_torrent failed ({what}) on {label}: {type(e).__name__}: {e}")
                continue
            yield f"{label} edited: {what}", "edited", oracle.read(work), ["scale: edited by the tool"]
        meta = oracle.bdecode_strict(raw)
        for vi in range(2 if quick else 8):
            yield f"{label} reference variant {vi}", "reference variant of a created metafile", variant(meta, g), []


def scale_classes(raw, exp):
    """boundary classes of a metafile at scale, read off its bytes"""
    def bucket(n):
        return "64..128 KiB" if n < 1 << 17 else ("128..256 KiB" if n < 1 << 18 else ("256 KiB..1 MiB" if n < 1 << 20 else ">= 1 MiB"))
    cl = []
    for what, n in (("info dictionary", exp["info_len"]), ("metafile", len(raw))):
        if n >= BIG:
            cl.append(f"scale: {what} {bucket(n)}")
            for r, txt in ((0, "exactly a multiple of 64 KiB"), (1, "one byte above a multiple of 64 KiB"),
                           (BIG - 1, "one byte below a multiple of 64 KiB")):
                if n % BIG == r:
                    cl.append(f"scale: {what} {txt}")
    if len(raw) > 1 << 18 and exp["has_layers"] and exp["tr"] and exp["ws"]:
        cl.append("scale: metafile > 256 KiB with piece layers, trackers and web seeds")
    if exp["info_len"] >= 1 << 17 and exp["tr"] and exp["ws"]:
        cl.append("scale: info dictionary >= 128 KiB with trackers and web seeds")
    if len(exp["tr"]) >= 1000 or len(exp["ws"]) >= 1000:
        cl.append("scale: >= 1000 trackers or web seeds")
    return cl


REQUIRED_SCALE = ["scale: info dictionary 128..256 KiB", "scale: info dictionary 256 KiB..1 MiB", "scale: info dictionary >= 1 MiB",
                  "scale: metafile 256 KiB..1 MiB", "scale: info dictionary exactly a multiple of 64 KiB",
                  "scale: info dictionary one byte above a multiple of 64 KiB", "scale: info dictionary one byte below a multiple of 64 KiB",
                  "scale: metafile exactly a multiple of 64 KiB", "scale: metafile one byte above a multiple of 64 KiB",
                  "scale: metafile > 256 KiB with piece layers, trackers and web seeds",
                  "scale: info dictionary >= 128 KiB with trackers and web seeds", "scale: >= 1000 trackers or web seeds",
                  "scale: created by the tool", "scale: edited by the tool"] + \
    ["scale: big " + c for c in BIG_COMPONENTS[3]]

REQUIRED = [f"{k} x version {v}" for k in ("v1", "v2", "hybrid") for v in range(4)] + TSHAPES + WSHAPES + REQUIRED_SCALE + \
    [f"{w} has {c!r}" for w in ("name", "url") for c in RESERVED] + \
    ["name non-ASCII", "url non-ASCII", "name not UTF-8", "url not UTF-8", "multi-tier announce-list", "foreign extra keys",
     "origin: created", "origin: edited", "origin: reference variant of a created metafile", "origin: reference encoder",
     "origin: hand-built dictionary", "route lib", "route get_magnet", "route cli", "route cli-default", "route subprocess",
     "quote: single byte", "unquote: single byte", "unquote: '%' + two bytes",
     "v1: pieces is the empty string (zero-length files only)", "hybrid: pieces is the empty string (zero-length files only)",
     "path: metafile next to <path>.torrent describing something else", "path: the metafile's own name ends with .torrent",
     "path: the metafile's name has no .torrent extension", "path spelled absolute", "path spelled relative", "path route lib",
     "path route cli m", "create -m: printed URI vs the file written", "create -m: ini meta-version differs from the command line's",
     "create -m: ini meta-version 3, command line default 1", "create -m: ini meta-version 3, command line 2",
     "create -m: ini meta-version 2, command line 1", "create -m: config cwd", "create -m: config home", "create -m: config config-path"]


# ------------------------------------------------------------------------ path arguments: neighbours of the metafile; create -m
# The metafile the URI must describe is the one the PATH ARGUMENT names.  Everything above keeps the metafile alone in a scratch
# directory under one fixed name and an absolute path.  Here the file P sits on a shelf next to OTHER metafiles whose names are
# extensions / truncations of its own -- P + '.torrent' ('album' next to 'album.torrent', 'data.torrent' next to
# 'data.torrent.torrent'), P without its '.torrent', P + '.TORRENT' -- each describing something else (another name, other
# hashes, other trackers), and P is spelled absolute, relative to the working directory, './'-relative and through the parent
# ('../shelf/P'), for the library call, get_magnet, `magnet`, the alias `m`, in process and in a fresh interpreter.
SIB_NAMES = ["album", "data.torrent", "set.v2.torrent", "a b&c=d", "Ubuntu.TORRENT", "x"]
SIB_SPELLINGS = ["absolute", "relative", "dot-relative", "through the parent"]
SIB_ROUTES = ["lib", "get_magnet", "cli magnet", "cli m", "subprocess magnet", "subprocess m"]


def sibling_names(name):
    out = [name + ".torrent", name + ".TORRENT"]
    if name.lower().endswith(".torrent") and len(name) > 8:
        out.append(name[:-8])
    return out


def sibling_case(tmp, n, raw, name, others, spelling, route, v):
    """the metafile `raw` stored as shelf/<name> next to `others` [(file name, bytes)]; returns (uri, problems | None, exception | None)"""
    d = os.path.join(tmp, f"sib{n}", "shelf")
    os.makedirs(d)
    for nm, r in [(name, raw)] + list(others):
        with open(os.path.join(d, nm), "wb") as fd:
            fd.write(r)
    arg = {"absolute": os.path.join(d, name), "relative": name, "dot-relative": "." + os.sep + name,
           "through the parent": os.path.join("..", "shelf", name)}[spelling]
    cmd = route.split()[-1] if " " in route else "magnet"
    old = os.getcwd()
    try:
        if route.startswith("subprocess"):
            p = subprocess.run([core.PY, "-m", "torrentfile", cmd, arg, "--meta-version", str(v)], cwd=d,
                               env=core.impl_env({"HOME": tmp}), capture_output=True, text=True, timeout=120)
            if p.returncode != 0:
                raise RuntimeError(f"exit {p.returncode}: {p.stderr[-300:]}")
            uri = shown = printed_uri(p.stdout)
        else:
            os.chdir(d)
            sink = io.StringIO()
            with contextlib.redirect_stdout(sink), contextlib.redirect_stderr(io.StringIO()):
                if route == "lib":
                    from torrentfile.commands import magnet
                    uri = magnet(arg, version=v)
                elif route == "get_magnet":
                    from argparse import Namespace
                    from torrentfile.commands import get_magnet
                    uri = get_magnet(Namespace(metafile=arg, meta_version=str(v)))
                else:
                    from torrentfile.cli import execute
                    uri = execute([cmd, arg, "--meta-version", str(v)])
            shown = printed_uri(sink.getvalue())
    except Exception as e:  # noqa
        return None, [("magnet-raised", "a magnet URI", f"{type(e).__name__}: {e}")], e
    finally:
        os.chdir(old)
    probs = judge(raw, v, uri)
    if probs is not None and shown != uri:
        probs = probs + [("printed-differs-from-returned", uri, shown)]
    return uri, probs, None


# `create -m` / `magnet = true` prints the URI of the metafile it has just written.  Which version that file has is decided by
# --meta-version AND, with --config, by the ini file (found in the working directory, in ~/.torrentfile/ or through --config-path),
# whose meta-version key wins.  The printed URI must carry the hashes of the FILE WRITTEN (nobody asked for one version of the
# magnet: the automatic row of the xt table for that file), its name, trackers and web seeds.
CFG_LOCS = ["no config", "cwd", "home", "config-path"]
CFG_MAGNET = ["-m", "ini magnet = true", "--magnet and ini magnet = true"]


def config_magnet_case(tmp, n, ini_version, cli_version, locate, magnet_via, cmd):
    """one `create` in a fresh interpreter; everything is a function of the arguments.
       returns (description, written metafile bytes | None, printed URI | None, problems)"""
    import random
    sb = os.path.join(tmp, f"cm{n}")
    wd, home, data, outdir, cfgdir = (os.path.join(sb, x) for x in ("wd", "home", "data", "out", "cfg"))
    for x in (wd, home, data, outdir, cfgdir):
        os.makedirs(x)
    payload = os.path.join(data, "cfg payload &=+#")
    rng = random.Random("c11-cfgmagnet")
    trees.write_tree(payload, {("a b",): rng.randbytes(PL + 9), ("d", "c&d"): rng.randbytes(100), ("d", "e"): b""})
    outfile = os.path.join(outdir, "made.torrent")
    trackers = ["http://t.example/a?x=1&y=2", "udp://u.example:6969/b+c"]
    seeds = ["http://w.example/s 1/x%7Ey#z"]
    argv = [cmd, "--prog", "0", "--piece-length", "14"]
    ini = None
    if locate != "no config":
        argv += ["--config"]
        lines = ["[config]", "announce =", *["    " + t for t in trackers], "web-seed =", *["    " + s for s in seeds]]
        if ini_version:
            lines.append(f"meta-version = {ini_version}")
        if magnet_via != "-m":
            lines.append("magnet = true")
        ini = "\n".join(lines) + "\n"
        if locate == "config-path":
            path = os.path.join(cfgdir, "settings.ini")
            argv += ["--config-path", path]
        elif locate == "cwd":
            path = os.path.join(wd, "torrentfile.ini")
        else:
            path = os.path.join(home, ".torrentfile", "torrentfile.ini")
            os.makedirs(os.path.dirname(path))
        with open(path, "w", encoding="utf-8") as fd:
            fd.write(ini)
    else:
        argv += ["--announce", *trackers, "--web-seed", *seeds]
    if locate == "no config" or magnet_via != CFG_MAGNET[1]:
        argv += ["-m"] if magnet_via == "-m" else ["--magnet"]
    if cli_version:
        argv += ["--meta-version", cli_version] if n % 2 else ["--meta-version=" + cli_version]
    argv += ["-o", outfile, payload]
    desc = {"kind": "create-config-magnet", "ini_version": ini_version, "cli_version": cli_version, "config file": locate,
            "magnet_via": magnet_via, "command": cmd, "n": n, "ini": ini, "argv": [a.replace(sb, "<sandbox>") for a in argv],
            "cwd": "<sandbox>/wd"}
    p = subprocess.run([core.PY, "-m", "torrentfile"] + argv, cwd=wd, env=core.impl_env({"HOME": home}), capture_output=True,
                       text=True, timeout=300)
    raw = oracle.read(outfile) if os.path.isfile(outfile) else None
    if p.returncode != 0 or raw is None:
        return desc, raw, None, [("create-raised", "a metafile and its magnet URI", f"exit {p.returncode}: {p.stderr[-300:]}")]
    uri = printed_uri(p.stdout)
    if uri is None:
        return desc, raw, None, [("create-printed-no-single-magnet-uri", "one line 'magnet:?...' on stdout",
                                  [ln for ln in p.stdout.split("\n") if "magnet:" in ln])]
    return desc, raw, uri, judge(raw, 0, uri) or []


def path_cases(ctx, g, tmp):
    """the two families above; failures carry everything their replay needs"""
    quick = ctx.tier == "quick"
    rng = g.rng
    files = [(("a",), rng.randbytes(100)), (("d", "b"), rng.randbytes(PL + 1))]

    def small(ver):
        base = oracle.bdecode_strict(oracle.ref_metafile(g.text(lo=1, hi=3), files, PL, ver, single=False))
        return variant(base, g)
    k = rng.randrange(60)
    n = 0
    for j, name in enumerate(SIB_NAMES if not quick else SIB_NAMES[:4]):
        ver = (3, 1, 2)[(k + j) % 3]
        raw = small(ver)
        exp = expected_of(raw)
        others = []
        for i, nm in enumerate(sibling_names(name)):
            for _ in range(20):
                o = small((1, 2, 3)[(k + j + i) % 3])
                eo = expected_of(o)
                if eo["btih"] != exp["btih"] and eo["name"] != exp["name"]:
                    break
            others.append((nm, o))
        if quick:
            combos = [(SIB_SPELLINGS[(k + j) % 4], "lib"), (SIB_SPELLINGS[(k + j + 1) % 4], SIB_ROUTES[1 + (k + j) % 3]),
                      (SIB_SPELLINGS[(k + j + 2) % 4], SIB_ROUTES[1 + (k + j + 1) % 3])]
            if j < 2:
                combos.append((SIB_SPELLINGS[(k + j + 3) % 4], SIB_ROUTES[4 + (k + j) % 2]))
        else:
            combos = [(s, r) for s in SIB_SPELLINGS for r in SIB_ROUTES]
        for ci, (spelling, route) in enumerate(combos):
            versions = [0] if exp["kind"] != "hybrid" else ([0, 1 + (k + ci) % 3] if quick else [0, 1, 2, 3])
            for v in versions:
                if expected_xts(exp, v) is None:
                    continue
                n += 1
                desc = {"kind": "magnet-path-with-siblings", "metafile_hex": raw.hex(), "file_name": name,
                        "siblings": {nm: o.hex() for nm, o in others}, "spelling": spelling, "route": route, "version": v, "n": n}
                ctx.case(key=(hashlib.sha1(raw).hexdigest(), v, route, "siblings", name, spelling), nontrivial=True,
                         classes=["path: metafile next to <path>.torrent describing something else", "path spelled " + spelling,
                                  "path route " + route, f"{exp['kind']} x version {v}"] +
                         (["path: the metafile's own name ends with .torrent"] if name.lower().endswith(".torrent") else
                          ["path: the metafile's name has no .torrent extension"]))
                uri, probs, exc = sibling_case(tmp, n, raw, name, others, spelling, route, v)
                if probs:
                    # which file does the URI describe instead?
                    told = [nm for nm, o in others if uri and not judge(o, v, uri)]
                    ctx.fail("path-" + probs[0][0], desc, {p[0]: show(p[1]) for p in probs},
                             {"uri": uri, **{p[0]: show(p[2]) for p in probs},
                              "the URI describes the neighbour": told or None},
                             detail=f"shelf: {name!r} (the argument) next to {[nm for nm, _ in others]}")
    # ------------------------------------------------------------ create -m / magnet = true
    VERS = [None, "1", "2", "3"]
    if quick:
        combos = [("3", None), ("3", "2"), ("2", "1"), ("1", "3"), ("3", "2"), ("2", "1"), ("3", None), ("2", None), (None, "3"),
                  ("1", "2"), (None, "2")]
        ccases = [(iv, cv, "no config" if iv is None and i % 2 else CFG_LOCS[1 + (k + i) % 3], CFG_MAGNET[(k + i) % 3],
                   ("create", "new")[(k + i) % 2]) for i, (iv, cv) in enumerate(combos)]
    else:
        ccases = [(iv, cv, loc, CFG_MAGNET[(i + j + m) % 3], ("create", "new")[(i + j) % 2])
                  for i, iv in enumerate(VERS) for j, cv in enumerate(VERS) for m, loc in enumerate(CFG_LOCS)
                  if not (loc == "no config" and iv is not None)]
    from concurrent.futures import ThreadPoolExecutor
    with ThreadPoolExecutor(max_workers=6) as ex:          # fresh interpreters on sandboxes of their own
        results = list(ex.map(lambda c: config_magnet_case(tmp, c[0], *c[1]), enumerate(ccases)))
    for (iv, cv, loc, via, cmd), (desc, raw, uri, probs) in zip(ccases, results):
        kind = expected_of(raw)["kind"] if raw else "?"
        differ = loc != "no config" and iv is not None and iv != (cv or "1")
        ctx.case(key=("create-m", iv, cv, loc, via, cmd), nontrivial=True,
                 classes=["create -m: printed URI vs the file written", "create -m: config " + loc, "create -m: magnet asked by " + via,
                          f"create -m: file written is {kind}",
                          "create -m: ini meta-version " + ("differs from the command line's" if differ else
                                                            "absent" if iv is None else "equals the command line's")] +
                 ([f"create -m: ini meta-version {iv}, command line {cv or 'default 1'}"] if differ else []))
        if probs:
            ctx.fail("create-m-" + probs[0][0], dict(desc, metafile_written_hex=raw.hex() if raw else None),
                     {p[0]: show(p[1]) for p in probs}, {"uri": uri, **{p[0]: show(p[2]) for p in probs}},
                     detail=f"file written: {kind}; the URI create prints must be the automatic magnet of that file")


# ----------------------------------------------------------------------------------------------------- the run
def uri_tie(ctx, model_ok):
    """urllib.parse quote_plus / unquote_plus against the extracted Model/Uri.v"""
    rng = ctx.rng
    g = Gen(rng)
    qs, us = [], []
    for i in range(256):
        qs.append((bytes([i]), "quote: single byte"))
        us.append((bytes([i]), "unquote: single byte"))
    for a in range(256):
        for b in range(256):
            us.append((bytes([37, a, b]), "unquote: '%' + two bytes"))
    if ctx.tier != "quick":
        for a in range(256):
            for b in range(256):
                qs.append((bytes([a, b]), "quote: two bytes"))
                us.append((bytes([a, b]), "unquote: two bytes"))
    nrand = 2000 if ctx.tier == "quick" else 30000
    ualpha = [b"%", b"%", b"+", b" ", b"&", b"=", b"#", b"%2", b"%C3%A9", b"%c3%a9", b"%zz", b"%%41", b"%4", b"\xff", b"\xc3\xa9"] + \
        [bytes([c]) for c in b"0123456789abcdefABCDEFgGxz/?:"]
    for i in range(nrand):
        s = g.text(lo=0, hi=10, control=True) if i % 3 else g.url(control=True)
        b = s.encode() if i % 7 else g.raw_bytes(s)
        qs.append((b, "quote: random string"))
        us.append((b"".join(rng.choice(ualpha) for _ in range(rng.randrange(0, 14))) if i % 2 else U.quote_plus(b).encode(),
                   "unquote: random string"))
    py_q, py_u = [], []
    for b, cl in qs:
        out = U.quote_plus(b)
        try:                       # commands.magnet passes a str whenever pyben decoded one: both entry points must agree
            if U.quote_plus(b.decode("utf-8")) != out:
                ctx.fail("quote-plus-str-bytes-differ", {"bytes_hex": b.hex()}, out, U.quote_plus(b.decode("utf-8")))
        except UnicodeDecodeError:
            pass
        py_q.append(out.encode("ascii"))
        ctx.case(key=("quote", b), classes=[cl], nontrivial=not b.isalnum())
    for b, cl in us:
        py_u.append(U.unquote_to_bytes(b.replace(b"+", b" ")))
        ctx.case(key=("unquote", b), classes=[cl], nontrivial=(b"%" in b or b"+" in b))
    # the judge's reading of "URL-decodes to": parse_qsl on a one-parameter query is the same function on escaped text
    for b, _ in qs[:256] + qs[-300:]:
        got = U.parse_qsl("k=" + U.quote_plus(b), keep_blank_values=True, strict_parsing=True, encoding="utf-8", errors="surrogateescape")
        if [(k, x.encode("utf-8", "surrogateescape")) for k, x in got] != [("k", b)]:
            ctx.fail("urllib-roundtrip", {"bytes_hex": b.hex()}, b, got)
    if not model_ok:
        return
    mq = modelrun.run("quote", [(b.hex(),) for b, _ in qs])
    mu = modelrun.run("unquote", [(b.hex(),) for b, _ in us])
    if mq is None or mu is None:
        ctx.broken.append("extracted edit driver failed to run (quote / unquote)")
        return
    for (b, _), want, got in zip(qs, py_q, mq):
        ctx.traces_validated += 1
        if got != want.hex():
            ctx.disagree("Model/Uri.v quote_plus vs urllib.parse.quote_plus", {"fn": "quote", "bytes_hex": b.hex()}, got, want.hex())
    for (b, _), want, got in zip(us, py_u, mu):
        ctx.traces_validated += 1
        if got != want.hex():
            ctx.disagree("Model/Uri.v unquote_plus vs urllib.parse.unquote_to_bytes after '+' -> ' '",
                         {"fn": "unquote", "bytes_hex": b.hex()}, got, want.hex())
    if ctx.tier != "quick":
        ctx.extra["quote_unquote_exhaustive"] = "all strings of length <= 2 and all '%XY' triples"


def run(ctx, model_ok):
    core.use_repo_in_process()
    uri_tie(ctx, model_ok)
    g = Gen(ctx.rng)
    quick = ctx.tier == "quick"
    model_cases = []       # (raw hex, version, uri or None, input description)
    shrunk_kinds = set()
    n_sub = 0
    with core.Scratch("vc11_") as tmp:
        os.environ["HOME"] = tmp
        path = os.path.join(tmp, "m.torrent")
        n_big = n_sub_big = 0
        for idx, item in enumerate(metafiles(ctx, g, tmp)):
            label, origin, raw = item[:3]
            try:
                exp = expected_of(raw)
            except Exception as e:  # noqa
                ctx.broken.append(f"reference decoder rejects a generated metafile ({label}): {e}")
                continue
            with open(path, "wb") as fd:
                fd.write(raw)
            digest = hashlib.sha1(raw).hexdigest()
            hexraw = raw.hex()
            big = len(raw) >= BIG
            n_big += big
            base_classes = [exp["tshape"], exp["wshape"], "origin: " + ("created" if origin.startswith("created by") else origin)] + \
                string_classes(exp) + (["multi-tier announce-list"] if exp["multi_tier"] else []) + \
                (["foreign extra keys"] if any(k not in (b"created by", b"creation date", b"httpseeds") for k in exp["extra"]) else []) + \
                ([f"{exp['kind']}: pieces is the empty string (zero-length files only)"] if exp["empty_pieces"] else []) + \
                ([origin] if origin.startswith("created by") else []) + \
                (list(item[3]) + scale_classes(raw, exp) if len(item) > 3 or big else [])
            lib_uri = {}
            # at scale the cost of one call is that of pyben's decoder (it copies the rest of the buffer for every element): the quick
            # tier asks for version 0 and ONE other version in rotation, and sends a sample (<= MODEL_BOUND bytes) to the model
            versions = [0, 1 + n_big % 3] if big and quick else range(4)
            for v in versions:
                in_model = not big or (len(raw) <= MODEL_BOUND and (not quick or (v == 0 and len(raw) <= MODEL_BOUND // 2)))
                routes = ["lib"]
                if (idx % (5 if quick else 2) == 0 and not big) or (big and (n_big + v) % 2 == 0):
                    routes += (["get_magnet", "cli"] if not big or not quick else [["get_magnet"], ["cli"]][n_big // 2 % 2]) + \
                        (["cli-default"] if v == 0 and (not big or n_big % 4 == 0) else [])
                if idx % (40 if quick else 60) == 7 and v in (0, 3) and n_sub < (4 if quick else 200) and not big:
                    routes += ["subprocess"] + (["subprocess-default"] if v == 0 else [])
                    n_sub += 1
                elif big and n_big % (12 if quick else 10) == 2 and v in (0, 3) and n_sub_big < (1 if quick else 40):
                    routes += ["subprocess"] + (["subprocess-default"] if v == 0 and not quick else [])
                    n_sub_big += 1
                for route in routes:
                    desc = {"metafile_hex": hexraw, "version": v, "route": route, "label": label, "origin": origin}
                    inside = expected_xts(exp, v) is not None
                    ctx.case(key=(digest, v, route), nontrivial=True,
                             classes=base_classes + [f"{exp['kind']} x version {v}", "route " + route.replace("subprocess-default", "subprocess")]
                             + ([] if inside else ["v2-only asked for version 1: outside the quantifier, model tie only"])
                             + (["scale: judged end to end only (not sent to the extracted model)"] if big and not in_model else []),
                             sample=None)
                    try:
                        uri, shown = run_route(route, path, v, tmp)
                    except Exception as e:  # noqa
                        if route == "lib" and in_model:
                            model_cases.append((hexraw, v, None, desc))
                        if inside:
                            ctx.fail("magnet-raised", desc, "a magnet URI", f"{type(e).__name__}: {e}")
                        continue
                    if route == "lib":
                        lib_uri[v] = uri
                        if in_model:
                            model_cases.append((hexraw, v, uri, desc))
                        if len(ctx.samples) < 3 and idx % 17 == 3 and v == 0:
                            ctx.samples.append({"metafile": label, "kind": exp["kind"], "version": v, "uri": uri})
                    elif lib_uri.get(0 if route.endswith("default") else v) != uri:
                        ctx.fail("route-differs-from-library", desc, lib_uri.get(0 if route.endswith("default") else v), uri,
                                 detail="get_magnet / CLI --meta-version must select the same version as commands.magnet(version=)")
                    if not inside:
                        if route == "lib" and b"xt=" in uri.encode():
                            ctx.notes.append("a v2-only metafile asked for version 1 produced an xt parameter (observation only)")
                        continue
                    probs = judge(raw, v, uri, exp)
                    if shown != uri:
                        probs.append(("printed-differs-from-returned", uri, shown))
                        pj = judge(raw, v, shown, exp) if isinstance(shown, str) else None
                        probs += [("printed-" + k, a, b) for k, a, b in (pj or [])]
                    if probs and len(ctx.failures) < 400:
                        kind = probs[0][0]
                        small = raw
                        if kind not in shrunk_kinds and route in ("lib", "get_magnet", "cli"):
                            shrunk_kinds.add(kind)
                            small = shrink(raw, v, route, kind, tmp, budget=2500 if big else 800)
                            with open(path, "wb") as fd:      # shrink used its own file; keep ours intact
                                fd.write(raw)
                        if small != raw:
                            suri, sprobs, _ = problems_on(small, v, route, tmp)
                            sprobs = [p for p in sprobs if p[0] == kind] + [p for p in sprobs if p[0] != kind]
                            ctx.fail(kind, dict(desc, metafile_hex=small.hex(), shrunk_from_bytes=len(raw)),
                                     {p[0]: show(p[1]) for p in sprobs}, {"uri": suri, **{p[0]: show(p[2]) for p in sprobs}},
                                     detail=f"metafile ({len(small)} bytes): {small[:3000]!r}" + (" ..." if len(small) > 3000 else ""))
                        else:
                            ctx.fail(kind, desc, {p[0]: show(p[1]) for p in probs}, {"uri": uri, **{p[0]: show(p[2]) for p in probs}},
                                     detail=f"metafile: {raw[:1500]!r}")
        path_cases(ctx, g, tmp)
        if model_ok:
            outs = modelrun.run("magnet", [(h, str(v)) for h, v, _, _ in model_cases])
            if outs is None:
                ctx.broken.append("extracted edit driver failed to run (magnet)")
            else:
                for (h, v, uri, desc), o in zip(model_cases, outs):
                    ctx.traces_validated += 1
                    want = "raised" if uri is None else uri.encode("utf-8", "surrogateescape").hex()
                    if o == "none":
                        if uri is not None:
                            ctx.classes["shape outside the model (model none, tool answers)"] = \
                                ctx.classes.get("shape outside the model (model none, tool answers)", 0) + 1
                        continue
                    if o != want:
                        mtxt = bytes.fromhex(o).decode("utf-8", "replace") if all(c in "0123456789abcdef" for c in o) else o
                        ctx.disagree("Model/Magnet.v vs commands.magnet (returned URI)", desc, mtxt, uri if uri is not None else "raised")
    require_classes(ctx, REQUIRED)
    outside = ctx.classes.get("shape outside the model (model none, tool answers)", 0)
    if outside:
        ctx.notes.append(f"{outside} cases had a shape outside the model; they were judged end to end only")


# ------------------------------------------------------------------------------------------------------ replay
def _replay_item(item, tmp):
    bad = 0
    if item.get("kind") == "magnet-path-with-siblings":
        raw = bytes.fromhex(item["metafile_hex"])
        others = [(nm, bytes.fromhex(h)) for nm, h in item["siblings"].items()]
        v = int(item["version"])
        print(f"shelf: {item['file_name']!r} = {raw[:600]!r}")
        for nm, o in others:
            print(f"       {nm!r} = {o[:600]!r}")
        print(f"argument spelled {item['spelling']}, route {item['route']}, version request {v}")
        uri, probs, exc = sibling_case(tmp, "r%d" % item.get("n", 0), raw, item["file_name"], others, item["spelling"], item["route"], v)
        print("tool:  ", uri if exc is None else f"raised {type(exc).__name__}: {exc}")
        exp = expected_of(raw)
        print(f"property: kind={exp['kind']} xt={expected_xts(exp, v)} dn={exp['name']!r} tr={exp['tr']!r} ws={exp['ws']!r}")
        for k, a, b in probs or []:
            print(f"verdict: VIOLATION {k}: expected {a!r} observed {b!r}")
            bad = 1
        if not probs:
            print("verdict: the property holds on this input")
    elif item.get("kind") == "create-config-magnet":
        desc, raw, uri, probs = config_magnet_case(tmp, item.get("n", 0), item["ini_version"], item["cli_version"], item["config file"],
                                                   item["magnet_via"], item["command"])
        print("argv:", desc["argv"], "\nini:", desc["ini"])
        print("create printed:", uri)
        if raw:
            exp = expected_of(raw)
            print(f"file written: kind={exp['kind']} xt={expected_xts(exp, 0)} dn={exp['name']!r} tr={exp['tr']!r} ws={exp['ws']!r}")
        for k, a, b in probs or []:
            print(f"verdict: VIOLATION {k}: expected {a!r} observed {b!r}")
            bad = 1
        if not probs:
            print("verdict: the property holds on this input")
    elif "metafile_hex" in item:
        raw = bytes.fromhex(item["metafile_hex"])
        v = int(item.get("version", 0))
        route = item.get("route", "lib")
        print(f"metafile ({len(raw)} bytes): {raw[:4000]!r}" + (" ... (the whole file is in metafile_hex)" if len(raw) > 4000 else ""))
        print(f"version request: {v}   route: {route}")
        uri, probs, exc = problems_on(raw, v, route, tmp)
        print("tool:  ", uri if exc is None else f"raised {type(exc).__name__}: {exc}")
        try:
            exp = expected_of(raw)
            print(f"property: kind={exp['kind']} xt={expected_xts(exp, v)} dn={exp['name']!r} tr={exp['tr']!r} ws={exp['ws']!r}")
        except Exception as e:  # noqa
            print("reference decoder rejects the metafile:", e)
        if probs is None:
            print("verdict: outside the quantifier (v2-only metafile asked for version 1)")
        elif probs:
            bad = 1
            for k, a, b in probs:
                print(f"verdict: VIOLATION {k}: expected {a!r} observed {b!r}")
        else:
            print("verdict: the property holds on this input")
        outs = modelrun.run("magnet", [(raw.hex(), str(v))])
        if outs:
            m = outs[0]
            mtxt = m if m == "none" else bytes.fromhex(m).decode("utf-8", "replace")
            print("model: ", mtxt)
            if route == "lib" and m != "none" and (uri is None or mtxt != uri):
                print("verdict: model and tool DISAGREE")
                bad = 1
    elif "bytes_hex" in item:
        b = bytes.fromhex(item["bytes_hex"])
        fn = item.get("fn", "quote")
        py = U.quote_plus(b).encode() if fn == "quote" else U.unquote_to_bytes(b.replace(b"+", b" "))
        outs = modelrun.run(fn, [(b.hex(),)])
        print(f"{fn} {b!r}: urllib {py!r} model {bytes.fromhex(outs[0]) if outs else None!r}")
        if not outs or outs[0] != py.hex():
            print("verdict: model and urllib DISAGREE")
            bad = 1
    return bad


def replay(ctx, data):
    core.use_repo_in_process()
    items = []
    if isinstance(data.get("input"), dict):
        items.append(data["input"])
    for d in data.get("disagreements", []) or []:
        if isinstance(d.get("input"), dict):
            items.append(d["input"])
    rc = 0
    with core.Scratch("vc11r_") as tmp:
        os.environ["HOME"] = tmp
        for it in items:
            rc |= _replay_item(it, tmp)
    if data.get("finding"):
        p = subprocess.run([core.PY, os.path.join(core.VERIF, "harness", "repro.py"), data["finding"]],
                           env=core.impl_env({"HOME": "/nonexistent-home"}), capture_output=True, text=True, timeout=600)
        print(p.stdout.strip())
        rc |= 1 if " PRESENT" in p.stdout else 0
    for b in data.get("broken", []) or []:
        print("broken:", b[:600])
        rc = 1
    if not items and not data.get("finding") and not data.get("broken"):
        print("nothing to replay in this file")
    return rc
