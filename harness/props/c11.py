"""C11 -- the magnet URI carries the true info-hash(es), the name, all trackers and all web seeds."""
import io
import os
import copy
import hashlib
import contextlib
import subprocess
import urllib.parse as U

import core
import trees
import modelrun
from ref import oracle
from props.v2_common import require_classes

GEN_FILES = []
EXTRA_TARGETS = ["Extract/ExtractEdit.vo"]
AREAS = ["edit"]
RULE = ("metafiles: every creator of the tool (TorrentFile, TorrentFile align, TorrentFileV2, TorrentFileHybrid, TorrentAssembler v2 / hybrid) "
        "on payloads whose on-disk names contain space & = % + # ? : and non-ASCII text, with random tracker / web-seed / http-seed lists "
        "over an alphabet rich in reserved characters, percent-escape look-alikes and multi-byte UTF-8; the same files edited by edit_torrent "
        "(tracker set as list / as string / removed, url-list set / removed, info field edited); reference-encoded variants of them and "
        "metafiles of the reference encoder and hand-built dictionaries with arbitrary extra keys (non-UTF-8 keys, keys named like magnet "
        "parameters, decoy 'info' text before the info dictionary), cycling announce only / announce-list only / both / neither x url-list "
        "list / string / absent, multi-tier lists, names with '/' and names / URLs that are not UTF-8.  Every metafile is asked for version "
        "0, 1, 2 and 3 through commands.magnet; a subset also through commands.get_magnet, cli.execute and a fresh `python -m torrentfile "
        "magnet` process.  A case is distinct by (SHA-1 of the metafile bytes, version, route).  Model tie: returned string = extracted "
        "Model/Magnet.v on the file bytes; quote_plus / unquote_plus of urllib = extracted Model/Uri.v on all 256 bytes, all '%XY' triples, "
        "(thorough: all 65536 two-byte strings) and random strings.  End to end, without the model: the URI is parsed with urllib.parse "
        "(urlsplit, strict parse_qsl) and xt must equal the table over SHA-1 / SHA-256 of the raw info span located by the reference "
        "strict decoder, dn / tr / ws must decode to exactly name / BEP 12 tracker list / BEP 19 web-seed list, no other parameter.")
TRUSTED_BASE = [
    "Coq 8.16.1 kernel; theorems closed under the global context",
    "hand models Model/Magnet.v, Model/Uri.v, Model/Bencode.v tied to commands.magnet / urllib.parse / pyben by differential execution",
    "Python str/bytes duality collapsed to raw bytes (a str is its UTF-8 encoding)",
    "SHA-1 / SHA-256 of the OCaml driver (self-tested against hashlib vectors) stand for the Section variables sha1hex / sha256hex",
    "urllib.parse.urlsplit / parse_qsl are the reading of 'URL-decode' in the end-to-end judge (tied to the model's unquote_plus / parse_query)",
]
ASSUMPTIONS = ["metafiles are canonical bencode with duplicate-free keys (what the reference strict decoder accepts)",
               "announce-list is a list of lists of strings, announce a string, url-list a string or a list of strings; no empty-string URL",
               "a v2-only metafile asked for version 1 is outside the quantifier (the tool then emits no xt: observed, counted, not judged)"]

RESERVED = [" ", "&", "=", "%", "+", "#", "/", "?", ":"]
# precomposed AND decomposed / compatibility forms: the URI must carry the name's own code points, not a normalised spelling
NONASCII = ["é", "ü", "世", "日本", "😀", "\u00a0", "ß", "Ж", "e\u0301", "A\u030a", "\u212b", "\u2126", "\u1112\u1161\u11ab", "\ufb01", "\uf900"]
PLAIN = list("abzAZ09-_.~") + ["seed", "file", "announce", "x1"]
OTHER = list("'\"<>[]{}|\\^`@!$()*,;") + ["%20", "%2B", "%2b", "%C3%A9", "%zz", "%4", "%%", "++", "&amp;", "a=b&c=d", "?k=v", "#top", "+ +"]
CONTROL = ["\t", "\n", "\r", "\x01", "\x7f"]
ATOMS = RESERVED * 2 + NONASCII + PLAIN + OTHER
MUSTS = RESERVED + ["nonascii", None]
TSHAPES = ["announce only", "announce-list only", "announce and announce-list", "no tracker"]
WSHAPES = ["url-list list", "url-list string", "url-list absent"]
PARAM_KEYS = ("xt", "dn", "tr", "ws")
PL = 16384


# ------------------------------------------------------------------------------------------------ generators
class Gen:
    def __init__(self, rng):
        self.rng = rng
        self.n = 0
        self.shape = 0

    def must(self):
        self.n += 1
        return MUSTS[self.n % len(MUSTS)]

    def text(self, disk=False, lo=1, hi=6, control=False):
        rng = self.rng
        must = self.must()
        pool = ATOMS + (CONTROL if control else [])
        parts = [rng.choice(pool) for _ in range(rng.randrange(lo, hi + 1))]
        if must == "nonascii":
            parts.insert(rng.randrange(len(parts) + 1), rng.choice(NONASCII))
        elif must:
            parts.insert(rng.randrange(len(parts) + 1), must)
        s = "".join(parts)
        if disk:
            s = s.replace("/", "-").replace("\x00", "")
            if s.strip(". ") == "":
                s = "n" + s
        return s

    def url(self, control=False):
        rng = self.rng
        scheme = rng.choice(["http://", "https://", "udp://", "http://", "wss://", ""])
        host = rng.choice(["t.example", "träcker.example", "10.0.0.1", "[::1]", "seed.example", "例え.jp"])
        port = rng.choice(["", "", ":80", ":6969"])
        return scheme + host + port + "/" + self.text(lo=0, hi=5, control=control)

    def urls(self, lo=1, hi=3):
        return [self.url() for _ in range(self.rng.randrange(lo, hi + 1))]

    def raw_bytes(self, s):
        """a byte string that is not UTF-8"""
        b = s.encode()
        i = self.rng.randrange(len(b) + 1)
        # cut on a character boundary so that only the inserted bytes are malformed
        while i < len(b) and (b[i] & 0xC0) == 0x80:
            i += 1
        return b[:i] + self.rng.choice([b"\xff", b"\xfe\xff", b"\xc3", b"\x80", b"\xe4\xb8"]) + b[i:]


EXTRA_TOP = [(b"created by", b"ref encoder"), (b"creation date", 1700000000), (b"comment", b"4:infod4:name1:xe"),
             (b"zz-extra", [1, b"x", {b"k": b""}]), (b"httpseeds", [b"http://h/s?a=b&c"]), (b"nodes", [[b"router.example", 6881]]),
             (b"\xff\xfebin", b"\x00\xff"), (b"xt", b"urn:btih:decoy"), (b"dn", b"decoy"), (b"tr", [b"http://decoy/"]),
             (b"ws", b"http://decoy/"), (b"encoding", b"UTF-8"), (b"", b"empty key"), (b"announce-list-2", [[b"http://decoy/"]]),
             (b"a", {b"info": {b"name": b"decoy"}})]
EXTRA_INFO = [(b"source", b"SRC & co"), (b"private", 1), (b"x-unknown", {b"k": 1, b"\xff": [b""]}), (b"\xffkey", b"\xfe"),
              (b"name.utf-8", b"other"), (b"comment", b"in info"), (b"zzz", -5), (b"announce", b"http://decoy-in-info/"),
              (b"url-list", [b"http://decoy-in-info/"]), (b"", 0), (b"announce-list", [[b"http://decoy-in-info/"]])]


def tiers(rng, urls):
    out, cur = [], []
    for u in urls:
        cur.append(u)
        if rng.random() < 0.4:
            out.append(cur)
            cur = []
    if cur:
        out.append(cur)
    if rng.random() < 0.15:
        out.insert(rng.randrange(len(out) + 1), [])
    return out


def variant(meta, g):
    """a reference-encoded variant of a strict-decoded metafile: tracker / url-list shape by a global cycle, random name and extras"""
    rng = g.rng
    m = dict(meta)
    m[b"info"] = dict(meta[b"info"])
    n = g.shape
    g.shape += 1
    tshape, wshape = TSHAPES[n % 4], WSHAPES[(n // 4) % 3]
    for k in (b"announce", b"announce-list", b"url-list"):
        m.pop(k, None)

    def enc(u):
        return g.raw_bytes(u) if rng.random() < 0.08 else u.encode()
    urls = [enc(g.url(control=rng.random() < 0.1)) for _ in range(rng.randrange(1, 4))]
    if tshape == "announce only":
        m[b"announce"] = urls[0]
    elif tshape == "announce-list only":
        m[b"announce-list"] = tiers(rng, urls)
    elif tshape == "announce and announce-list":
        m[b"announce-list"] = [] if rng.random() < 0.06 else tiers(rng, urls)
        m[b"announce"] = urls[0] if rng.random() < 0.5 else enc(g.url())
    seeds = [enc(g.url(control=rng.random() < 0.1)) for _ in range(rng.randrange(1, 4))]
    if wshape == "url-list list":
        m[b"url-list"] = [] if rng.random() < 0.06 else seeds
    elif wshape == "url-list string":
        m[b"url-list"] = seeds[0]
    r = rng.random()
    if r < 0.55:
        m[b"info"][b"name"] = g.text(control=rng.random() < 0.15).encode()
    elif r < 0.65:
        m[b"info"][b"name"] = g.raw_bytes(g.text())
    elif r < 0.68:
        m[b"info"][b"name"] = b""
    for k, v in rng.sample(EXTRA_TOP, rng.randrange(0, 6)):
        m.setdefault(k, v)
    for k, v in rng.sample(EXTRA_INFO, rng.randrange(0, 4)):
        m[b"info"].setdefault(k, v)
    return oracle.bencode(m)


def hand_built(g, ver):
    """a minimal dictionary written down by hand and encoded with the reference bencoder"""
    rng = g.rng
    info = {b"name": b"a", b"piece length": PL}
    top = {}
    if ver in (1, 3):
        info[b"length"] = 1
        info[b"pieces"] = rng.choice([b"x" * 20, rng.randbytes(20)])
    if ver in (2, 3):
        info[b"meta version"] = 2
        info[b"file tree"] = {b"a": {b"": {b"length": 1, b"pieces root": rng.randbytes(32)}}}
        top[b"piece layers"] = {}
    top[b"info"] = info
    return top


# ------------------------------------------------------------------------------ the property, without the model
def expected_of(raw):
    """what the property text demands for this metafile; reference strict decoder + hashlib only"""
    meta, span = oracle.bdecode_strict(raw, want_span=b"info")
    info = meta[b"info"]
    span_bytes = raw[span[0]:span[1]]
    has_v1, has_v2 = b"pieces" in info, b"meta version" in info
    if b"announce-list" in meta:
        tr = [u for tier in meta[b"announce-list"] for u in tier]
    elif b"announce" in meta:
        tr = [meta[b"announce"]]
    else:
        tr = []
    ws = meta.get(b"url-list", [])
    if isinstance(ws, bytes):
        ws = [ws]
    tshape = ("announce and announce-list" if b"announce" in meta else "announce-list only") if b"announce-list" in meta \
        else ("announce only" if b"announce" in meta else "no tracker")
    wshape = "url-list absent" if b"url-list" not in meta else \
        ("url-list string" if isinstance(meta[b"url-list"], bytes) else "url-list list")
    return {"kind": "hybrid" if has_v1 and has_v2 else ("v2" if has_v2 else "v1"),
            "btih": b"urn:btih:" + hashlib.sha1(span_bytes).hexdigest().encode(),
            "btmh": b"urn:btmh:1220" + hashlib.sha256(span_bytes).hexdigest().encode(),
            "name": info[b"name"], "tr": tr, "ws": list(ws), "tshape": tshape, "wshape": wshape,
            "multi_tier": len(meta.get(b"announce-list", [])) > 1,
            "extra": sorted(set(meta) - {b"info", b"announce", b"announce-list", b"url-list", b"piece layers"})}


def expected_xts(exp, v):
    """the xt table of the property; None = outside the quantifier"""
    if exp["kind"] == "v1":
        return [exp["btih"]]
    if exp["kind"] == "v2":
        return None if v == 1 else [exp["btmh"]]
    return {0: [exp["btih"], exp["btmh"]], 3: [exp["btih"], exp["btmh"]], 1: [exp["btih"]], 2: [exp["btmh"]]}[v]


def parse_uri(uri):
    """[(key, value bytes)] via urllib.parse only, or (None, reason)"""
    if not isinstance(uri, str):
        return None, f"not a string: {type(uri).__name__}"
    if "#" in uri:
        return None, "unescaped '#': the rest of the URI is a fragment"
    try:
        sp = U.urlsplit(uri)
        if sp.scheme != "magnet" or sp.netloc or sp.path or sp.fragment:
            return None, f"urlsplit gives scheme={sp.scheme!r} netloc={sp.netloc!r} path={sp.path!r} fragment={sp.fragment!r}"
        pairs = U.parse_qsl(sp.query, keep_blank_values=True, strict_parsing=True, encoding="utf-8", errors="surrogateescape")
    except ValueError as e:
        return None, f"urllib.parse rejects it: {e}"
    return [(k, val.encode("utf-8", "surrogateescape")) for k, val in pairs], None


def judge(raw, v, uri):
    """list of (kind, expected, observed); None when (metafile, version) is outside the quantifier"""
    exp = expected_of(raw)
    want_xt = expected_xts(exp, v)
    if want_xt is None:
        return None
    pairs, why = parse_uri(uri)
    if pairs is None:
        return [("malformed-uri", "magnet:?<query of key=value pairs, no fragment>", why)]
    got = {k: [val for kk, val in pairs if kk == k] for k in PARAM_KEYS}
    out = []
    if got["xt"] != want_xt:
        out.append(("xt-mismatch", want_xt, got["xt"]))
    if got["dn"] != [exp["name"]]:
        out.append(("dn-mismatch", [exp["name"]], got["dn"]))
    if got["tr"] != exp["tr"]:
        out.append(("tr-mismatch", exp["tr"], got["tr"]))
    if got["ws"] != exp["ws"]:
        out.append(("ws-mismatch", exp["ws"], got["ws"]))
    other = [k for k, _ in pairs if k not in PARAM_KEYS]
    if other:
        out.append(("unexpected-parameter", [], other))
    return out


def show(x):
    """byte strings as Python literals (readable in a replay file)"""
    if isinstance(x, (bytes, bytearray)):
        return repr(bytes(x))
    if isinstance(x, (list, tuple)):
        return [show(y) for y in x]
    return x


def string_classes(exp):
    cl = []
    for what, items in (("name", [exp["name"]]), ("url", exp["tr"] + exp["ws"])):
        blob = b"\x00".join(items)
        for c in RESERVED:
            if c.encode() in blob:
                cl.append(f"{what} has {c!r}")
        for it in items:
            try:
                it.decode("utf-8")
                if any(x >= 0x80 for x in it):
                    cl.append(f"{what} non-ASCII")
            except UnicodeDecodeError:
                cl.append(f"{what} not UTF-8")
        if any(x < 0x20 or x == 0x7f for x in blob.replace(b"\x00", b"")):
            cl.append(f"{what} has a control character")
    return sorted(set(cl))


# ------------------------------------------------------------------------------------------ running the tool
def printed_uri(out):
    lines = [ln for ln in out.split("\n") if ln.startswith("magnet:")]
    return lines[0] if len(lines) == 1 else None


def call_lib(path, v):
    from torrentfile.commands import magnet
    sink = io.StringIO()
    with contextlib.redirect_stdout(sink), contextlib.redirect_stderr(io.StringIO()):
        uri = magnet(path, version=v)
    return uri, printed_uri(sink.getvalue())


def call_ns(path, v):
    from argparse import Namespace
    from torrentfile.commands import get_magnet
    sink = io.StringIO()
    with contextlib.redirect_stdout(sink), contextlib.redirect_stderr(io.StringIO()):
        uri = get_magnet(Namespace(metafile=path, meta_version=str(v)))
    return uri, printed_uri(sink.getvalue())


def call_cli(path, v, flag=True):
    from torrentfile.cli import execute
    argv = ["magnet", path] + (["--meta-version", str(v)] if flag else [])
    sink = io.StringIO()
    with contextlib.redirect_stdout(sink), contextlib.redirect_stderr(io.StringIO()):
        uri = execute(argv)
    return uri, printed_uri(sink.getvalue())


def call_sub(path, v, home, flag=True):
    argv = [core.PY, "-m", "torrentfile", "magnet", path] + (["--meta-version", str(v)] if flag else [])
    p = subprocess.run(argv, env=core.impl_env({"HOME": home}), capture_output=True, text=True, timeout=120, cwd=home)
    if p.returncode != 0:
        raise RuntimeError(f"exit {p.returncode}: {p.stderr[-300:]}")
    uri = printed_uri(p.stdout)
    return uri, uri


ROUTES = {"lib": call_lib, "get_magnet": call_ns, "cli": call_cli}


def run_route(route, path, v, home):
    if route == "subprocess":
        return call_sub(path, v, home)
    if route == "cli-default":
        return call_cli(path, 0, flag=False)
    if route == "subprocess-default":
        return call_sub(path, 0, home, flag=False)
    return ROUTES[route](path, v)


def problems_on(raw, v, route, tmp):
    """run the tool on these metafile bytes and judge: (uri, problems or None, exception or None)"""
    path = os.path.join(tmp, "probe.torrent")
    with open(path, "wb") as fd:
        fd.write(raw)
    try:
        uri, shown = run_route(route, path, v, tmp)
    except Exception as e:  # noqa
        return None, [("magnet-raised", "a magnet URI", f"{type(e).__name__}: {e}")], e
    probs = judge(raw, v, uri)
    if probs is not None and shown != uri:
        probs = probs + [("printed-differs-from-returned", uri, shown)]
    return uri, probs, None


def shrink(raw, v, route, kind, tmp, budget=800):
    """greedy reduction of a failing metafile through the reference encoder; keeps the failure kind"""
    def fails(cand):
        try:
            _, probs, _ = problems_on(cand, v, route, tmp)
        except Exception:  # noqa
            return False
        return bool(probs) and any(p[0] == kind for p in probs)

    def candidates(meta):
        for k in list(meta):
            if k != b"info":
                m = dict(meta)
                del m[k]
                yield m
        for k in list(meta[b"info"]):
            if k != b"name":
                m = dict(meta)
                m[b"info"] = {a: b for a, b in meta[b"info"].items() if a != k}
                yield m
        for k in (b"announce-list", b"url-list"):
            val = meta.get(k)
            if isinstance(val, list):
                for i in range(len(val)):
                    m = dict(meta)
                    m[k] = val[:i] + val[i + 1:]
                    yield m
                    if isinstance(val[i], list):
                        for j in range(len(val[i])):
                            m = dict(meta)
                            m[k] = val[:i] + [val[i][:j] + val[i][j + 1:]] + val[i + 1:]
                            yield m
        for holder, k in ((meta, b"announce"), (meta, b"url-list"), (meta[b"info"], b"name")):
            s = holder.get(k)
            if isinstance(s, bytes) and len(s) > 1:
                for cut in (s[:len(s) // 2], s[len(s) // 2:], s[1:], s[:-1]):
                    m = copy.deepcopy(meta)
                    (m if holder is meta else m[b"info"])[k] = cut
                    yield m
        for k in (b"announce-list", b"url-list"):
            val = meta.get(k)
            if isinstance(val, list):
                flat = [(i, None) for i, x in enumerate(val) if isinstance(x, bytes)] + \
                       [(i, j) for i, x in enumerate(val) if isinstance(x, list) for j in range(len(x))]
                for i, j in flat:
                    s = val[i] if j is None else val[i][j]
                    if len(s) > 1:
                        for cut in (s[:len(s) // 2], s[len(s) // 2:], s[1:], s[:-1]):
                            m = copy.deepcopy(meta)
                            if j is None:
                                m[k][i] = cut
                            else:
                                m[k][i][j] = cut
                            yield m
        if meta.get(b"piece layers"):
            m = dict(meta)
            m[b"piece layers"] = {}
            yield m

    cur = raw
    progress = True
    while progress and budget > 0:
        progress = False
        try:
            meta = oracle.bdecode_strict(cur)
        except Exception:  # noqa
            return cur
        for m in candidates(meta):
            budget -= 1
            if budget <= 0:
                break
            try:
                cand = oracle.bencode(m)
            except Exception:  # noqa
                continue
            if len(cand) < len(cur) and fails(cand):
                cur, progress = cand, True
                break
    return cur


# -------------------------------------------------------------------------------------------- metafile streams
def payload_trees(g, tmp, count):
    """payloads whose on-disk names carry reserved characters; (name, path, is_single)"""
    rng = g.rng
    out = []
    for i in range(count):
        name = g.text(disk=True, lo=2, hi=5)[:60]
        root = os.path.join(tmp, f"p{i}", name)
        if i % 3 == 0:
            tree = {(): rng.randbytes(PL + 7)}
        elif i % 3 == 1:
            tree = {("a b&c",): rng.randbytes(PL + 7), ("d", "b=1%"): rng.randbytes(2 * PL + 1), ("d", "é#"): b""}
        else:
            tree = {("x",): rng.randbytes(100), ("y+",): rng.randbytes(PL)}
        trees.write_tree(root, tree)
        out.append((name, root))
    return out


def creator_options(g):
    rng = g.rng
    o = {}
    if rng.random() < 0.8:
        o["announce"] = g.urls(1, 3)
    if rng.random() < 0.7:
        o["url_list"] = g.urls(1, 3)
    if rng.random() < 0.4:
        o["httpseeds"] = g.urls(1, 2)
    if rng.random() < 0.4:
        o["comment"] = g.text()
    if rng.random() < 0.3:
        o["source"] = g.text()
    if rng.random() < 0.3:
        o["private"] = True
    return o


def edit_requests(g):
    return [
        ("tracker list", {"announce": g.urls(1, 3)}),
        ("tracker removed", {"announce": ""}),
        ("url-list list", {"url-list": g.urls(1, 3)}),
        ("url-list removed", {"url-list": ""}),
        ("tracker and url-list as strings", {"announce": "http://n/1?a=b&c=%20 udp://n:2/x+y#z", "url-list": "http://nw/1%2B  http://nw/é/2"}),
        ("url-list and comment", {"url-list": g.urls(1, 2), "comment": g.text()}),
    ]


def metafiles(ctx, g, tmp):
    """yields (label, origin, raw bytes)"""
    from torrentfile.edit import edit_torrent
    quick = ctx.tier == "quick"
    n_trees, n_opts, n_edits, n_var, n_ref = (3, 2, 2, 4, 48) if quick else (9, 4, 6, 24, 6000)
    work = os.path.join(tmp, "edit.torrent")
    created = 0
    for ti, (name, root) in enumerate(payload_trees(g, tmp, n_trees)):
        for kind in trees.CREATORS:
            for oi in range(n_opts):
                opts = creator_options(g) if oi else {}
                mf = os.path.join(tmp, "created.torrent")
                label = f"{kind} tree{ti} opts{oi}"
                try:
                    raw = trees.create(kind, root, mf, PL, **opts)
                except Exception as e:  # noqa
                    ctx.broken.append(f"creator {kind} failed on {name!r} {opts}: {type(e).__name__}: {e}")
                    continue
                created += 1
                yield label, f"created by {kind}", raw
                reqs = edit_requests(g)
                for ei in range(n_edits):
                    what, req = reqs[(created + ei * 3) % len(reqs)] if quick else reqs[ei]
                    with open(work, "wb") as fd:
                        fd.write(raw)
                    try:
                        trees.quiet(edit_torrent, work, dict(req))
                    except Exception as e:  # noqa
                        ctx.broken.append(f"edit_torrent failed ({what}) on {label}: {type(e).__name__}: {e}")
                        continue
                    yield f"{label} edited: {what}", "edited", oracle.read(work)
                try:
                    meta = oracle.bdecode_strict(raw)
                except Exception as e:  # noqa
                    ctx.broken.append(f"creator {kind} wrote a metafile the strict decoder rejects: {e}")
                    continue
                for vi in range(n_var):
                    yield f"{label} reference variant {vi}", "reference variant of a created metafile", variant(meta, g)
    files = [(("a",), g.rng.randbytes(100)), (("d", "b"), g.rng.randbytes(PL + 1))]
    for i in range(n_ref):
        ver = (1, 2, 3)[i % 3]
        if i % 4 == 3:
            base, origin = hand_built(g, ver), "hand-built dictionary"
        else:
            single = i % 8 < 2
            base = oracle.bdecode_strict(oracle.ref_metafile(g.text(lo=1, hi=3), files[:1] if single else files, PL, ver, single=single))
            origin = "reference encoder"
        yield f"{origin} v{ver} #{i}", origin, variant(base, g)


REQUIRED = [f"{k} x version {v}" for k in ("v1", "v2", "hybrid") for v in range(4)] + TSHAPES + WSHAPES + \
    [f"{w} has {c!r}" for w in ("name", "url") for c in RESERVED] + \
    ["name non-ASCII", "url non-ASCII", "name not UTF-8", "url not UTF-8", "multi-tier announce-list", "foreign extra keys",
     "origin: created", "origin: edited", "origin: reference variant of a created metafile", "origin: reference encoder",
     "origin: hand-built dictionary", "route lib", "route get_magnet", "route cli", "route cli-default", "route subprocess",
     "quote: single byte", "unquote: single byte", "unquote: '%' + two bytes"]


# ----------------------------------------------------------------------------------------------------- the run
def uri_tie(ctx, model_ok):
    """urllib.parse quote_plus / unquote_plus against the extracted Model/Uri.v"""
    rng = ctx.rng
    g = Gen(rng)
    qs, us = [], []
    for i in range(256):
        qs.append((bytes([i]), "quote: single byte"))
        us.append((bytes([i]), "unquote: single byte"))
    for a in range(256):
        for b in range(256):
            us.append((bytes([37, a, b]), "unquote: '%' + two bytes"))
    if ctx.tier != "quick":
        for a in range(256):
            for b in range(256):
                qs.append((bytes([a, b]), "quote: two bytes"))
                us.append((bytes([a, b]), "unquote: two bytes"))
    nrand = 2000 if ctx.tier == "quick" else 30000
    ualpha = [b"%", b"%", b"+", b" ", b"&", b"=", b"#", b"%2", b"%C3%A9", b"%c3%a9", b"%zz", b"%%41", b"%4", b"\xff", b"\xc3\xa9"] + \
        [bytes([c]) for c in b"0123456789abcdefABCDEFgGxz/?:"]
    for i in range(nrand):
        s = g.text(lo=0, hi=10, control=True) if i % 3 else g.url(control=True)
        b = s.encode() if i % 7 else g.raw_bytes(s)
        qs.append((b, "quote: random string"))
        us.append((b"".join(rng.choice(ualpha) for _ in range(rng.randrange(0, 14))) if i % 2 else U.quote_plus(b).encode(),
                   "unquote: random string"))
    py_q, py_u = [], []
    for b, cl in qs:
        out = U.quote_plus(b)
        try:                       # commands.magnet passes a str whenever pyben decoded one: both entry points must agree
            if U.quote_plus(b.decode("utf-8")) != out:
                ctx.fail("quote-plus-str-bytes-differ", {"bytes_hex": b.hex()}, out, U.quote_plus(b.decode("utf-8")))
        except UnicodeDecodeError:
            pass
        py_q.append(out.encode("ascii"))
        ctx.case(key=("quote", b), classes=[cl], nontrivial=not b.isalnum())
    for b, cl in us:
        py_u.append(U.unquote_to_bytes(b.replace(b"+", b" ")))
        ctx.case(key=("unquote", b), classes=[cl], nontrivial=(b"%" in b or b"+" in b))
    # the judge's reading of "URL-decodes to": parse_qsl on a one-parameter query is the same function on escaped text
    for b, _ in qs[:256] + qs[-300:]:
        got = U.parse_qsl("k=" + U.quote_plus(b), keep_blank_values=True, strict_parsing=True, encoding="utf-8", errors="surrogateescape")
        if [(k, x.encode("utf-8", "surrogateescape")) for k, x in got] != [("k", b)]:
            ctx.fail("urllib-roundtrip", {"bytes_hex": b.hex()}, b, got)
    if not model_ok:
        return
    mq = modelrun.run("quote", [(b.hex(),) for b, _ in qs])
    mu = modelrun.run("unquote", [(b.hex(),) for b, _ in us])
    if mq is None or mu is None:
        ctx.broken.append("extracted edit driver failed to run (quote / unquote)")
        return
    for (b, _), want, got in zip(qs, py_q, mq):
        ctx.traces_validated += 1
        if got != want.hex():
            ctx.disagree("Model/Uri.v quote_plus vs urllib.parse.quote_plus", {"fn": "quote", "bytes_hex": b.hex()}, got, want.hex())
    for (b, _), want, got in zip(us, py_u, mu):
        ctx.traces_validated += 1
        if got != want.hex():
            ctx.disagree("Model/Uri.v unquote_plus vs urllib.parse.unquote_to_bytes after '+' -> ' '",
                         {"fn": "unquote", "bytes_hex": b.hex()}, got, want.hex())
    if ctx.tier != "quick":
        ctx.extra["quote_unquote_exhaustive"] = "all strings of length <= 2 and all '%XY' triples"


def run(ctx, model_ok):
    core.use_repo_in_process()
    uri_tie(ctx, model_ok)
    g = Gen(ctx.rng)
    quick = ctx.tier == "quick"
    model_cases = []       # (raw hex, version, uri or None, input description)
    shrunk_kinds = set()
    n_sub = 0
    with core.Scratch("vc11_") as tmp:
        os.environ["HOME"] = tmp
        path = os.path.join(tmp, "m.torrent")
        for idx, (label, origin, raw) in enumerate(metafiles(ctx, g, tmp)):
            try:
                exp = expected_of(raw)
            except Exception as e:  # noqa
                ctx.broken.append(f"reference decoder rejects a generated metafile ({label}): {e}")
                continue
            with open(path, "wb") as fd:
                fd.write(raw)
            digest = hashlib.sha1(raw).hexdigest()
            base_classes = [exp["tshape"], exp["wshape"], "origin: " + ("created" if origin.startswith("created by") else origin)] + \
                string_classes(exp) + (["multi-tier announce-list"] if exp["multi_tier"] else []) + \
                (["foreign extra keys"] if any(k not in (b"created by", b"creation date", b"httpseeds") for k in exp["extra"]) else []) + \
                ([origin] if origin.startswith("created by") else [])
            lib_uri = {}
            for v in range(4):
                routes = ["lib"]
                if idx % (5 if quick else 2) == 0:
                    routes += ["get_magnet", "cli"] + (["cli-default"] if v == 0 else [])
                if idx % (40 if quick else 60) == 7 and v in (0, 3) and n_sub < (4 if quick else 200):
                    routes += ["subprocess"] + (["subprocess-default"] if v == 0 else [])
                    n_sub += 1
                for route in routes:
                    desc = {"metafile_hex": raw.hex(), "version": v, "route": route, "label": label, "origin": origin}
                    inside = expected_xts(exp, v) is not None
                    ctx.case(key=(digest, v, route), nontrivial=True,
                             classes=base_classes + [f"{exp['kind']} x version {v}", "route " + route.replace("subprocess-default", "subprocess")]
                             + ([] if inside else ["v2-only asked for version 1: outside the quantifier, model tie only"]),
                             sample=None)
                    try:
                        uri, shown = run_route(route, path, v, tmp)
                    except Exception as e:  # noqa
                        if route == "lib":
                            model_cases.append((raw.hex(), v, None, desc))
                        if inside:
                            ctx.fail("magnet-raised", desc, "a magnet URI", f"{type(e).__name__}: {e}")
                        continue
                    if route == "lib":
                        lib_uri[v] = uri
                        model_cases.append((raw.hex(), v, uri, desc))
                        if len(ctx.samples) < 3 and idx % 17 == 3 and v == 0:
                            ctx.samples.append({"metafile": label, "kind": exp["kind"], "version": v, "uri": uri})
                    elif lib_uri.get(0 if route.endswith("default") else v) != uri:
                        ctx.fail("route-differs-from-library", desc, lib_uri.get(0 if route.endswith("default") else v), uri,
                                 detail="get_magnet / CLI --meta-version must select the same version as commands.magnet(version=)")
                    if not inside:
                        if route == "lib" and b"xt=" in uri.encode():
                            ctx.notes.append("a v2-only metafile asked for version 1 produced an xt parameter (observation only)")
                        continue
                    probs = judge(raw, v, uri)
                    if shown != uri:
                        probs.append(("printed-differs-from-returned", uri, shown))
                        pj = judge(raw, v, shown) if isinstance(shown, str) else None
                        probs += [("printed-" + k, a, b) for k, a, b in (pj or [])]
                    if probs and len(ctx.failures) < 400:
                        kind = probs[0][0]
                        small = raw
                        if kind not in shrunk_kinds and route in ("lib", "get_magnet", "cli"):
                            shrunk_kinds.add(kind)
                            small = shrink(raw, v, route, kind, tmp)
                            with open(path, "wb") as fd:      # shrink used its own file; keep ours intact
                                fd.write(raw)
                        if small != raw:
                            suri, sprobs, _ = problems_on(small, v, route, tmp)
                            sprobs = [p for p in sprobs if p[0] == kind] + [p for p in sprobs if p[0] != kind]
                            ctx.fail(kind, dict(desc, metafile_hex=small.hex(), shrunk_from_bytes=len(raw)),
                                     {p[0]: show(p[1]) for p in sprobs}, {"uri": suri, **{p[0]: show(p[2]) for p in sprobs}},
                                     detail=f"metafile: {small!r}")
                        else:
                            ctx.fail(kind, desc, {p[0]: show(p[1]) for p in probs}, {"uri": uri, **{p[0]: show(p[2]) for p in probs}},
                                     detail=f"metafile: {raw[:1500]!r}")
        if model_ok:
            outs = modelrun.run("magnet", [(h, str(v)) for h, v, _, _ in model_cases])
            if outs is None:
                ctx.broken.append("extracted edit driver failed to run (magnet)")
            else:
                for (h, v, uri, desc), o in zip(model_cases, outs):
                    ctx.traces_validated += 1
                    want = "raised" if uri is None else uri.encode("utf-8", "surrogateescape").hex()
                    if o == "none":
                        if uri is not None:
                            ctx.classes["shape outside the model (model none, tool answers)"] = \
                                ctx.classes.get("shape outside the model (model none, tool answers)", 0) + 1
                        continue
                    if o != want:
                        mtxt = bytes.fromhex(o).decode("utf-8", "replace") if all(c in "0123456789abcdef" for c in o) else o
                        ctx.disagree("Model/Magnet.v vs commands.magnet (returned URI)", desc, mtxt, uri if uri is not None else "raised")
    require_classes(ctx, REQUIRED)
    outside = ctx.classes.get("shape outside the model (model none, tool answers)", 0)
    if outside:
        ctx.notes.append(f"{outside} cases had a shape outside the model; they were judged end to end only")


# ------------------------------------------------------------------------------------------------------ replay
def _replay_item(item, tmp):
    bad = 0
    if "metafile_hex" in item:
        raw = bytes.fromhex(item["metafile_hex"])
        v = int(item.get("version", 0))
        route = item.get("route", "lib")
        print(f"metafile ({len(raw)} bytes): {raw!r}")
        print(f"version request: {v}   route: {route}")
        uri, probs, exc = problems_on(raw, v, route, tmp)
        print("tool:  ", uri if exc is None else f"raised {type(exc).__name__}: {exc}")
        try:
            exp = expected_of(raw)
            print(f"property: kind={exp['kind']} xt={expected_xts(exp, v)} dn={exp['name']!r} tr={exp['tr']!r} ws={exp['ws']!r}")
        except Exception as e:  # noqa
            print("reference decoder rejects the metafile:", e)
        if probs is None:
            print("verdict: outside the quantifier (v2-only metafile asked for version 1)")
        elif probs:
            bad = 1
            for k, a, b in probs:
                print(f"verdict: VIOLATION {k}: expected {a!r} observed {b!r}")
        else:
            print("verdict: the property holds on this input")
        outs = modelrun.run("magnet", [(raw.hex(), str(v))])
        if outs:
            m = outs[0]
            mtxt = m if m == "none" else bytes.fromhex(m).decode("utf-8", "replace")
            print("model: ", mtxt)
            if route == "lib" and m != "none" and (uri is None or mtxt != uri):
                print("verdict: model and tool DISAGREE")
                bad = 1
    elif "bytes_hex" in item:
        b = bytes.fromhex(item["bytes_hex"])
        fn = item.get("fn", "quote")
        py = U.quote_plus(b).encode() if fn == "quote" else U.unquote_to_bytes(b.replace(b"+", b" "))
        outs = modelrun.run(fn, [(b.hex(),)])
        print(f"{fn} {b!r}: urllib {py!r} model {bytes.fromhex(outs[0]) if outs else None!r}")
        if not outs or outs[0] != py.hex():
            print("verdict: model and urllib DISAGREE")
            bad = 1
    return bad


def replay(ctx, data):
    core.use_repo_in_process()
    items = []
    if isinstance(data.get("input"), dict):
        items.append(data["input"])
    for d in data.get("disagreements", []) or []:
        if isinstance(d.get("input"), dict):
            items.append(d["input"])
    rc = 0
    with core.Scratch("vc11r_") as tmp:
        os.environ["HOME"] = tmp
        for it in items:
            rc |= _replay_item(it, tmp)
    if data.get("finding"):
        p = subprocess.run([core.PY, os.path.join(core.VERIF, "harness", "repro.py"), data["finding"]],
                           env=core.impl_env({"HOME": "/nonexistent-home"}), capture_output=True, text=True, timeout=600)
        print(p.stdout.strip())
        rc |= 1 if " PRESENT" in p.stdout else 0
    for b in data.get("broken", []) or []:
        print("broken:", b[:600])
        rc = 1
    if not items and not data.get("finding") and not data.get("broken"):
        print("nothing to replay in this file")
    return rc
