"""C18 -- inspecting commands are read-only; create writes one file; rename never clobbers."""
import os
import json
import stat
import shutil
import hashlib
import subprocess

import core
import trees
import interactive_route as ir

GEN_FILES = ["GenEffects.v"]
RULE = ("tie: every filesystem event (sys.addaudithook: open with write flags, remove, rename/replace, mkdir, copyfile, chmod...) "
        "of a real run of each command, in a fresh interpreter, must be of a kind that the generated summary attributes to "
        "some function reachable from that command; end to end: recursive snapshots (type, size, sha256, mode, mtime_ns) of a sandbox "
        "holding payload, metafiles, working directory and HOME before/after `recheck|check`, `info`, `magnet|m` (all versions, intact and "
        "trees damaged by a MISSING file / a truncated file / corruption, v1 --align metafiles whose .pad entries never exist, "
        "-q/--quiet/-v/--verbose/no flag, cwd = empty directory | the metafile's directory | the payload's parent, version requests), "
        "`create|new|<implicit>` of payloads NAMED LIKE A METAFILE (single files and directories x.torrent, Movie.Torrent, x.TORRENT, "
        "a.b.torrent, .torrent ...; `-o <the directory that holds the payload>/`, no -o with that directory as the working directory and "
        "the content spelled <name> or ./<name>, and the same with another directory): exactly one NEW file, the payload unchanged; "
        "`create|new|<implicit>` with UNUSUAL OUTPUT PATHS AND REFUSED RUNS: -o / --out / --out= through one or two MISSING folders "
        "(absolute, relative to the working directory, the directory form fresh/, below the payload), naming a FILE THAT IS ALREADY THERE "
        "(absolute, relative, inside the payload) or a new file in an existing folder, crossed with runs that are refused (piece length "
        "spelled '+16' '1_6' ' 16' '13' '27', content path one letter short / one letter more) and runs that name nothing wrong, among "
        "neighbours named payload2 payload.torrent out.torrent fres: exit status non-zero => NOTHING created, changed or deleted (no stray "
        "directory, the old file at the -o path intact); exit status zero => exactly the one output file added / rewritten, no new directory; "
        "`create|new|<implicit>` (with -o file, -o dir/, without -o; pre-existing ./.torrent and dir/.torrent; existing output; the output "
        "directory, cwd and payload parent pre-populated with bystanders named like temporaries of the output: <out>.tmp <out>~ <out>.bak "
        ".<out>.swp <out>.part ... which must stay untouched), `create|new --config` (ini found through --config-path, ./torrentfile.ini "
        "or ~/.torrentfile/torrentfile.ini) with [config] sections that set every key commands.parse_config_file knows -- the documented "
        "private comment source announce http-seed web-seed meta-version piece-length out and the undocumented align cwd magnet tracker, "
        "booleans both true and false, alone and all together -- with -o file / -o dir/ / no -o, the content path absolute or relative, "
        "with and without a trailing separator: exactly one new file, the named output when one is named (-o or `out`), never inside "
        "the payload tree, bystanders <cwd>/.torrent <content's parent>/.torrent untouched; the INTERACTIVE mode (torrentfile.interactive.select_action in a fresh "
        "interpreter, answers on stdin, cwd = a scratch working directory): interactive create for every version with the output-path "
        "answer empty / absolute / relative and the content path absolute or relative, with and without a trailing separator -- exactly "
        "one new file, at <cwd>/<name>.torrent or the named place, never inside the payload tree; interactive recheck (intact and "
        "damaged trees) changes nothing; interactive edit (no-op DONE dialog and real edits) changes nothing but the metafile, `rename` (normal, new name exists, already named right). Distinct = distinct "
        "(command spelling, version, tree state, variant).")
TRUSTED_BASE = [
    "Coq 8.16.1 kernel; theorems closed under the global context",
    "translator gen/callgraph.py + gen/gen_effects.py: the call graph and effect sets must over-approximate the code (checked "
    "dynamically: audit-hook traces must lie within the predicted effect kinds).  External names are FAIL CLOSED: a call or mention of "
    "anything outside the package is an effect (tables of file-creating externals: logging.FileHandler, logging.handlers.*, "
    "basicConfig(filename=), io/codecs/gzip open with a writing mode, os.open without read-only flags, sqlite3, shelve, tempfile, "
    "pathlib write methods ...), or is in the explicit allow-list callgraph.EXT_RULES / METHOD_PURE of effect-free names, or makes the "
    "function Unknown.  The allow-list itself is trusted.  Roots of a command: the function its sub-parser names in cli.py, "
    "cli.execute, cli.main and the import-time code (module level, class bodies, decorators, defaults) of every module",
    "Model/Effects.create_fs (probe, then ONE truncating write of the output) is tied to torrent.MetaFile.write syntactically: "
    "any other shape appends PUnknown to probe_ops and the instance fails",
    "effects of the standard library beyond the audited primitives; races with other processes are outside the quantifier; "
    "Windows-only branches (platform.system() == \"Windows\") are not analysed",
]
ASSUMPTIONS = ["`within`: each event of a real execution is performed by a reachable function that declares that kind (validated by traces)",
               "os.rename(T, N) would silently replace an existing N: the guard in commands.rename is what prevents it (modelled)"]

RUNNER = os.path.join(core.VERIF, "harness", "runners", "cli_audit.py")


def snapshot(root):
    out = {}
    for dp, dns, fns in os.walk(root):
        for n in dns + fns:
            p = os.path.join(dp, n)
            st = os.lstat(p)
            rel = os.path.relpath(p, root)
            if stat.S_ISDIR(st.st_mode):
                out[rel] = ("dir", stat.S_IMODE(st.st_mode))
            else:
                with open(p, "rb") as fd:
                    h = hashlib.sha256(fd.read()).hexdigest()
                out[rel] = ("file", st.st_size, h, stat.S_IMODE(st.st_mode), st.st_mtime_ns)
    return out


def diff(a, b):
    ch = {}
    for k in sorted(set(a) | set(b)):
        if a.get(k) != b.get(k):
            ch[k] = ("added" if k not in a else "removed" if k not in b else "changed")
    return ch


def run_cli(sandbox, cwd, argv, n):
    trace = os.path.join(os.path.dirname(sandbox), f"trace{n}.json")
    home = os.path.join(sandbox, "home")
    os.makedirs(home, exist_ok=True)
    p = subprocess.run([core.PY, RUNNER, sandbox, trace] + argv, cwd=cwd, env=core.impl_env({"HOME": home}),
                       capture_output=True, text=True, timeout=300)
    ev = []
    if os.path.exists(trace):
        ev = json.load(open(trace))
        os.remove(trace)
    return p.returncode, p.stdout.strip(), ev


# ------------------------------------------------------------------------------------------------ create: payloads named like a metafile
# The output name create derives is <name of the content> + ".torrent".  When the content's OWN name already ends with
# .torrent (in any letter case) and the metafile goes to the directory that holds the content (-o <that directory>/, or no -o
# with that directory as the working directory), the derived name must still be a NEW name: create writes exactly one new file
# and the payload keeps its name and its bytes.
NAMED_PAYLOADS = ["x.torrent", "Movie.Torrent", "x.TORRENT", "a.b.torrent", "ubuntu.iso.ToRrEnT", ".torrent", "torrent"]
NAMED_VARIANTS = ["-o <payload's directory>/", "no -o, cwd = payload's directory", "no -o, cwd = payload's directory, ./<name>",
                  "-o <another directory>/", "no -o, cwd = another directory"]


def named_payload_case(tmp, n, spelling, version, name, is_dir, variant):
    """one create in a fresh interpreter on a payload named `name` (a single file, or a directory when is_dir);
       returns (input description, problem | None, audit events)"""
    import random
    sb = os.path.join(tmp, f"np{n}", "sandbox")
    data_dir, wd, outdir = os.path.join(sb, "data"), os.path.join(sb, "wd"), os.path.join(sb, "out")
    for d in (data_dir, wd, outdir, os.path.join(sb, "home")):
        os.makedirs(d)
    payload = os.path.join(data_dir, name)
    rng = random.Random(f"c18-named:{name}:{is_dir}")
    if is_dir:
        trees.write_tree(payload, {("a.bin",): rng.randbytes(16384 + 100), ("d", "x.torrent"): rng.randbytes(300), ("d", "e"): b""})
    else:
        trees.write_tree(payload, {(): rng.randbytes(2 * 16384 + 77)})
    argv = ([spelling] if spelling else []) + ["--meta-version", version, "--prog", "0", "--piece-length", "14"]
    cwd, content, target = wd, payload, wd
    if variant == NAMED_VARIANTS[0]:
        argv += ["-o", data_dir + os.sep]
        target = data_dir
    elif variant == NAMED_VARIANTS[1]:
        cwd, content, target = data_dir, name, data_dir
    elif variant == NAMED_VARIANTS[2]:
        cwd, content, target = data_dir, "." + os.sep + name, data_dir
    elif variant == NAMED_VARIANTS[3]:
        argv += ["-o", outdir + os.sep]
        target = outdir
    argv += [content]
    # create tests the output directory with a probe file <output directory>/.torrent: here that name can be the payload itself
    probe_is_dir = os.path.isdir(os.path.join(target, ".torrent"))
    before = snapshot(sb)
    rc, out, ev = run_cli(sb, cwd, argv, f"np{n}")
    after = snapshot(sb)
    d = diff(before, after)
    expect = os.path.relpath(os.path.join(target, name + ".torrent"), sb)
    inp = {"kind": "create-payload-named-like-a-metafile", "command": spelling or "<implicit create>", "version": version,
           "payload_name": name, "payload": "directory" if is_dir else "single file", "variant": variant, "n": n,
           "cwd": os.path.relpath(cwd, sb), "argv": [a.replace(sb, "<sandbox>") for a in argv],
           "<output directory>/.torrent is a directory": probe_is_dir}
    problem = None
    if rc != 0 or list(d.values()) != ["added"] or after[next(iter(d))][0] != "file":
        problem = ({expect: "added (one new file; the payload and everything else unchanged)"},
                   {"rc": rc, "out": out[-300:], "diff": d, "payload": os.path.relpath(payload, sb)})
    return inp, problem, ev, (d, expect)


# ------------------------------------------------------------------------------------------------ create: unusual -o paths, refused runs
# `create` names its output with -o / --out / --out=.  The path may lead THROUGH A FOLDER THAT DOES NOT EXIST (one or two missing
# levels, absolute or relative to the working directory, the directory form `fresh/`, also below the payload), or name a FILE
# THAT IS ALREADY THERE (in an output directory, relative in the working directory, inside the payload); and the run may be
# REFUSED (a piece length spelled '+16' '1_6' ' 16' '13' '27', a mistyped content path).  The judge is the property's own: a run
# that exits non-zero has created, changed and deleted NOTHING (no stray directories or probe files, the file at the -o path
# is still there byte for byte); a run that exits zero has added -- or, when it was there, rewritten -- exactly the one output file.
OUT_KINDS = ["missing folder: -o <abs>/out/deep/p.torrent", "missing folders: -o <abs>/fresh/a/b/p.torrent",
             "missing folder, relative directory form: fresh/", "missing folder below the payload: -o <abs payload>/meta/p.torrent",
             "missing folder below the payload, relative: ../data/payload/meta/sub/p.torrent",
             "file already there: -o <abs>/out/x.torrent", "file already there, relative: x.torrent in the working directory",
             "file already there inside the payload: -o <abs payload>/d/old.torrent", "new file in an existing folder: -o <abs>/out/new.torrent"]
OUT_OPTS = ["-o", "--out", "--out="]
REFUSALS = [None, "piece length '+16'", "piece length '1_6'", "piece length ' 16'", "piece length '13'", "piece length '27'",
            "mistyped content path (one letter short)", "mistyped content path (one letter more)"]


def outpath_case(tmp, n, spelling, version, out_kind, opt, refusal):
    """one create in a fresh interpreter; the payload is a function of nothing but this module.
       returns (input description, problem (kind, expected, observed) | None, audit events, (rc, diff))"""
    import random
    sb = os.path.join(tmp, f"op{n}", "sandbox")
    data_dir, wd, outdir = os.path.join(sb, "data"), os.path.join(sb, "wd"), os.path.join(sb, "out")
    for d in (data_dir, wd, outdir, os.path.join(sb, "home")):
        os.makedirs(d)
    payload = os.path.join(data_dir, "payload")
    rng = random.Random("c18-outpath")
    trees.write_tree(payload, {("a.bin",): rng.randbytes(16384 + 100), ("d", "b.bin"): rng.randbytes(2 * 16384), ("d", "e"): b""})
    # neighbours whose names are prefixes / extensions of the ones on the command line: they must stay as they are
    for bp in (os.path.join(data_dir, "payload2"), os.path.join(data_dir, "payload.torrent"), os.path.join(sb, "out.torrent"),
               os.path.join(wd, "fres")):
        with open(bp, "wb") as fd:
            fd.write(b"bystander " + os.path.basename(bp).encode())
    i = OUT_KINDS.index(out_kind)
    existing = None
    if i == 0:
        out = expect = os.path.join(outdir, "deep", "p.torrent")
    elif i == 1:
        out = expect = os.path.join(sb, "fresh", "a", "b", "p.torrent")
    elif i == 2:
        out, expect = "fresh" + os.sep, os.path.join(wd, "fresh", "payload.torrent")
    elif i == 3:
        out = expect = os.path.join(payload, "meta", "p.torrent")
    elif i == 4:
        out = os.path.join("..", "data", "payload", "meta", "sub", "p.torrent")
        expect = os.path.join(payload, "meta", "sub", "p.torrent")
    elif i == 5:
        out = expect = existing = os.path.join(outdir, "x.torrent")
    elif i == 6:
        out, expect = "x.torrent", os.path.join(wd, "x.torrent")
        existing = expect
    elif i == 7:
        out = expect = existing = os.path.join(payload, "d", "old.torrent")
    else:
        out = expect = os.path.join(outdir, "new.torrent")
    if existing:
        with open(existing, "wb") as fd:       # an older metafile of something else
            fd.write(b"d8:announce10:http://o/a4:infod6:lengthi1e4:name3:old12:piece lengthi16384e6:pieces20:" + b"o" * 20 + b"ee")
    pl, content = "14", payload
    if refusal and refusal.startswith("piece length"):
        pl = refusal.split("'")[1]
    elif refusal == REFUSALS[6]:
        content = payload[:-1]
    elif refusal == REFUSALS[7]:
        content = payload + "s"
    argv = ([spelling] if spelling else []) + ["--meta-version", version, "--prog", "0"]
    argv += ["--piece-length=" + pl] if pl.startswith(("+", " ")) and n % 2 else ["--piece-length", pl]
    argv += [opt + out] if opt.endswith("=") else [opt, out]
    argv += [content]
    before = snapshot(sb)
    rc, txt, ev = run_cli(sb, wd, argv, f"op{n}")
    after = snapshot(sb)
    d = diff(before, after)
    rel = os.path.relpath(expect, sb)
    inp = {"kind": "create-output-path", "command": spelling or "<implicit create>", "version": version, "out_kind": out_kind,
           "out_option": opt, "refusal": refusal, "n": n, "cwd": "wd", "argv": [a.replace(sb, "<sandbox>") for a in argv],
           "a file is already at the -o path": bool(existing)}
    problem = None
    if rc != 0 and d:
        problem = ("refused-create-changed-the-filesystem", "the run exits non-zero: nothing created, changed or deleted",
                   {"rc": rc, "out": txt[-300:], "diff": d})
    elif rc == 0 and d != {rel: "changed" if existing else "added"}:
        made_dirs = sorted(k for k, v in d.items() if v == "added" and after[k][0] == "dir")
        problem = ("create-made-directories" if made_dirs and set(d) - set(made_dirs) == {rel} else "create-wrote-other-than-one-file",
                   {rel: ("changed" if existing else "added") + " (the one output file; nothing else, no new directories)"},
                   {"rc": rc, "out": txt[-300:], "diff": d})
    return inp, problem, ev, (rc, d)


def predicted_kinds():
    import callgraph
    import gen_effects
    g = callgraph.Graph(core.REPO)
    out = {}
    for name in gen_effects.COMMAND_NAMES:
        r = g.reach(gen_effects.command_roots(g, core.REPO, name))
        kinds = set()
        for f in r:
            kinds |= {k for k, _ in g.fns[f].effects}
            if g.fns[f].unknown:
                kinds.add("Unknown")
        out[name] = kinds
    return out


def translator_diagnostics():
    """why the generated instance cannot satisfy the certified checkers, in the translator's words (the Coq error only says
    `true` is not `false`)"""
    import callgraph
    import gen_effects
    g = callgraph.Graph(core.REPO)
    out = []
    allowed = {"recheck": {"Read"}, "info": {"Read"}, "magnet": {"Read"}, "create": {"Read", "Write", "Remove"},
               "rename": {"Read", "Rename"}, "rebuild": {"Read", "Mkdir", "Copy"}}
    for name, ok in allowed.items():
        for q in sorted(g.reach(gen_effects.command_roots(g, core.REPO, name))):
            f = g.fns[q]
            for why in f.unknown:
                out.append(f"`{name}` reaches {q}: Unknown ({why})")
            for k, d in sorted(set(f.effects)):
                if k not in ok:
                    out.append(f"`{name}` reaches {q}: effect {k} ({d}) outside {sorted(ok)}")
    for why in gen_effects.metafile_write_shape(core.REPO, g):
        out.append(f"torrent.MetaFile.write is not the single truncating write of the output that create_fs models: {why}")
    pops, rops = gen_effects.gen_create_ops(core.REPO)
    if "PUnknown" in pops:
        out.append(f"utils.check_path_writable is not of the modelled shape: {pops}")
    if "RUnknown" in rops:
        out.append(f"commands.rename is not of the modelled shape: {rops}")
    return out


def run(ctx, model_ok):
    try:
        pred = predicted_kinds()
        diag = translator_diagnostics()
        if diag:
            ctx.broken.append("translator diagnostics: " + " | ".join(dict.fromkeys(diag)))
    except Exception as e:  # noqa
        pred = None
        ctx.broken.append(f"call-graph translator crashed: {type(e).__name__}: {e}")
    counter = [0]
    with core.Scratch("vc18_") as tmp:
        def fresh(label, version, damaged):
            """sandbox with payload, metafile(s), wd, home.  version: "1" | "2" | "3" | "1a" (v1 with --align: its .pad entries
            never exist on disk).  damaged: False | True/"corrupt+missing" | "missing" | "truncated" """
            counter[0] += 1
            sb = os.path.join(tmp, f"s{counter[0]}", "sandbox")
            pl = 16384
            tree = {("a.bin",): ctx.rng.randbytes(pl + 100), ("d", "b.bin"): ctx.rng.randbytes(3 * pl), ("d", "e"): b"",
                    ("d", "z.bin"): bytes(2 * pl + 7)}
            payload = os.path.join(sb, "data", "payload")
            trees.write_tree(payload, tree)
            os.makedirs(os.path.join(sb, "wd"))
            os.makedirs(os.path.join(sb, "home"))
            os.makedirs(os.path.join(sb, "metas"))
            mf = os.path.join(sb, "metas", "m.torrent")
            kind = {"1": "v1", "1a": "v1", "2": "v2-asm", "3": "hybrid-asm"}[version]
            opts = {"align": True} if version == "1a" else {}
            trees.create(kind, payload, mf, pl, announce=["http://t/a"], url_list=["http://w/s"], **opts)
            if damaged in (True, "corrupt+missing"):
                with open(os.path.join(payload, "d", "b.bin"), "r+b") as fd:
                    fd.seek(pl + 5)
                    fd.write(b"\xff\x00\xff")
                os.remove(os.path.join(payload, "a.bin"))
            elif damaged == "missing":
                os.remove(os.path.join(payload, "d", "b.bin"))
                os.remove(os.path.join(payload, "d", "z.bin"))
            elif damaged == "truncated":
                with open(os.path.join(payload, "d", "b.bin"), "r+b") as fd:
                    fd.truncate(pl + 11)
                with open(os.path.join(payload, "a.bin"), "r+b") as fd:
                    fd.truncate(0)
            # leftovers of the in-process creation are not part of the judged command
            for extra in os.listdir(os.path.join(sb, "metas")):
                if extra != "m.torrent":
                    os.remove(os.path.join(sb, "metas", extra))
            return sb, payload, mf

        def check_readonly(cmdname, spelling, argv_fn, version, damaged, variant, cwd="wd"):
            sb, payload, mf = fresh(cmdname, version, damaged)
            # cwd: an empty working directory, the metafile's directory, or the payload's parent
            cwdp = {"wd": os.path.join(sb, "wd"), "metas": os.path.dirname(mf), "data": os.path.dirname(payload)}[cwd]
            before = snapshot(sb)
            rc, out, ev = run_cli(sb, cwdp, argv_fn(payload, mf), counter[0])
            after = snapshot(sb)
            d = diff(before, after)
            inp = {"command": spelling, "argv": argv_fn("<data>/payload", "<metas>/m.torrent"), "version": version,
                   "damaged": damaged, "cwd": cwd}
            if d:
                ctx.fail(f"{cmdname}-modified-filesystem", inp, "nothing created, changed or deleted (payload, metafile directory, "
                         "working directory, HOME)", d)
            if rc not in (0,):
                ctx.notes.append(f"{spelling} {variant} v{version} exited {rc} {out}")
            tie(cmdname, ev, inp)
            ctx.case(key=(spelling, version, str(damaged), variant, cwd),
                     classes=[f"{cmdname} read-only", "intact" if not damaged else f"damaged: {damaged}", f"cwd {cwd}",
                              f"flag {variant.split()[0] if variant else 'none'}"],
                     sample={"argv": inp["argv"], "events": [e[:2] for e in ev][:6]} if counter[0] == 1 else None)

        def tie(cmdname, ev, inp):
            if pred is None:
                return
            ctx.traces_validated += 1
            kinds = {e[0] for e in ev}
            extra = kinds - pred[cmdname]
            if extra:
                ctx.disagree(f"generated effect summary of `{cmdname}` vs audited events", inp,
                             sorted(pred[cmdname]), [e for e in ev if e[0] in extra][:5])

        # global flags of the CLI (cli.py: -q/--quiet, -v/--verbose) in front of the sub-command; None = default log level
        FLAGS = ["-v", "--verbose", "-q", "--quiet", None]
        DAMAGE = [False, "missing", "truncated", "corrupt+missing"]
        CWDS = ["wd", "metas", "data"]

        def recheck_argv(sp, flag, parent=False):
            return lambda p, m: ([flag] if flag else []) + [sp, m, os.path.dirname(p) if parent else p]

        if ctx.tier == "thorough":
            for v in ("1", "1a", "2", "3"):
                for damaged in DAMAGE:
                    for flag in FLAGS:
                        for k, cwd in enumerate(CWDS):
                            sp = ("recheck", "check")[(k + FLAGS.index(flag)) % 2]
                            check_readonly("recheck", sp, recheck_argv(sp, flag, parent=(k == 2)), v, damaged,
                                           f"{flag} {'parent' if k == 2 else 'root'}", cwd)
        else:
            k = ctx.rng.randrange(60)
            for v in ("1", "1a", "2", "3"):
                for damaged in DAMAGE[:3]:
                    # every version x damage with the debug flag (the log handlers are live), and once more with another flag
                    for flag in ("-v", FLAGS[1:][k % 4]):
                        sp = ("recheck", "check")[k % 2]
                        cwd = CWDS[k % 3] if flag != "-v" or damaged != "missing" else CWDS[(k // 2) % 2]
                        check_readonly("recheck", sp, recheck_argv(sp, flag, parent=(k % 5 == 0)), v, damaged,
                                       f"{flag} {'parent' if k % 5 == 0 else 'root'}", cwd)
                        k += 1
        versions = ["1", "1a", "2", "3"] if ctx.tier == "thorough" else [ctx.rng.choice(["1", "2", "1a"]), "3"]
        for v in versions:
            for damaged in ((False, "missing", "corrupt+missing") if ctx.tier == "thorough" else (False, "missing")):
                for flag in (FLAGS if ctx.tier == "thorough" else ("-v", None)):
                    cwd = CWDS[(FLAGS.index(flag) + len(v)) % 3]
                    check_readonly("info", "info", lambda p, m, flag=flag: ([flag] if flag else []) + ["info", m], v, damaged,
                                   f"{flag}", cwd)
                for sp, mv in (("magnet", "0"), ("m", "2" if v not in ("1", "1a") else "1"), ("magnet", "3"), ("m", "1")):
                    if ctx.tier == "quick" and (mv in ("3",) and v != "3" or damaged and mv != "0"):
                        continue
                    flag = FLAGS[(int(mv) + len(v)) % 5]
                    check_readonly("magnet", sp, lambda p, m, sp=sp, mv=mv, flag=flag: ([flag] if flag else []) +
                                   [sp, m, "--meta-version", mv], v, damaged, f"{flag} {mv}", CWDS[int(mv) % 3])

        # ---------------------------------------------------------------- create
        def check_create(spelling, version, variant):
            sb, payload, mf = fresh("create", "1", False)
            wd = os.path.join(sb, "wd")
            outdir = os.path.join(sb, "out")
            os.makedirs(outdir)
            victims = []
            argv = ([spelling] if spelling else []) + ["--meta-version", version, "--prog", "0"]
            if variant == "no-out":
                victims.append(os.path.join(wd, ".torrent"))
                expect = os.path.join(wd, "payload.torrent")
            elif variant == "out-dir":
                victims.append(os.path.join(outdir, ".torrent"))
                argv += ["-o", outdir + os.sep]
                expect = os.path.join(outdir, "payload.torrent")
            elif variant == "out-file":
                expect = os.path.join(outdir, "x.torrent")
                argv += ["-o", expect]
            else:   # existing output file is overwritten: still exactly one file
                expect = os.path.join(outdir, "x.torrent")
                with open(expect, "wb") as fd:
                    fd.write(b"old")
                argv += ["-o", expect]
            for vic in victims:
                with open(vic, "wb") as fd:
                    fd.write(b"precious")
            # bystanders: files whose names are plausible temporaries / backups of the output, in the output directory, the
            # working directory and next to the payload -- create must leave every one of them exactly as it was
            base = os.path.basename(expect)
            names = [base + ".tmp", base + "~", base + ".bak", "." + base + ".swp", base + ".part", ".torrent",
                     "payload.torrent.tmp", base + ".temp", base + ".new", base + ".old", base + ".lock", "." + base + ".tmp",
                     base + ".tmp~", "." + base, base + ".1", "tmp", "temp.torrent", ".tmp.torrent", "payload.tmp"]
            bystanders = 0
            for dd in (os.path.dirname(expect), wd, os.path.dirname(payload)):
                for nm in names:
                    bp = os.path.join(dd, nm)
                    if bp == expect or os.path.exists(bp):
                        continue
                    with open(bp, "wb") as fd:
                        fd.write(b"bystander " + nm.encode())
                    bystanders += 1
            argv += [payload]
            before = snapshot(sb)
            rc, out, ev = run_cli(sb, wd, argv, counter[0])
            after = snapshot(sb)
            d = diff(before, after)
            rel = os.path.relpath(expect, sb)
            inp = {"command": spelling or "<implicit create>", "version": version, "variant": variant,
                   "argv": [a.replace(sb, "<sandbox>") for a in argv]}
            if rc != 0 or set(d) != {rel}:
                ctx.fail("create-wrote-other-than-one-file", inp, {rel: "added/changed"},
                         {"rc": rc, "out": out, "diff": d, "bystanders_present_before": bystanders})
            tie("create", ev, inp)
            ctx.case(key=("create", spelling, version, variant), classes=["create " + variant, "create among temp-named bystanders"])
        for sp, v, var in ([("create", "1", "no-out"), ("new", "2", "out-dir"), ("", "3", "out-file"), ("create", "3", "out-existing"),
                            ("create", "2", "no-out"), ("", "1", "out-dir")]
                           if ctx.tier == "quick" else
                           [(s, v, var) for s in ("create", "new", "") for v in ("1", "2", "3")
                            for var in ("no-out", "out-dir", "out-file", "out-existing")]):
            check_create(sp, v, var)

        # ---------------------------------------------------------------- create: payloads named like a metafile
        if ctx.tier == "thorough":
            ncases = [(("create", "new", "")[(i + j + k) % 3], str(1 + (i + j + k) % 3), nm, is_dir, var)
                      for i, nm in enumerate(NAMED_PAYLOADS) for j, var in enumerate(NAMED_VARIANTS)
                      for k, is_dir in enumerate((False, True)) if not (is_dir and j in (2, 4))]
        else:
            k = ctx.rng.randrange(60)
            ncases = []
            for i, nm in enumerate(NAMED_PAYLOADS[:5]):
                ncases.append((("create", "new", "")[(k + i) % 3], str(1 + (k + i) % 3), nm, False, NAMED_VARIANTS[(k + i) % 3]))
            for i in range(3):      # each of the three spellings that put the metafile next to the payload, once more; a directory
                nm = NAMED_PAYLOADS[(k + 2 * i) % 5]
                ncases.append((("create", "new", "")[(k + i + 1) % 3], str(1 + (k + i + 1) % 3), nm, i == 2, NAMED_VARIANTS[(k + i + 1) % 3 if i < 2 else (k % 2)]))
            ncases.append(("create", str(1 + k % 3), NAMED_PAYLOADS[k % 3], False, NAMED_VARIANTS[3 + k % 2]))
        from concurrent.futures import ThreadPoolExecutor as _TPE
        with _TPE(max_workers=6) as ex:          # fresh interpreters on sandboxes of their own
            nres = list(ex.map(lambda c: named_payload_case(tmp, c[0], *c[1]), enumerate(ncases)))
        for (sp, v, nm, is_dir, var), (inp, problem, ev, (d, expect)) in zip(ncases, nres):
            if problem and inp["<output directory>/.torrent is a directory"] and problem[1]["rc"] != 0 and not problem[1]["diff"]:
                # REPORTED OBSERVATION on the unchanged tree (not a stray write): a DIRECTORY named .torrent in the output directory
                # (here: the payload itself) makes create refuse -- utils.check_path_writable opens <output directory>/.torrent
                # for appending -- with IsADirectoryError; nothing is created, changed or deleted.  Counted as its own class and
                # noted; any other outcome in this environment (something written or changed) is a failure like everywhere else
                ctx.notes.append(f"create refused ({problem[1]['out']}) and changed nothing: payload directory named {nm!r}, {var}: the "
                                 "probe path <output directory>/.torrent is a directory")
                ctx.classes["create refused cleanly: <output directory>/.torrent is a directory"] = \
                    ctx.classes.get("create refused cleanly: <output directory>/.torrent is a directory", 0) + 1
            elif problem:
                ctx.fail("create-wrote-other-than-one-file", inp, problem[0], problem[1])
            elif d != {expect: "added"}:
                ctx.notes.append(f"create of a payload named {nm!r} ({var}) wrote {sorted(d)} instead of {expect}")
            tie("create", ev, inp)
            ctx.case(key=("create-named", sp, v, nm, is_dir, var), nontrivial=True,
                     classes=["create: payload named like a metafile", "create: payload named like a metafile, " + var,
                              "create: payload named like a metafile (" + ("directory" if is_dir else "single file") + ")"])
        for var in NAMED_VARIANTS[:3]:
            if not ctx.classes.get("create: payload named like a metafile, " + var):
                ctx.broken.append(f"no create of a payload named like a metafile ran with {var}: the run is not accepted")

        # ---------------------------------------------------------------- create: unusual -o paths, refused runs
        SPV = [("create", "1"), ("new", "2"), ("", "3"), ("create", "3"), ("new", "1"), ("", "2")]
        if ctx.tier == "thorough":
            ocases = [SPV[(i + j) % 6] + (ok, OUT_OPTS[(i + j) % 3], rf) for i, ok in enumerate(OUT_KINDS) for j, rf in enumerate(REFUSALS)]
        else:
            k = ctx.rng.randrange(60)
            # every kind of -o path on a refused run (refusals in rotation), every missing-folder kind once more on a run that names
            # nothing wrong, and the existing-file kinds once more with the other family of refusal (piece length / content path)
            ocases = [SPV[(k + i) % 6] + (ok, OUT_OPTS[(k + i) % 3], REFUSALS[1 + (k + i) % 7]) for i, ok in enumerate(OUT_KINDS)]
            ocases += [SPV[(k + i + 1) % 6] + (ok, OUT_OPTS[(k + i + 1) % 3], None) for i, ok in enumerate(OUT_KINDS[:5])]
            ocases += [SPV[(k + i + 2) % 6] + (ok, OUT_OPTS[(k + i + 2) % 3], REFUSALS[6 + (k + i) % 2] if (k + i) % 7 < 5 else REFUSALS[1 + (k + i) % 5])
                       for i, ok in ((5, OUT_KINDS[5]), (6, OUT_KINDS[6]), (7, OUT_KINDS[7]))]
            ocases.append(SPV[k % 6] + (OUT_KINDS[5 + k % 3], OUT_OPTS[k % 3], None))
        from concurrent.futures import ThreadPoolExecutor as _TPE2
        with _TPE2(max_workers=6) as ex:          # fresh interpreters on sandboxes of their own
            ores = list(ex.map(lambda c: outpath_case(tmp, c[0], *c[1]), enumerate(ocases)))
        for (sp, v, ok, opt, rf), (inp, problem, ev, (rc, d)) in zip(ocases, ores):
            if problem:
                ctx.fail(problem[0], inp, problem[1], problem[2])
            if rf and rc == 0:
                ctx.notes.append(f"create accepted a run expected to be refused ({rf}; {ok}); judged as a successful run")
            tie("create", ev, inp)
            family = "none" if rf is None else ("piece length spelling" if rf.startswith("piece") else "mistyped content path")
            ctx.case(key=("create-outpath", sp, v, ok, opt, rf), nontrivial=True,
                     classes=["create -o: " + ok.split(":")[0], "create -o: " + ok, "create -o spelled " + opt,
                              "create: run " + ("refused (exit status non-zero)" if rc != 0 else "completed"),
                              "create: refusal cause " + family] +
                     (["create refused with a file already at the -o path"] if rc != 0 and inp["a file is already at the -o path"] else []) +
                     (["create -o through a missing folder, nothing else wrong with the run"] if rf is None and "missing" in ok else []))
        for cl in ("create refused with a file already at the -o path", "create -o through a missing folder, nothing else wrong with the run",
                   "create: refusal cause piece length spelling", "create: refusal cause mistyped content path"):
            if not ctx.classes.get(cl):
                ctx.broken.append(f"no case of class {cl!r} ran: the run is not accepted")

        # ---------------------------------------------------------------- create through a configuration file
        def check_config_create(version, cfg_name, cfg, spelling, out_kind, locate, cmd="create"):
            """`create --config [--config-path F] [-o ..] <content>`: the [config] section sets keys parse_config_file knows
            (documented: private comment source announce http-seed web-seed meta-version piece-length out; undocumented: align cwd
            magnet tracker), booleans true and false.  Exactly one new file, never inside the payload tree; a NAMED output (-o or
            the key `out`) must be that file; everything else -- payload, the ini file, cwd, HOME, bystanders -- untouched"""
            sb, payload, mf = fresh("cfgcreate", "1", False)
            wd = os.path.join(sb, "wd")
            outdir = os.path.join(sb, "out")
            cfgdir = os.path.join(sb, "cfg")
            os.makedirs(outdir)
            os.makedirs(cfgdir)
            rel = os.path.relpath(payload, wd)
            content = {"absolute": payload, "absolute/": payload + os.sep, "relative": rel, "relative/": rel + os.sep,
                       "dot-relative/": "." + os.sep + os.path.join(rel, "")}[spelling]
            cfg = dict(cfg)
            cfg.setdefault("meta-version", version)
            if cfg.get("out") == "<file>":
                cfg["out"] = os.path.join(outdir, "from-config.torrent")
            elif cfg.get("out") == "<dir>/":
                cfg["out"] = outdir + os.sep
            argv = [cmd, "--prog", "0", "--config"]
            if locate == "config-path":
                ini = os.path.join(cfgdir, "settings.ini")
                argv += ["--config-path", ini]
            elif locate == "cwd":
                ini = os.path.join(wd, "torrentfile.ini")
            else:
                ini = os.path.join(sb, "home", ".torrentfile", "torrentfile.ini")
                os.makedirs(os.path.dirname(ini))
            with open(ini, "w", encoding="utf-8") as fd:
                fd.write(ir.ini_text(cfg))
            named = None
            if out_kind == "-o file":
                named = os.path.join(outdir, "x.torrent")
                argv += ["-o", named]
            elif out_kind == "-o dir/":
                named = os.path.join(outdir, "payload.torrent")
                argv += ["-o", outdir + os.sep]
            if "out" in cfg:        # parse_config_file stores the key over whatever -o said
                named = cfg["out"] + "payload.torrent" if cfg["out"].endswith(os.sep) else cfg["out"]
            expect = named or os.path.join(wd, "payload.torrent")
            argv += [content]
            # bystanders a mislaid output or probe would hit: <cwd>/.torrent, <content's parent>/.torrent, temporaries
            for bp in (os.path.join(wd, ".torrent"), os.path.join(os.path.dirname(payload), ".torrent"),
                       os.path.join(os.path.dirname(payload), "payload.torrent.tmp"), os.path.join(outdir, ".torrent"),
                       os.path.join(wd, "payload.torrent~"), os.path.join(cfgdir, ".torrent")):
                with open(bp, "wb") as fd:
                    fd.write(b"bystander " + os.path.basename(bp).encode())
            n = counter[0]

            def execute():
                before = snapshot(sb)
                rc, out, ev = run_cli(sb, wd, argv, n)
                return before, rc, out, ev, snapshot(sb)
            return execute, lambda res: judge(res, sb, payload, expect, named, cfg, argv, version, cfg_name, spelling, out_kind, locate, cmd)

        def judge(res, sb, payload, expect, named, cfg, argv, version, cfg_name, spelling, out_kind, locate, cmd):
            before, rc, out, ev, after = res
            d = diff(before, after)
            rel_expect = os.path.relpath(expect, sb)
            pay_rel = os.path.relpath(payload, sb)
            inp = {"route": "create --config", "command": cmd, "version": version, "config file": locate, "config": cfg_name,
                   "ini": ir.ini_text(cfg).replace(sb, "<sandbox>"), "content spelling": spelling, "output": out_kind,
                   "cwd": "<sandbox>/wd", "argv": [a.replace(sb, "<sandbox>") for a in argv]}
            inside = sorted(k for k in d if k == pay_rel or k.startswith(pay_rel + os.sep))
            if inside:
                ctx.fail("config-create-changed-the-payload-tree", inp, "the payload tree is only read; the one new file is outside it",
                         {"rc": rc, "changed inside the payload": {k: d[k] for k in inside}, "diff": d})
            elif rc != 0 or list(d.values()) != ["added"] or after[next(iter(d))][0] != "file" or (named and d != {rel_expect: "added"}):
                ctx.fail("config-create-wrote-other-than-one-file", inp, {rel_expect: "added"}, {"rc": rc, "out": out[-300:], "diff": d})
            elif d != {rel_expect: "added"}:
                ctx.notes.append(f"create --config ({cfg_name}, {spelling}, no output named) wrote {sorted(d)} instead of {rel_expect}")
            tie("create", ev, inp)
            ctx.case(key=("cfgcreate", version, cfg_name, spelling, out_kind, locate, cmd),
                     classes=["create --config", "create --config: config " + cfg_name, "create --config: content path " + spelling,
                              "create --config: output " + out_kind, "create --config: ini found via " + locate] +
                     [f"config key {k} = {str(v).lower() if isinstance(v, bool) else 'set'}" for k, v in cfg.items()])

        LISTS = {"announce": ["http://t.example/announce", "udp://u.example:6969/a"], "http-seed": ["http://h.example/seed"],
                 "web-seed": ["http://w.example/data"]}
        DOC = dict(LISTS, comment="made from a configuration file", source="SRC", **{"piece-length": 15})
        CONFIGS = [("cwd=false", {"cwd": False}), ("cwd=true", {"cwd": True}), ("magnet=true", {"magnet": True}),
                   ("magnet=false", {"magnet": False}), ("private,align=true", {"private": True, "align": True}),
                   ("private,align=false", {"private": False, "align": False}), ("tracker", {"tracker": ["http://tr.example/x"]}),
                   ("documented", DOC),
                   ("all-false", dict(DOC, private=False, align=False, cwd=False, magnet=False, tracker=["http://tr.example/x"])),
                   ("all-true", dict(DOC, private=True, align=True, cwd=True, magnet=True, tracker=["http://tr.example/x"])),
                   ("out=file", dict(LISTS, out="<file>", cwd=False)), ("out=dir/", {"out": "<dir>/", "cwd": False, "private": True})]
        OUTS = ["none", "-o file", "-o dir/"]
        LOCS = ["config-path", "cwd", "home"]
        SPELL5 = ["absolute", "absolute/", "relative", "relative/", "dot-relative/"]
        if ctx.tier == "thorough":
            ccases = [(str(1 + (i + j + k) % 3), nm, cfg, s, o, LOCS[(i + j + k) % 3], ("create", "new")[(i + k) % 2])
                      for i, (nm, cfg) in enumerate(CONFIGS) for j, s in enumerate(SPELL5) for k, o in enumerate(OUTS)]
        else:
            k = ctx.rng.randrange(60)
            ccases = []
            for i, (nm, cfg) in enumerate(CONFIGS):
                # no output named and the content spelled with a trailing separator (alternately absolute and relative); and one
                # more spelling with the output named by -o
                ccases.append((str(1 + (k + i) % 3), nm, cfg, ("absolute/", "relative/")[(k + i) % 2], "none", LOCS[(k + i) % 3], "create"))
                ccases.append((str(1 + (k + i + 1) % 3), nm, cfg, SPELL5[(k + i) % 5], OUTS[1 + (k + i) % 2], LOCS[(k + i + 1) % 3],
                               ("new", "create")[i % 2]))
            # the keys that speak about WHERE the file goes, false and true, every spelling, no output named
            for j, s in enumerate(SPELL5):
                for nm in ("cwd=false", "all-false") if j % 2 == 0 else ("cwd=false", "cwd=true"):
                    if not any(c[1] == nm and c[3] == s and c[4] == "none" for c in ccases):
                        ccases.append((str(1 + (k + j) % 3), nm, dict(CONFIGS)[nm], s, "none", LOCS[(k + j) % 3], "create"))
        # sandboxes are prepared one after the other (single PRNG); the fresh interpreters run side by side
        from concurrent.futures import ThreadPoolExecutor
        prepared = [check_config_create(v, nm, cfg, s, o, loc, cmd) for v, nm, cfg, s, o, loc, cmd in ccases]
        with ThreadPoolExecutor(max_workers=6) as ex:
            outcomes = list(ex.map(lambda pr: pr[0](), prepared))
        for (_, judge_one), res in zip(prepared, outcomes):
            judge_one(res)

        # ---------------------------------------------------------------- the interactive mode (select_action)
        def run_dialog(sb, wd, answers):
            return ir.run_interactive_full(answers, wd, os.path.join(sb, "home"))

        def check_interactive_create(version, spelling, out_kind):
            """interactive create from a scratch working directory: exactly one new file, at the documented place, and never
            inside the payload tree; payload, working directory and HOME otherwise untouched"""
            sb, payload, mf = fresh("icreate", "1", False)
            wd = os.path.join(sb, "wd")
            outdir = os.path.join(sb, "out")
            os.makedirs(outdir)
            content = {"absolute": payload, "absolute/": payload + os.sep, "relative": os.path.relpath(payload, wd),
                       "relative/": os.path.relpath(payload, wd) + os.sep, "dot-relative/": "." + os.sep + os.path.join(
                           os.path.relpath(payload, wd), "")}[spelling]
            if out_kind == "empty":
                out, expect = "", os.path.join(wd, "payload.torrent")        # prompt: "Output Path (<content>.torrent)"; MetaFile.write: cwd
            elif out_kind == "absolute":
                out = expect = os.path.join(outdir, "x.torrent")
            else:       # relative, with the directory component the dialog insists on
                out, expect = "." + os.sep + "y.torrent", os.path.join(wd, "y.torrent")
            answers = ir.create_answers(content, out, version, piece_length="15")
            before = snapshot(sb)
            r = run_dialog(sb, wd, answers)
            after = snapshot(sb)
            d = diff(before, after)
            rel = os.path.relpath(expect, sb)
            inp = {"route": "interactive create (torrentfile.interactive.select_action)", "version": version,
                   "content path answer": content.replace(sb, "<sandbox>"), "output path answer": out.replace(sb, "<sandbox>"),
                   "cwd": "<sandbox>/wd", "answers": [a.replace(sb, "<sandbox>") for a in answers]}
            pay_rel = os.path.relpath(payload, sb)
            inside = sorted(k for k in d if k == pay_rel or k.startswith(pay_rel + os.sep))
            if inside:
                ctx.fail("interactive-create-changed-the-payload-tree", inp, "the payload tree is only read",
                         {"rc": r["rc"], "exception": r["exception"], "changed inside the payload": {k: d[k] for k in inside}, "diff": d})
            elif r["rc"] != 0 or list(d.values()) != ["added"] or (out_kind != "empty" and d != {rel: "added"}) \
                    or after[next(iter(d))][0] != "file":
                # a named output must be THE new file; the default location (documented: <cwd>/<name>.torrent) is only noted
                ctx.fail("interactive-create-wrote-other-than-one-file", inp, {rel: "added"},
                         {"rc": r["rc"], "exception": r["exception"], "stderr": r["stderr"][-300:], "diff": d})
            elif d != {rel: "added"}:
                ctx.notes.append(f"interactive create v{version} ({spelling}, empty output answer) wrote {sorted(d)} instead of {rel}")
            ctx.case(key=("icreate", version, spelling, out_kind),
                     classes=["interactive create", "interactive create: output answer " + out_kind,
                              "interactive create: content path " + spelling])

        SPELL = ["absolute", "absolute/", "relative", "relative/", "dot-relative/"]
        if ctx.tier == "thorough":
            icases = [(v, s, o) for v in ("1", "2", "3") for s in SPELL for o in ("empty", "absolute", "relative")]
        else:
            k = ctx.rng.randrange(60)
            icases = [(v, s, "empty") for v in ("1", "2", "3") for s in SPELL[:4]]
            icases += [(v, SPELL[(k + i) % 5], o) for i, (v, o) in enumerate((("1", "absolute"), ("2", "relative"), ("3", "absolute"),
                                                                             ("3", "relative"), ("2", "empty")))]
        for v, s, o in icases:
            check_interactive_create(v, s, o)

        def check_interactive_readonly(kind, version, damaged, edits=None):
            """interactive recheck: nothing changes.  interactive edit: the metafile is rewritten in place, nothing else appears,
            disappears or changes (no leftover temporary, payload / working directory / HOME untouched)"""
            sb, payload, mf = fresh("i" + kind, version, damaged)
            wd = os.path.join(sb, "wd")
            answers = ir.recheck_answers(mf, payload) if kind == "recheck" else ir.edit_answers(mf, edits)
            before = snapshot(sb)
            r = run_dialog(sb, wd, answers)
            after = snapshot(sb)
            d = diff(before, after)
            inp = {"route": f"interactive {kind} (torrentfile.interactive.select_action)", "version": version, "damaged": damaged,
                   "cwd": "<sandbox>/wd", "answers": [a.replace(sb, "<sandbox>") for a in answers]}
            allowed = set() if kind == "recheck" else {os.path.relpath(mf, sb)}
            if set(d) - allowed or any(v != "changed" for v in d.values()):
                ctx.fail(f"interactive-{kind}-modified-filesystem", inp,
                         "nothing created, changed or deleted" + (" except the edited metafile itself" if allowed else ""), d)
            if r["rc"] != 0:
                ctx.fail(f"interactive-{kind}-raised", inp, "the dialog completes", {"exception": r["exception"], "stderr": r["stderr"][-300:]})
            ctx.case(key=("i" + kind, version, str(damaged), json.dumps(edits)), classes=[f"interactive {kind}",
                     "intact" if not damaged else f"damaged: {damaged}"])

        for v, damaged in ((("1", False), ("2", "missing"), ("3", "truncated"), ("1a", "missing")) if ctx.tier == "quick" else
                           [(v, dm) for v in ("1", "1a", "2", "3") for dm in DAMAGE]):
            check_interactive_readonly("recheck", v, damaged)
        for v, edits in (("1", []), ("3", [("comment", "edited")]), ("2", [("tracker", "http://n/a http://n/b"), ("web-seed", "")])):
            check_interactive_readonly("edit", v, False, edits)

        # ---------------------------------------------------------------- rename
        for variant in ("normal", "new-exists", "already-named"):
            sb, payload, mf = fresh("rename", "1", False)
            target = mf
            newp = os.path.join(os.path.dirname(mf), "payload.torrent")
            if variant == "new-exists":
                with open(newp, "wb") as fd:
                    fd.write(b"other torrent")
            if variant == "already-named":
                os.rename(mf, newp)
                target = newp
            before = snapshot(sb)
            rc, out, ev = run_cli(sb, os.path.join(sb, "wd"), ["rename", target], counter[0])
            after = snapshot(sb)
            d = diff(before, after)
            inp = {"command": "rename", "variant": variant}
            if variant == "normal":
                a, b = os.path.relpath(mf, sb), os.path.relpath(newp, sb)
                ok = rc == 0 and set(d) == {a, b} and b in after and a not in after and after[b][:3] == before[a][:3]
                if not ok:
                    ctx.fail("rename-changed-more-than-the-name", inp, "only the file name changes", {"rc": rc, "diff": d})
            else:
                if d or rc == 0:
                    ctx.fail("rename-clobbered-or-did-not-refuse", inp, "refusal, nothing changed", {"rc": rc, "out": out, "diff": d})
            tie("rename", ev, inp)
            ctx.case(key=("rename", variant), classes=["rename " + variant])


def replay(ctx, data):
    print(json.dumps(data, indent=1)[:3000])
    inp = data.get("input") or {}
    if inp.get("kind") == "create-payload-named-like-a-metafile":
        # the payload is a function of its name: the case is rebuilt and run again
        with core.Scratch("vc18r_") as tmp:
            _, problem, _, (d, expect) = named_payload_case(tmp, 0, "" if inp["command"].startswith("<") else inp["command"],
                                                            inp["version"], inp["payload_name"], inp["payload"] == "directory",
                                                            inp["variant"])
        if problem:
            print(f"[C18 replay] VIOLATION create-wrote-other-than-one-file: expected {problem[0]} observed {problem[1]}")
            return 1
        print(f"[C18 replay] create wrote exactly one new file ({sorted(d)}); the payload is unchanged")
    elif inp.get("kind") == "create-output-path":
        # payload and sandbox are functions of the recorded parameters: the case is rebuilt and run again
        with core.Scratch("vc18r_") as tmp:
            _, problem, _, (rc, d) = outpath_case(tmp, inp.get("n", 0), "" if inp["command"].startswith("<") else inp["command"],
                                                  inp["version"], inp["out_kind"], inp["out_option"], inp["refusal"])
        if problem:
            print(f"[C18 replay] VIOLATION {problem[0]}: expected {problem[1]} observed {problem[2]}")
            return 1
        print(f"[C18 replay] create exited {rc} and changed {d or 'nothing'}: as the property demands")
    return 0
