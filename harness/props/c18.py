"""C18 -- inspecting commands are read-only; create writes one file; rename never clobbers."""
import os
import json
import stat
import shutil
import hashlib
import subprocess

import core
import trees

GEN_FILES = ["GenEffects.v"]
RULE = ("tie: every filesystem event (sys.addaudithook: open with write flags, remove, rename/replace, mkdir, copyfile, chmod...) "
        "of a real run of each command, in a fresh interpreter, must be of a kind that the generated summary attributes to "
        "some function reachable from that command; end to end: recursive snapshots (type, size, sha256, mode, mtime_ns) of a sandbox "
        "holding payload, metafiles, working directory and HOME before/after `recheck|check`, `info`, `magnet|m` (all versions, intact and "
        "damaged trees, -q/-v, version requests), `create|new|<implicit>` (with -o file, -o dir/, without -o; pre-existing ./.torrent and "
        "dir/.torrent; existing output), `rename` (normal, new name exists, already named right). Distinct = distinct "
        "(command spelling, version, tree state, variant).")
TRUSTED_BASE = [
    "Coq 8.16.1 kernel; theorems closed under the global context",
    "translator gen/callgraph.py + gen/gen_effects.py: the call graph and effect sets must over-approximate the code (checked "
    "dynamically: audit-hook traces must lie within the predicted effect kinds)",
    "effects of the standard library beyond the audited primitives; races with other processes are outside the quantifier",
]
ASSUMPTIONS = ["`within`: each event of a real execution is performed by a reachable function that declares that kind (validated by traces)",
               "os.rename(T, N) would silently replace an existing N: the guard in commands.rename is what prevents it (modelled)"]

RUNNER = os.path.join(core.VERIF, "harness", "runners", "cli_audit.py")


def snapshot(root):
    out = {}
    for dp, dns, fns in os.walk(root):
        for n in dns + fns:
            p = os.path.join(dp, n)
            st = os.lstat(p)
            rel = os.path.relpath(p, root)
            if stat.S_ISDIR(st.st_mode):
                out[rel] = ("dir", stat.S_IMODE(st.st_mode))
            else:
                with open(p, "rb") as fd:
                    h = hashlib.sha256(fd.read()).hexdigest()
                out[rel] = ("file", st.st_size, h, stat.S_IMODE(st.st_mode), st.st_mtime_ns)
    return out


def diff(a, b):
    ch = {}
    for k in sorted(set(a) | set(b)):
        if a.get(k) != b.get(k):
            ch[k] = ("added" if k not in a else "removed" if k not in b else "changed")
    return ch


def run_cli(sandbox, cwd, argv, n):
    trace = os.path.join(os.path.dirname(sandbox), f"trace{n}.json")
    home = os.path.join(sandbox, "home")
    os.makedirs(home, exist_ok=True)
    p = subprocess.run([core.PY, RUNNER, sandbox, trace] + argv, cwd=cwd, env=core.impl_env({"HOME": home}),
                       capture_output=True, text=True, timeout=300)
    ev = []
    if os.path.exists(trace):
        ev = json.load(open(trace))
        os.remove(trace)
    return p.returncode, p.stdout.strip(), ev


def predicted_kinds():
    import callgraph
    import gen_effects
    g = callgraph.Graph(core.REPO)
    out = {}
    for name, q in gen_effects.COMMANDS.items():
        r = g.reach([q, "cli.execute"])
        kinds = set()
        for f in r:
            kinds |= {k for k, _ in g.fns[f].effects}
            if g.fns[f].unknown:
                kinds.add("Unknown")
        out[name] = kinds
    return out


def run(ctx, model_ok):
    try:
        pred = predicted_kinds()
    except Exception as e:  # noqa
        pred = None
        ctx.broken.append(f"call-graph translator crashed: {type(e).__name__}: {e}")
    counter = [0]
    with core.Scratch("vc18_") as tmp:
        def fresh(label, version, damaged):
            """sandbox with payload, metafile(s), wd, home"""
            counter[0] += 1
            sb = os.path.join(tmp, f"s{counter[0]}", "sandbox")
            pl = 16384
            tree = {("a.bin",): ctx.rng.randbytes(pl + 100), ("d", "b.bin"): ctx.rng.randbytes(3 * pl), ("d", "e"): b""}
            payload = os.path.join(sb, "data", "payload")
            trees.write_tree(payload, tree)
            os.makedirs(os.path.join(sb, "wd"))
            os.makedirs(os.path.join(sb, "home"))
            os.makedirs(os.path.join(sb, "metas"))
            mf = os.path.join(sb, "metas", "m.torrent")
            kind = {"1": "v1", "2": "v2-asm", "3": "hybrid-asm"}[version]
            trees.create(kind, payload, mf, pl, announce=["http://t/a"], url_list=["http://w/s"])
            if damaged:
                with open(os.path.join(payload, "d", "b.bin"), "r+b") as fd:
                    fd.seek(pl + 5)
                    fd.write(b"\xff\x00\xff")
                os.remove(os.path.join(payload, "a.bin"))
            return sb, payload, mf

        def check_readonly(cmdname, spelling, argv_fn, version, damaged, variant):
            sb, payload, mf = fresh(cmdname, version, damaged)
            before = snapshot(sb)
            rc, out, ev = run_cli(sb, os.path.join(sb, "wd"), argv_fn(payload, mf), counter[0])
            after = snapshot(sb)
            d = diff(before, after)
            inp = {"command": spelling, "argv": argv_fn("<payload>", "<metafile>"), "version": version, "damaged": damaged}
            if d:
                ctx.fail(f"{cmdname}-modified-filesystem", inp, "nothing created, changed or deleted", d)
            if rc not in (0,):
                ctx.notes.append(f"{spelling} {variant} v{version} exited {rc} {out}")
            tie(cmdname, ev, inp)
            ctx.case(key=(spelling, version, damaged, variant), classes=[f"{cmdname} read-only", "damaged" if damaged else "intact"],
                     sample={"argv": inp["argv"], "events": [e[:2] for e in ev][:6]} if counter[0] == 1 else None)

        def tie(cmdname, ev, inp):
            if pred is None:
                return
            ctx.traces_validated += 1
            kinds = {e[0] for e in ev}
            extra = kinds - pred[cmdname]
            if extra:
                ctx.disagree(f"generated effect summary of `{cmdname}` vs audited events", inp,
                             sorted(pred[cmdname]), [e for e in ev if e[0] in extra][:5])

        versions = ["1", "2", "3"] if ctx.tier == "thorough" else [ctx.rng.choice(["1", "2", "3"]) for _ in range(2)] + ["3"]
        for v in versions:
            for damaged in (False, True):
                for sp in (("recheck", "check") if ctx.tier == "thorough" else (ctx.rng.choice(["recheck", "check"]),)):
                    check_readonly("recheck", sp, lambda p, m, sp=sp: [sp, m, p], v, damaged, "root")
                    check_readonly("recheck", sp, lambda p, m, sp=sp: ["-q", sp, m, os.path.dirname(p)], v, damaged, "parent-quiet")
                check_readonly("info", "info", lambda p, m: ["info", m], v, damaged, "")
                for sp, mv in (("magnet", "0"), ("m", "2" if v != "1" else "1"), ("magnet", "3"), ("m", "1")):
                    if ctx.tier == "quick" and mv in ("3",) and v != "3":
                        continue
                    check_readonly("magnet", sp, lambda p, m, sp=sp, mv=mv: ["-v", sp, m, "--meta-version", mv], v, damaged, mv)

        # ---------------------------------------------------------------- create
        def check_create(spelling, version, variant):
            sb, payload, mf = fresh("create", "1", False)
            wd = os.path.join(sb, "wd")
            outdir = os.path.join(sb, "out")
            os.makedirs(outdir)
            victims = []
            argv = ([spelling] if spelling else []) + ["--meta-version", version, "--prog", "0"]
            if variant == "no-out":
                victims.append(os.path.join(wd, ".torrent"))
                expect = os.path.join(wd, "payload.torrent")
            elif variant == "out-dir":
                victims.append(os.path.join(outdir, ".torrent"))
                argv += ["-o", outdir + os.sep]
                expect = os.path.join(outdir, "payload.torrent")
            elif variant == "out-file":
                expect = os.path.join(outdir, "x.torrent")
                argv += ["-o", expect]
            else:   # existing output file is overwritten: still exactly one file
                expect = os.path.join(outdir, "x.torrent")
                with open(expect, "wb") as fd:
                    fd.write(b"old")
                argv += ["-o", expect]
            for vic in victims:
                with open(vic, "wb") as fd:
                    fd.write(b"precious")
            argv += [payload]
            before = snapshot(sb)
            rc, out, ev = run_cli(sb, wd, argv, counter[0])
            after = snapshot(sb)
            d = diff(before, after)
            rel = os.path.relpath(expect, sb)
            inp = {"command": spelling or "<implicit create>", "version": version, "variant": variant,
                   "argv": [a.replace(sb, "<sandbox>") for a in argv]}
            if rc != 0 or set(d) != {rel}:
                ctx.fail("create-wrote-other-than-one-file", inp, {rel: "added/changed"}, {"rc": rc, "out": out, "diff": d})
            tie("create", ev, inp)
            ctx.case(key=("create", spelling, version, variant), classes=["create " + variant])
        for sp, v, var in ([("create", "1", "no-out"), ("new", "2", "out-dir"), ("", "3", "out-file"), ("create", "3", "out-existing"),
                            ("create", "2", "no-out"), ("", "1", "out-dir")]
                           if ctx.tier == "quick" else
                           [(s, v, var) for s in ("create", "new", "") for v in ("1", "2", "3")
                            for var in ("no-out", "out-dir", "out-file", "out-existing")]):
            check_create(sp, v, var)

        # ---------------------------------------------------------------- rename
        for variant in ("normal", "new-exists", "already-named"):
            sb, payload, mf = fresh("rename", "1", False)
            target = mf
            newp = os.path.join(os.path.dirname(mf), "payload.torrent")
            if variant == "new-exists":
                with open(newp, "wb") as fd:
                    fd.write(b"other torrent")
            if variant == "already-named":
                os.rename(mf, newp)
                target = newp
            before = snapshot(sb)
            rc, out, ev = run_cli(sb, os.path.join(sb, "wd"), ["rename", target], counter[0])
            after = snapshot(sb)
            d = diff(before, after)
            inp = {"command": "rename", "variant": variant}
            if variant == "normal":
                a, b = os.path.relpath(mf, sb), os.path.relpath(newp, sb)
                ok = rc == 0 and set(d) == {a, b} and b in after and a not in after and after[b][:3] == before[a][:3]
                if not ok:
                    ctx.fail("rename-changed-more-than-the-name", inp, "only the file name changes", {"rc": rc, "diff": d})
            else:
                if d or rc == 0:
                    ctx.fail("rename-clobbered-or-did-not-refuse", inp, "refusal, nothing changed", {"rc": rc, "out": out, "diff": d})
            tie("rename", ev, inp)
            ctx.case(key=("rename", variant), classes=["rename " + variant])


def replay(ctx, data):
    print(json.dumps(data, indent=1)[:3000])
    return 0
