"""C19 -- Rebuild never writes outside the destination, whatever the metafile says."""
import os
import json
import shutil
import hashlib
import itertools
from concurrent.futures import ThreadPoolExecutor

import core
import modelrun
from ref import oracle
from props import rebuild_common as rc

GEN_FILES = ["GenPathCheck.v"]
EXTRA_TARGETS = ["Extract/ExtractRebuild.vo"]
AREAS = ["rebuild"]
RULE = ("model tie: Metadata._check_parts vs the extracted safe_comp on every generated path element and vs check_parts_model on "
        "every generated element list; os.path.normpath(os.path.join(...)) vs the extracted resolve on every generated sequence; "
        "refusal (ValueError from Metadata) vs checked_target = None on every v1 case; Metadata(metafile) -- accepted with which name and "
        "which entries (path / full as pathlib parts, filename, length, root), or refused -- vs the extracted metadata_of_bytes (model of "
        "pyben.loads + Metadata.extract/_parse_tree) on every hostile metafile of the end-to-end search and on: every hostile element "
        "(incl. absolute, non-UTF-8) at every key position of a file tree with sibling directories three levels deep (directory keys at "
        "depth 1-3, leaf keys at depth 1-4, first and later siblings, empty directories, keys inside leaf nodes), names of every form, "
        "v1 entries with further keys, single-file forms, odd shapes and random changes of shape.  End to end: hostile metafiles written with the "
        "reference encoder -- v1 `path` lists: ALL sequences of 1..3 (quick) / 1..4 (thorough) elements over {'', '.', '..', 'a', "
        "'a/b', '/abs', '..x', 'a/../../b'} ('/abs' = an absolute path inside the sandbox), chains of 1..12 '..' as separate elements "
        "and inside one element, elements of other types (int, non-UTF-8 bytes); v2 and hybrid `file tree` keys: each hostile element "
        "as a directory key, a leaf key below a directory and a top-level leaf key; `name`: each hostile element for v1 single/multi, v2 "
        "single/multi and hybrid; batches through a metafile directory holding a hostile and a benign metafile; hostile elements IN CONTEXT (several entries, "
        "order matters): well-formed entries nested one, two and three directories deep ('sub/a', 'sub/deep/a', 'sub/deep/er/a'; also all "
        "three, also with an unrelated entry after them) and a hostile entry -- last, first, between -- whose hostile element shares "
        "their text at position 0, 1 or 2 of its path: '<word>/../..[/escaped]' with enough '..' to lead back to dest/name, one level "
        "above the destination and far above it, the remaining chain inside one element ('sub/deep/../../../../escaped'), the chain "
        "joined by separators, a trailing separator, an absolute element, '..' as separate elements after the complete shared chain; the "
        "same as directory keys of v2 / hybrid trees written key by key (hostile key after / before the well-formed sibling); `name`: a "
        "benign torrent 'sub' processed before / after a torrent named 'sub/../../escaped' (v1, v2, hybrid).  A candidate file with "
        "the right size and hash, named after the last element (or its base name), is present in the search directory so that the "
        "copy is attempted whenever the element list is let through.  The destination's SURROUNDINGS and SPELLING: beside the "
        "destination 'dest' lie directories whose names extend / end with its name ('dest.old', 'dest-incoming', 'dest2', 'my-dest', with "
        "shorter victims inside); metafiles (v1, v2, hybrid) that walk up with '..' and re-enter such a neighbour -- as separate elements, "
        "inside one element, through the name ('..', '.', '../dest.old') -- with the usual search directory, the neighbour itself or "
        "another neighbour as the search directory; WELL-FORMED metafiles (single- and multi-file) whose name is the end / the beginning "
        "/ the whole of the destination's last component ('t', 'est', 'dest' into 'dest'; 'dest', 'my' into 'my-dest'; 'old', 'dest' "
        "into 'dest.old'); each with the destination spelled absolute, with a trailing separator, relative, './x', '../x' from inside a "
        "neighbour, '.' from inside, through the Assembler API and the command line.  Everything lives in a sandbox root whose destination is 12 "
        "levels deep, with victim files beside and above the destination; everything in the sandbox outside the destination is "
        "snapshotted (names, sizes, sha256, modes, mtimes) before and after each rebuild and must be identical; every mutating audit "
        "event must target the destination (the runner additionally refuses mutations outside the sandbox).  Refusal with any "
        "exception and no effect is fine.  Non-trivial = distinct metafile in which at least one element is unsafe.")
TRUSTED_BASE = rc.TRUSTED_BASE
ASSUMPTIONS = ["symbolic links already present inside the destination are outside the theorem and the generated space",
               "lexical resolution: the destination path itself contains no '..' and no symbolic link"]

PL = 16384
DATA = bytes((i * 13 + 5) % 256 for i in range(100))
DEPTH = 12
WORKERS = 4
CANDIDATES = ["a", "b", "..x", "abs", "f", "n", "x", "evil.txt", "é", "f.bin",
              # single-file torrents called like (a part of) the destination's last component
              "t", "est", "de", "dest", "my", "my-dest", "-dest", "old", ".old", "dest.old"]
# the destination's SURROUNDINGS: directories beside the destination whose names extend / end with the destination's name; each
# holds a candidate (have/f.bin, for the cases in which it is the search directory) and shorter victims (a, sub/f.bin)
NEIGHBOURS = ["dest.old", "dest-incoming", "dest2", "my-dest"]
SPELLINGS = ["absolute", "absolute with a trailing separator", "relative", "relative with './'", "relative with a trailing separator",
             "relative '../<destination>' from a neighbour", "'.' from inside the destination"]


def comp_class(c):
    if not isinstance(c, str):
        return "not a string"
    return ("empty" if c == "" else "dot" if c == "." else "dotdot" if c == ".." else "absolute" if c.startswith("/")
            else "with separator" if "/" in c else "plain")


class Sandbox:
    def __init__(self, root):
        self.root = root
        self.build()

    def build(self):
        shutil.rmtree(self.root, ignore_errors=True)
        r = self.root
        os.makedirs(os.path.join(r, "meta"))
        os.makedirs(os.path.join(r, "search", "sub"))
        for n in CANDIDATES:
            with open(os.path.join(r, "search", "sub" if n in ("b", "x") else "", n), "wb") as fd:
                fd.write(DATA)
        levels = [f"L{i}" for i in range(1, DEPTH)]
        self.dest = os.path.join(r, *levels, "dest")
        os.makedirs(self.dest)
        self.dest_rel = "/".join(levels + ["dest"])
        # victims: shorter files named like the candidates where an escape would land, and bystanders
        p = r
        for i, lv in enumerate(levels):
            p = os.path.join(p, lv)
            if i in (0, 5, 9, 10):
                for n in ("a", "..x", "b"):
                    with open(os.path.join(p, n), "wb") as fd:
                        fd.write(b"victim")
        self.parent = os.path.dirname(self.dest)
        self.parent_rel = "/".join(levels)
        for nb in NEIGHBOURS:
            os.makedirs(os.path.join(self.parent, nb, "sub"))
            os.makedirs(os.path.join(self.parent, nb, "have"))
            for rel, data in (("a", b"victim"), ("sub/f.bin", b"victim"), ("have/f.bin", DATA)):
                with open(os.path.join(self.parent, nb, rel), "wb") as fd:
                    fd.write(data)
        os.makedirs(os.path.join(r, "abs"))
        with open(os.path.join(r, "abs", "a"), "wb") as fd:
            fd.write(b"victim")
        with open(os.path.join(r, "bystander.txt"), "wb") as fd:
            fd.write(b"bystander")

    def abs_comp(self):
        return os.path.join(self.root, "abs")

    def outside(self, leaf="dest"):
        """everything in the sandbox that is not the destination (the directory `leaf` beside / equal to 'dest') or below it"""
        dest_rel = self.parent_rel + "/" + leaf
        pre = dest_rel + "/"
        return {k: v for k, v in rc.snapshot(self.root).items() if k != dest_rel and not k.startswith(pre)}

    def job_paths(self, c):
        """(destination directory, destination as spelled, working directory, search directories) of a case"""
        leaf = c.get("dest_leaf") or "dest"
        dest = os.path.join(self.parent, leaf)
        sp = c.get("dest_spelling") or "absolute"
        other = next(n for n in NEIGHBOURS if n != leaf)
        arg, cwd = {"absolute": (dest, None), "absolute with a trailing separator": (dest + os.sep, None),
                    "relative": (leaf, self.parent), "relative with './'": ("./" + leaf, self.parent),
                    "relative with a trailing separator": (leaf + os.sep, self.parent),
                    "relative '../<destination>' from a neighbour": ("../" + leaf, os.path.join(self.parent, other)),
                    "'.' from inside the destination": (".", dest)}[sp]
        search = [os.path.join(self.parent, c["search_leaf"])] if c.get("search_leaf") else [os.path.join(self.root, "search")]
        return dest, arg, cwd, search

    def reset_dest(self):
        shutil.rmtree(self.dest, ignore_errors=True)
        os.makedirs(self.dest, exist_ok=True)


def enc(c):
    return c if isinstance(c, (bytes, int)) else c.encode("utf-8", "surrogateescape")


def v1_meta(name, entries, single=False, extra=None):
    """entries: list of (path elements (any bencodable), data); extra: per entry a dict of further keys (attr, ...) or None"""
    info = {b"name": enc(name), b"piece length": PL}
    if single:
        info[b"length"] = len(entries[0][1])
        stream = entries[0][1]
    else:
        info[b"files"] = [{b"length": len(d), b"path": [enc(c) for c in comps], **((extra or [None] * len(entries))[i] or {})}
                          for i, (comps, d) in enumerate(entries)]
        stream = b"".join(d for _, d in entries)
    info[b"pieces"] = b"".join(oracle.v1_pieces(stream, PL))
    return oracle.bencode({b"info": info})


def gen_cases(tier, absc, rng):
    """list of dicts: label, kind (v1-path|v2-key|name|odd|deep|batch), raw metafile bytes, comps (all path elements incl. name),
       v1: (name, path) for the model"""
    A = [absc if c == "/abs" else c for c in rc.HOSTILE]
    out = []
    kmax = 3 if tier == "quick" else 4
    for k in range(1, kmax + 1):
        for seq in itertools.product(A, repeat=k):
            out.append({"kind": "v1-path", "label": f"v1 path {list(seq)}", "raw": oracle.ref_metafile("n", [(seq, DATA)], PL, 1),
                        "name": "n", "path": list(seq), "depth": k})
    for k in range(1, DEPTH + 1):
        for tail in (["a"], ["x", "a"]):
            seq = [".."] * k + tail
            out.append({"kind": "deep", "label": f"v1 path ['..']*{k} + {tail}", "raw": oracle.ref_metafile("n", [(tuple(seq), DATA)], PL, 1),
                        "name": "n", "path": seq, "depth": len(seq)})
        one = "../" * k + "a"
        out.append({"kind": "deep", "label": f"v1 path ['{one}']", "raw": oracle.ref_metafile("n", [((one,), DATA)], PL, 1),
                    "name": "n", "path": [one], "depth": 1})
        out.append({"kind": "deep", "label": f"v1 path ['a', '{one}']", "raw": oracle.ref_metafile("n", [(("a", one), DATA)], PL, 1),
                    "name": "n", "path": ["a", one], "depth": 2})
    extra = [c for c in rc.EXTRA_COMPONENTS if "\x00" not in c] + ["a\x00b"]
    hostile = A + ["../" * 5 + "a", "../../..", "x/../../../../a"] + (extra if tier != "quick" else extra[:10])
    for h in hostile:
        for version in (2, 3):
            for pos, comps in (("directory key", (h, "f")), ("leaf key below a directory", ("d", h)), ("top-level leaf key", (h,))):
                try:
                    raw = oracle.ref_metafile("n", [(comps, DATA)], PL, version)
                except Exception:  # noqa  (e.g. the key collides with the leaf marker)
                    continue
                out.append({"kind": "v2-key", "label": f"v{version} tree {pos} {h!r}", "raw": raw, "name": "n", "path": list(comps),
                            "depth": len(comps), "v2": True})
        for version in (1, 2, 3):
            out.append({"kind": "name", "label": f"v{version} multi-file name {h!r}", "raw": oracle.ref_metafile(h, [(("a",), DATA)], PL, version),
                        "name": h, "path": ["a"], "depth": 1, "v2": version != 1})
            out.append({"kind": "name", "label": f"v{version} single-file name {h!r}",
                        "raw": oracle.ref_metafile(h, [((), DATA)], PL, version, single=True),
                        "name": h, "path": [], "depth": 0, "v2": version != 1})
    # an empty (or dot) NAME followed by innocuous elements that SPELL an absolute directory of the sandbox: harmless as long as
    # the name is refused and the join is os.path.join; a plain separator join of ['', 'tmp', ..., 'a'] is the absolute path
    spelled = [p for p in absc.split("/") if p]
    for nm in ("", "."):
        for tail in (["a"], ["x", "a"]):
            out.append({"kind": "name", "label": f"v1 multi-file name {nm!r} with path elements that spell the absolute directory {absc}",
                        "raw": v1_meta(nm, [(tuple(spelled + tail), DATA)]), "name": nm, "path": spelled + tail,
                        "depth": len(spelled) + len(tail)})
    for comps in ([5, "a"], [b"\xff\xfe", "a"], ["a", b"\xc3\x28"], [["..", ".."], "a"], [b"..", b"..", b"a"], ["..", 7]):
        try:
            raw = v1_meta("n", [(comps, DATA)])
        except Exception:  # noqa
            continue
        out.append({"kind": "odd", "label": f"v1 path with other element types {comps!r}", "raw": raw, "name": "n", "path": None, "depth": len(comps)})
    # entries that carry further keys (BEP 47 attr flags, symlink path, md5sum ...): validation must not depend on them
    flagged = [s for k in (1, 2) for s in itertools.product(A, repeat=k)] + [("..", "..", "a"), (absc, "x", "a"), ("a", "..", "..", "..", "a")]
    extras = [{b"attr": b"p"}, {b"attr": b"x"}, {b"attr": b"h"}, {b"attr": b"px"}, {b"attr": b"l", b"symlink path": [b"a"]},
              {b"md5sum": b"0" * 32}, {b"attr": b""}]
    for j, seq in enumerate(flagged):
        for ex in (extras if tier != "quick" else [extras[0], extras[1 + j % (len(extras) - 1)]]):
            lab = {k.decode(): (v.decode() if isinstance(v, bytes) else "...") for k, v in ex.items()}
            out.append({"kind": "v1-flagged", "label": f"v1 path {list(seq)} in an entry with {lab}",
                        "raw": v1_meta("n", [(seq, DATA)], extra=[ex]), "name": "n", "path": list(seq), "depth": len(seq)})
            if j % 3 == 0:      # the usual layout: a benign file first, the flagged entry after it
                out.append({"kind": "v1-flagged", "label": f"v1 benign file, then path {list(seq)} in an entry with {lab}",
                            "raw": v1_meta("n", [(("first",), DATA), (seq, DATA)], extra=[None, ex]), "name": "n", "path": list(seq),
                            "depth": len(seq), "second": True})
    for seq in (["..", "..", "a"], ["..", "a"], [absc, "a"], ["a/../../../a"], ["", "..", "..", "..x"]):
        out.append({"kind": "batch", "label": f"metafile directory: hostile v1 path {seq} next to a benign metafile",
                    "raw": oracle.ref_metafile("n", [(tuple(seq), DATA)], PL, 1), "name": "n", "path": seq, "depth": len(seq),
                    "benign": oracle.ref_metafile("good", [(("a",), DATA), (("sub", "x"), DATA)], PL, 1)})
    out += context_cases(tier, absc)
    out += surroundings_cases(tier)
    rng.shuffle(out)
    return out


# ------------------------------------------------------------------ hostile elements in CONTEXT (several entries, order matters)
CTX_BENIGN_INSIDE = ["sub/deep/a"]


def _spec_insert(spec, comps, data):
    """ordered file-tree spec (list of (key, bytes | spec)): keys stay in the order of their first insertion"""
    for k, v in spec:
        if k == comps[0] and len(comps) > 1 and isinstance(v, list):
            _spec_insert(v, comps[1:], data)
            return
    spec.append((comps[0], data if len(comps) == 1 else []))
    if len(comps) > 1:
        _spec_insert(spec[-1][1], comps[1:], data)


def context_cases(tier, absc):
    """
    The property quantifies over EVERY element of EVERY entry, whatever stands before it.  Metafiles with several entries in
    which well-formed entries nested one, two and three directories deep ('sub/a', 'sub/deep/a', 'sub/deep/er/a') come first
    and a hostile entry follows whose hostile ELEMENT shares their text: at position 0, 1 or 2 of its path (after 0, 1, 2
    well-formed elements it has in common with the entry before), the element being '<word>/../../..[/escaped]' with as many
    '..' as lead back to dest/<name>, one level above the destination, and further; the whole remaining chain inside one element
    ('sub/deep/../../../../escaped'); 'sub/deep' (separator only); '..' as separate elements after the complete shared chain;
    an absolute element after the shared chain.  The hostile entry last, first, and between well-formed entries; another entry
    between the one it shares text with and itself.  The same as DIRECTORY keys of v2 / hybrid file trees written key by key
    (the hostile key after and before the well-formed sibling it shares text with, at tree depth 1, 2, 3), and for `name`: a
    metafile directory in which a benign torrent called 'sub' is processed before or after a torrent called 'sub/../../escaped'.
    The file of the hostile entry is 'b' (a candidate of the recorded size and hash is in the search directory; victims called
    'b' lie above the destination), the well-formed entries are files 'a' / 'x' with candidates as well: the copy runs.
    """
    out = []
    chains = {1: ("sub",), 2: ("sub", "deep"), 3: ("sub", "deep", "er")}
    contexts = [("one deep", [("sub", "a")], chains[1]), ("two deep", [("sub", "deep", "a")], chains[2]),
                ("three deep", [("sub", "deep", "er", "a")], chains[3]),
                ("one, two and three deep", [("sub", "a"), ("sub", "deep", "a"), ("sub", "deep", "er", "a")], chains[3]),
                ("two deep, then an unrelated entry", [("sub", "deep", "a"), ("x",)], chains[2])]
    quick = tier == "quick"
    for cname, entries, P in contexts:
        hostile = []      # (path, class)
        for pos in range(len(P)):
            w = P[pos]
            for u, where in ((pos + 1, "back to dest/name"), (pos + 3, "one level above the destination"), (pos + 6, "far above the destination")):
                if quick and pos and u == pos + 6:
                    continue
                hostile.append((P[:pos] + (w + "/.." * u + "/escaped", "b"), f"'{w}/../..' + directory inside one element at position {pos}, {where}"))
                hostile.append((P[:pos] + (w + "/.." * u, "b"), f"'{w}/../..' inside one element at position {pos}, {where}"))
                if pos < len(P) - 1:
                    rest = "/".join(P[pos:])
                    hostile.append((P[:pos] + (rest + "/.." * (u + len(P) - pos - 1) + "/escaped", "b"),
                                    f"the remaining chain and '..' inside one element at position {pos}, {where}"))
            hostile.append((P[:pos] + (absc, "b"), f"absolute element at position {pos}"))
            hostile.append((P[:pos] + (w + "/", "b"), f"trailing separator at position {pos}"))
        if len(P) > 1:
            hostile.append((("/".join(P), "b"), "the chain joined by separators as one element"))
        for extra in (1, 2, 5):
            hostile.append((P + ("..",) * (len(P) + extra) + ("b",), "'..' as separate elements after the complete shared chain"))
        for hi, (hpath, hclass) in enumerate(hostile):
            orders = [("last", entries + [hpath])]
            if not quick or hi % 3 == 0:
                orders.append(("first", [hpath] + entries))
            if len(entries) > 1 and (not quick or hi % 3 == 1):
                orders.append(("between", entries[:1] + [hpath] + entries[1:]))
            for oname, seq in orders:
                base = {"name": "n", "path": list(hpath), "depth": len(hpath), "second": True,
                        "classes": ["context: well-formed entries " + cname, "context: hostile entry " + oname, "context: " + hclass.split(",")[0]]}
                shown = [list(e) if absc not in e else ["<abs>" if x == absc else x for x in e] for e in seq]
                out.append(dict(base, kind="v1-context", label=f"v1 entries {shown} (hostile entry {oname}; well-formed {cname})",
                                raw=v1_meta("n", [(e, DATA) for e in seq])))
                if oname == "between" or (quick and hi % 2):
                    continue
                for hybrid in (False, True):
                    spec = []
                    for e in seq:
                        _spec_insert(spec, list(e), DATA)
                    try:
                        raw = rc.v2_raw("n", spec, hybrid)
                    except Exception:  # noqa
                        continue
                    out.append(dict(base, kind="v2-context", v2=True, raw=raw,
                                    label=f"{'hybrid' if hybrid else 'v2'} tree written key by key from {shown} (hostile key {oname}; well-formed {cname})"))
    # `name`: a benign torrent 'sub' (sub/deep/a) in the same metafile directory, processed before / after the hostile one
    for h in ("sub/../../escaped", "sub/../..", "sub/deep/../../../escaped", "sub/..", "sub/", "sub/deep"):
        for version in (1, 2, 3):
            for bfile, when in (("good.torrent", "before"), ("z_good.torrent", "after")):
                out.append({"kind": "name-context", "label": f"metafile directory: benign torrent 'sub' processed {when} a v{version} torrent named {h!r}",
                            "raw": oracle.ref_metafile(h, [(("b",), DATA)], PL, version), "name": h, "path": ["b"], "depth": 1, "v2": version != 1,
                            "benign": oracle.ref_metafile("sub", [(("deep", "a"), DATA)], PL, version), "benign_file": bfile,
                            "benign_inside": CTX_BENIGN_INSIDE,
                            "classes": ["context: benign torrent whose name the hostile name starts with, processed " + when]})
    return out


def surroundings_cases(tier):
    """
    The destination's SURROUNDINGS and SPELLING.  Beside the destination 'dest' lie directories whose names EXTEND its name
    ('dest.old', 'dest-incoming', 'dest2') or END with it ('my-dest'); each holds shorter victims (a, sub/f.bin).
    (1) metafiles that walk up with '..' and re-enter such a neighbour -- as separate elements, inside one element, through the
    name ('..', '.', '../<neighbour>') -- v1 / v2 / hybrid; the search directory is the usual one, the neighbour itself or another
    neighbour.  (2) well-formed metafiles (multi-file and single-file; v1 / v2 / hybrid) whose NAME is the end / the beginning /
    the whole of the destination's last component ('t', 'est', 'dest' for 'dest'; 'dest', 'my' for 'my-dest'; 'old', 'dest' for
    'dest.old'), the destination being 'dest', 'my-dest' or 'dest.old'.  Every case with the destination spelled absolute,
    absolute or relative with a trailing separator, relative, './x', '../x' from inside a neighbour, '.' from inside; Assembler
    API and command line (quick: the combinations in rotation; thorough: every walk with every search directory and spelling).
    Judge as everywhere: the sandbox outside the destination is unchanged and every mutation targets the destination.
    """
    quick = tier == "quick"
    out = []
    k = 0
    for nb in NEIGHBOURS:
        walks = [("n", ("..", "..", nb, "sub", "f.bin")), ("n", ("..", "..", nb, "new", "f.bin")), ("..", (nb, "sub", "f.bin")),
                 ("n", ("../../" + nb, "sub", "f.bin")), ("n", ("../../" + nb + "/sub/f.bin",)), ("../" + nb, ("sub", "f.bin")),
                 (".", ("..", nb, "sub", "f.bin")), ("n", ("x", "..", "..", "..", nb, "f.bin"))]
        others = [n for n in NEIGHBOURS if n != nb]
        for name, path in walks:
            for version in (1, 2, 3):
                searches = [None, nb, others[k % len(others)]]
                combos = [(searches[k % 3], SPELLINGS[k % len(SPELLINGS)])] if quick else \
                    [(s, SPELLINGS[(k + i + 3 * j) % len(SPELLINGS)]) for i, s in enumerate(searches) for j in range(3)]
                for sl, sp in combos:
                    k += 1
                    mode = "cli" if k % 2 else "api"
                    try:
                        raw = oracle.ref_metafile(name, [(path, DATA)], PL, version)
                    except Exception:  # noqa
                        continue
                    out.append({"kind": "neighbour", "raw": raw, "name": name, "path": list(path), "depth": len(path), "v2": version != 1,
                                "search_leaf": sl, "dest_spelling": sp, "mode": mode,
                                "label": f"v{version} name {name!r} path {list(path)}: walks up and re-enters the directory {nb!r} beside the "
                                         f"destination 'dest' (search directory: {sl or 'the usual one'}; destination spelled {sp}; {mode})",
                                "classes": ["surroundings: walk into a neighbour whose name " + ("ends with" if nb == "my-dest" else "extends") +
                                            " the destination's name", "surroundings: search directory " +
                                            ("the usual one" if sl is None else "the neighbour walked into" if sl == nb else "another neighbour"),
                                            "destination spelled " + sp]})
    related = {"dest": ["t", "est", "de", "dest"], "my-dest": ["dest", "my", "my-dest", "t", "-dest"],
               "dest.old": ["old", ".old", "dest", "dest.old"]}
    for leaf, names in related.items():
        for name in names:
            rel = ("equals" if name == leaf else "is the end of" if leaf.endswith(name) else "is the beginning of")
            for version in (1, 2, 3):
                for single in (False, True):
                    combos = [SPELLINGS[k % len(SPELLINGS)]] if quick else SPELLINGS
                    for sp in combos:
                        k += 1
                        mode = "cli" if k % 2 else "api"
                        files = [((), DATA)] if single else [(("a",), DATA), (("sub", "x"), DATA)]
                        out.append({"kind": "dest-name", "raw": oracle.ref_metafile(name, files, PL, version, single=single),
                                    "name": name, "path": [] if single else ["a"], "depth": 0 if single else 1, "v2": version != 1,
                                    "dest_leaf": leaf, "dest_spelling": sp, "mode": mode,
                                    "label": f"well-formed v{version} {'single-file' if single else 'multi-file'} torrent {name!r} rebuilt into the "
                                             f"destination {leaf!r} (spelled {sp}; {mode})",
                                    "classes": [f"surroundings: the torrent's name {rel} the destination's last component",
                                                "destination spelled " + sp]})
    return out


def mode_of(c):
    return c.get("mode") or ("cli" if c["index"] % 7 == 3 else "api")


def run_shard(args):
    """runs its cases one after the other in one sandbox with one runner; returns list of result dicts"""
    shard, cases, tmp = args
    sb = Sandbox(os.path.join(tmp, f"sb{shard}"))
    r = rc.Runner(tmp)
    results = []
    try:
        for n, c in enumerate(cases):
            meta_dir = os.path.join(sb.root, "meta")
            for f in os.listdir(meta_dir):
                os.remove(os.path.join(meta_dir, f))
            mf = os.path.join(meta_dir, "m.torrent")
            with open(mf, "wb") as fd:
                fd.write(c["raw"])
            metas = [mf]
            if c.get("benign"):
                with open(os.path.join(meta_dir, c.get("benign_file") or "good.torrent"), "wb") as fd:
                    fd.write(c["benign"])
                metas = [meta_dir]
            leaf = c.get("dest_leaf") or "dest"
            dest, dest_arg, cwd, search = sb.job_paths(c)
            before = sb.outside(leaf)
            had = {k for k, v in rc.snapshot(dest).items() if v[0] == "f"}
            job = {"id": n, "mode": mode_of(c), "metafiles": metas,
                   "search": search, "dest": dest_arg, "cwd": cwd,
                   "order": "sorted", "sandbox": sb.root}
            rep = r.run(job)
            after = sb.outside(leaf)
            diff = rc.snap_diff(before, after)
            inside = sorted(k for k, v in rc.snapshot(dest).items() if v[0] == "f" and k not in had)
            results.append({"reply": rep, "diff": diff, "inside": inside, "outside_events": rc.outside_events(rep, dest)})
            if diff or results[-1]["outside_events"] or leaf != "dest":
                sb.build()
            else:
                sb.reset_dest()
    finally:
        r.close()
    return results


def e2e(ctx, model_ok):
    with core.Scratch("vc19_") as tmp:
        tmp = os.path.realpath(tmp)
        os.environ["HOME"] = tmp
        # '/abs' of the alphabet: an absolute path of an existing directory (with a victim file) inside the scratch
        # directory but outside every sandbox root, so the runner refuses (and reports) any mutation there
        absc = os.path.join(tmp, "abs_target")
        os.makedirs(absc)
        with open(os.path.join(absc, "a"), "wb") as fd:
            fd.write(b"victim")
        cases = gen_cases(ctx.tier, absc, ctx.rng)
        for i, c in enumerate(cases):
            c["index"] = i
        shards = [cases[i::WORKERS] for i in range(WORKERS)]
        abs_before = rc.snapshot(absc)
        with ThreadPoolExecutor(max_workers=WORKERS) as ex:
            allres = list(ex.map(run_shard, [(i, sh, tmp) for i, sh in enumerate(shards)]))
        abs_after = rc.snapshot(absc)
        results = {}
        for sh, rs in zip(shards, allres):
            for c, r in zip(sh, rs):
                results[c["index"]] = r
        d = rc.snap_diff(abs_before, abs_after)
        if d:
            ctx.fail("absolute-element-followed", {"absolute_element": "<sandbox>/abs_target"}, "nothing outside the destination changes", d[:6])
        # model expectations for the v1 cases: refusal <-> checked_target = None
        v1 = [c for c in cases if c["path"] is not None and not c.get("v2") and not c.get("benign")]
        model = {}
        if model_ok:
            dest_parts = [p for p in "/dest".split("/") if p]
            outs = modelrun.run("checked_target", [(rc.hexlist(dest_parts), rc.hx(c["name"]), rc.hexlist(c["path"])) for c in v1])
            if outs is None:
                ctx.broken.append("extracted model driver (checked_target) failed to run")
            else:
                model = {c["index"]: o for c, o in zip(v1, outs)}
        for c in cases:
            r = results[c["index"]]
            rep = r["reply"]
            inp = {"metafile": c["label"], "metafile_hex": c["raw"].hex() if len(c["raw"]) < 4000 else c["raw"][:300].hex() + "...",
                   "mode": mode_of(c), "destination_depth": DEPTH,
                   "candidates_in_search_dir": CANDIDATES}
            if c.get("dest_leaf") or c.get("dest_spelling") or c.get("search_leaf"):
                inp.update(destination=c.get("dest_leaf") or "dest", destination_spelled=c.get("dest_spelling") or "absolute",
                           directories_beside_the_destination=NEIGHBOURS,
                           search_directory=("<the directory beside the destination> " + c["search_leaf"]) if c.get("search_leaf") else "<sandbox>/search")
                inp["search_leaf"] = c.get("search_leaf")
            if c.get("benign"):       # a metafile directory: the benign metafile and its file name (m.torrent is the hostile one)
                inp.update(benign_hex=c["benign"].hex(), benign_file=c.get("benign_file") or "good.torrent")
            if rep.get("runner_died"):
                ctx.broken.append(f"no answer from the rebuild on {c['label']}: {rep.get('error')}")
                continue
            if r["diff"]:
                ctx.fail("outside-destination-changed", inp, "nothing is created, changed or deleted outside the destination",
                         {"differences": r["diff"][:8], "error": rep.get("error"), "counter": rep.get("counter")})
            if r["outside_events"]:
                ctx.fail("mutation-outside-destination", inp, "every filesystem mutation targets the destination",
                         {"events": r["outside_events"][:6], "error": rep.get("error")})
            refused = bool(rep.get("error"))
            elems = ([c["name"]] + c["path"]) if c["path"] is not None else []
            unsafe = c["path"] is None or any(comp_class(x) != "plain" for x in elems)
            cl = {f"in {('name' if c['kind'] in ('name', 'name-context') else 'v2 tree keys' if c.get('v2') else 'v1 path')}",
                  "refused" if refused else ("copied inside the destination" if r["inside"] else "nothing copied"),
                  "mode " + inp["mode"], "kind " + c["kind"]}
            if c["kind"] in ("v1-path", "deep", "batch"):
                cl.add(f"depth {min(c['depth'], 4)}{'+' if c['depth'] > 4 else ''}")
            for x in (elems if c["kind"] not in ("name", "name-context") else [c["name"]]):
                cl.add("component " + comp_class(x))
            cl.update(c.get("classes", ()))
            if c["path"] is None:
                cl.add("component not a string")
            if c["index"] in model:
                ctx.traces_validated += 1
                m_refuses = model[c["index"]] == "none"
                i_refuses = refused and rep["error"].startswith("ValueError")
                if m_refuses != i_refuses:
                    ctx.disagree("Model/PathSafe.v checked_target = None vs Metadata refusing the metafile with ValueError",
                                 {"name": c["name"], "path": c["path"]}, "refuses" if m_refuses else "accepts",
                                 f"error={rep.get('error')}")
                elif not m_refuses and c["path"] and c["path"][-1] in CANDIDATES and not c.get("second") and \
                        "File name too long" not in (rep.get("error") or ""):      # a 300-byte element: the file system's limit, not the tool's
                    want = "/".join(bytes.fromhex(h).decode() for h in model[c["index"]].split(",")[1:])
                    if want not in r["inside"]:
                        ctx.disagree("Model/PathSafe.v checked_target vs where the file was copied",
                                     {"name": c["name"], "path": c["path"]}, want, r["inside"])
            if c.get("benign") and not set(c.get("benign_inside") or ["good/a", "good/sub/x"]) <= set(r["inside"]):
                ctx.notes.append(f"batch with a hostile metafile: benign torrent not rebuilt ({r['inside']}, error {rep.get('error')})")
            ctx.case(key=("e2e", c["label"]), classes=sorted(cl), nontrivial=unsafe,
                     sample={"metafile": c["label"], "error": rep.get("error"), "inside_destination": r["inside"]}
                     if c["index"] in (1, 2) else None)
        ctx.exhaustive = True
        ctx.extra["v1_path_sequences"] = f"all sequences of 1..{3 if ctx.tier == 'quick' else 4} elements over {rc.HOSTILE}"
    return cases


def ties(ctx, model_ok):
    kmax = 3 if ctx.tier == "quick" else 4
    seqs = [list(s) for k in range(0, kmax + 1) for s in itertools.product(rc.HOSTILE, repeat=k)]
    comps = rc.HOSTILE + rc.EXTRA_COMPONENTS + ["../" * k + "a" for k in range(1, 13)] + ["/tmp/x/abs"]
    rc.check_parts_tie(ctx, model_ok, comps, seqs)
    if not model_ok:
        return
    # lexical resolution: os.path.join + normpath vs resolve, the starting directory treated as the root
    pool = seqs + [["D", "E"] + s for s in seqs[:600]] + [[c] for c in comps if "\x00" not in c] + \
        [["D", c, "x"] for c in comps if "\x00" not in c]
    outs = modelrun.run("resolve", [(rc.hexlist(s),) for s in pool])
    if outs is None:
        ctx.broken.append("extracted model driver (resolve) failed to run")
        return
    for s, o in zip(pool, outs):
        ctx.traces_validated += 1
        want = [p for p in os.path.normpath(os.path.join("/", *s)).split("/") if p]
        got = [] if o == "-" else [bytes.fromhex(h).decode("utf-8", "surrogateescape") for h in o.split(",")]
        if got != want:
            ctx.disagree("Model/PathSafe.v resolve vs os.path.normpath(os.path.join('/', ...))", {"elements": s}, got, want)
    ctx.case(key=("resolve", len(pool)), classes=["resolve tie"])


def run(ctx, model_ok):
    ties(ctx, model_ok)
    rc.extract_tie(ctx, model_ok)
    e2e(ctx, model_ok)


def replay(ctx, data):
    inp = data.get("input") or {}
    print(json.dumps({k: data.get(k) for k in ("kind", "expected", "observed")}, indent=1, ensure_ascii=False)[:3000])
    hexs = inp.get("metafile_hex", "")
    if not hexs or hexs.endswith("..."):
        print(json.dumps(data, indent=1)[:3000])
        return 0
    with core.Scratch("vc19r_") as tmp:
        tmp = os.path.realpath(tmp)
        os.environ["HOME"] = tmp
        c = {"raw": bytes.fromhex(hexs), "index": 3 if inp.get("mode") == "cli" else 0, "label": inp.get("metafile"),
             "mode": inp.get("mode"), "dest_leaf": inp.get("destination"), "dest_spelling": inp.get("destination_spelled"),
             "search_leaf": inp.get("search_leaf")}
        if inp.get("benign_hex"):
            c.update(benign=bytes.fromhex(inp["benign_hex"]), benign_file=inp.get("benign_file"))
        res = run_shard((0, [c], tmp))[0]
        print("metafile:", inp.get("metafile"))
        print("implementation:", res["reply"].get("impl"), "error:", res["reply"].get("error"))
        print("outside differences:", res["diff"], "events outside:", res["outside_events"])
        bad = bool(res["diff"] or res["outside_events"])
        print("verdict:", "property violated on this input" if bad else "holds on this input")
        return 1 if bad else 0
