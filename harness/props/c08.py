"""C08 -- the info-hash depends only on payload, piece length, version and the info options."""
import os
import sys
import json
import shutil
import subprocess

import core
import scale
import trees
from ref import oracle
from props import creators_common as cc
import interactive_route as ir

GEN_FILES = ["GenDeterminism.v"]
EXTRA_TARGETS = ["Extract/ExtractCreators.vo"]
AREAS = ["creators"]
RULE = ("model tie (unit correspondence of Model/Creators.v + Model/Bencode.v encode + Spec/PathSem.v): generated content trees (single "
        "file / flat / nested to depth 3 / a directory next to a sibling whose name sorts between it and its children / identical "
        "files / >= 2 multi-piece files / empty directories / names differing only in case / non-ASCII names; sizes from "
        "{0,1,B+-1,B,pl+-1,pl,2pl+-1,...}), every subset of the options announce, comment, private, source, url-list, httpseeds, "
        "one of 25 spellings of the payload path with its working directory, a patched clock, the enumeration order of every "
        "directory fixed by a runner-side patch of os.listdir/os.scandir and handed to the model as the order of its entry lists: "
        "the six creator variants of /repo write a metafile and the extracted Coq creators predict its bytes -- compared byte for "
        "byte; the PathSem functions are compared with posixpath/pathlib on generated strings (., .., //, trailing /, up to 6 "
        "components, non-ASCII).  End to end (independent of the model): for generated trees and each of six class creators and "
        "four CLI routes (v1, v1 --align, v2, hybrid) a base metafile and its metamorphic variants -- every permutation of each "
        "directory of <= 4 entries and random full permutations, 25 spellings from 6 working directories including `create .` from "
        "inside, a copy of the tree elsewhere, tracker/web-seed/http-seed lists, -o file / -o dir/ / default location, progress "
        "0/1/2 and -q, other clock values, a fresh interpreter via `python -m torrentfile` -- must have identical raw info spans "
        "(reference strict decoder) and be identical outside 'creation date' (and outside exactly the announce/seed keys when those "
        "were varied).  Aimed sequences: (a) the LAST announce / url_list / httpseeds entry is a string that names an EXISTING "
        "directory or file relative to the working directory (or an absolute existing path) while the payload is given explicitly -- "
        "through the six class creators with path= and with content=, the four CLI routes, and the interactive dialog "
        "(select_action, answers on a patched stdin) for the three versions: info must equal that of the same payload created "
        "without trackers from a directory where the strings name nothing; (b) the output file INSIDE the payload directory "
        "(`-o <payload>/x.torrent`, `-o <payload>/<sub>/x.torrent`, `cd <payload> && create -o x.torrent .`, the interactive output "
        "answer), each on a FRESH byte-identical copy of the tree, against a base written elsewhere; (c) automatic piece length "
        "across a threshold, and with the large file present as a symbolic link to a file outside the payload; (d) symbolic links, "
        "six class creators and four CLI routes: the payload spelled THROUGH a symlinked directory (absolute, relative, with .., "
        "trailing separator, link text relative and absolute, working directory entered through the link), the content path ITSELF a "
        "symlink to the payload directory / to the single file, and a copy of the tree one of whose entries is a symlink to the same "
        "bytes elsewhere (a file outside the payload, another file of it, a directory outside it) -- info must be byte-identical to "
        "that of the plain tree of regular files; (e) payloads AT SCALE (harness/scale.py: piece lengths 2 .. 16 MiB, thorough also 32 MiB, "
        "files of 1 .. 65 MiB whose sizes are aimed at 1 / 4 / 8 MiB read windows -- a last piece longer than 1 MiB, sizes that are multiples "
        "of 1 MiB but not of the piece length, more than 1 MiB of padding): progress 1 / 2 through the library argument and `--prog`, "
        "and -q, against progress 0, for routes of the v1 family (class v1 / v1-align, cli 1 / 1 --align) and of the v2 / hybrid family "
        "(quick: 5 of the shapes x 4 routes; thorough: every shape and 6 random ones x 7 routes); (f) automatic piece length x LOCATION: "
        "byte-identical copies of one tree (a sparse file plus small files in nested and empty directories; total of file bytes 1, 1500, "
        "10000, 60000 below and one byte above a step 1000 * 2^k of the automatic choice, k = 14, 15; thorough .. 17) in fresh directories "
        "of the scratch file system, in directories that once held 400 entries (their st_size stays large) and under /dev/shm when "
        "writable (tmpfs: a few dozen bytes per directory), no piece length given, four class creators and three CLI versions in "
        "rotation: every copy must give the metafile of the first; (g) STRING HASH SEED: the same create (a directory with mixed-case "
        "and decomposed names / a single file; 3 .. 5 distinct trackers, web seeds and http seeds, one list with a repeated entry) in "
        "fresh interpreters under PYTHONHASHSEED = 0, 1, 2, 12345 and random, command lines and class creators (quick: 9 route x "
        "payload pairs; thorough: 2 payloads x 10 routes x 3 option sets): every metafile must equal that of seed 0 outside the "
        "creation date, trackers and seeds included; the fresh-interpreter variants of the main search also run under a seed other than "
        "0.  Names of the generated trees include decomposed (NFD) Unicode, glob metacharacters and mixed-case siblings (flavour "
        "'names'; payloads named 'Album [FLAC]', 'pay*load?', a decomposed name).  Distinct = distinct (tree, creator, variant); non-trivial = the "
        "variant differs from the base input.")
TRUSTED_BASE = [
    "Coq 8.16.1 kernel; theorems closed under the global context; SHA-1 / SHA-256 are arbitrary functions in every theorem",
    "hand models Model/Creators.v (torrent.py creators, utils._filelist_total), Model/Bencode.v (pyben's encoder) and Spec/PathSem.v "
    "(posixpath.normpath/abspath/relpath/split/join/basename, pathlib str and child paths) tied by differential execution: extracted "
    "OCaml vs the real classes, byte for byte on the written file",
    "extraction: ExtrOcamlBasic, ExtrOcamlString; OCaml SHA-1/SHA-256 (ocaml/sha.ml, self-tested) for the correspondence only",
    "runner-side patches: os.listdir/os.scandir order (Path.iterdir of CPython 3.12 calls os.listdir), torrentfile.torrent.datetime, "
    "torrentfile.hasher.BLOCK_SIZE for cases marked patched_constant",
]
ASSUMPTIONS = ["POSIX path flavour; no special files, unreadable entries, dangling links or link loops in the content tree; symbolic links "
               "are covered by the aimed end-to-end sequence (d) only -- Model/Creators.v and Spec/PathSem.v are lexical and have no "
               "notion of a link, their correspondence runs on link-free trees and spellings",
               "file names are valid UTF-8 (a Python str is collapsed to its UTF-8 bytes; code-point order = byte order)",
               "the payload contains at least one file (Hasher([]) raises; excluded by every theorem)",
               "the payload does not change while it is hashed"]

T0 = 1700000000
TOP_VARIABLE = [b"announce", b"announce-list", b"url-list", b"httpseeds"]
ROUTES = [["class", k] for k in cc.KINDS] + [["cli", "1", False], ["cli", "1", True], ["cli", "2", False], ["cli", "3", False]]


def route_name(route):
    if route[0] == "class":
        return "class " + route[1]
    return "cli --meta-version " + route[1] + (" --align" if route[2] else "")


# ------------------------------------------------------------------------------------------------ decoding
def lenient(raw):
    """order-preserving decoder that accepts unsorted keys; returns (value with dicts as lists of pairs, span of top-level info)"""
    span = [None]

    def val(i, depth):
        c = raw[i:i + 1]
        if c == b"i":
            j = raw.index(b"e", i)
            return int(raw[i + 1:j]), j + 1
        if c == b"l":
            out, i = [], i + 1
            while raw[i:i + 1] != b"e":
                v, i = val(i, depth + 1)
                out.append(v)
            return out, i + 1
        if c == b"d":
            out, i = [], i + 1
            while raw[i:i + 1] != b"e":
                k, i = val(i, depth + 1)
                j = i
                v, i = val(i, depth + 1)
                if depth == 0 and k == b"info":
                    span[0] = (j, i)
                out.append((k, v))
            return ("d", out), i + 1
        j = raw.index(b":", i)
        n = int(raw[i:j])
        return raw[j + 1:j + 1 + n], j + 1 + n
    v, end = val(0, 0)
    if end != len(raw):
        raise ValueError("trailing bytes")
    return v, span[0]


def observe(raw):
    """(info span bytes, top-level dictionary as {key: canonical-or-raw encoding of the value})"""
    try:
        meta, span = oracle.bdecode_strict(raw, want_span=b"info")
        top = {k: oracle.bencode(v) for k, v in meta.items()}
    except Exception:  # noqa  canonical form is C06's subject: fall back to an order-preserving reading
        v, span = lenient(raw)
        if not (isinstance(v, tuple) and v[0] == "d"):
            raise ValueError("metafile is not a dictionary")
        top = {k: repr(x).encode() for k, x in v[1]}
    if span is None:
        raise ValueError("metafile has no info dictionary")
    return raw[span[0]:span[1]], top


def compare(base_raw, var_raw, strip):
    """problems of the variant relative to the base: [(kind suffix, expected, observed)]"""
    try:
        binfo, btop = observe(base_raw)
    except Exception as e:  # noqa
        return [("undecodable", "a bencoded metafile", f"base: {e}")]
    try:
        vinfo, vtop = observe(var_raw)
    except Exception as e:  # noqa
        return [("undecodable", "a bencoded metafile", f"variant: {e}")]
    out = []
    if binfo != vinfo:
        k = 0
        while k < min(len(binfo), len(vinfo)) and binfo[k] == vinfo[k]:
            k += 1
        out.append(("info-differs", repr(binfo[max(0, k - 70):k + 70]), repr(vinfo[max(0, k - 70):k + 70])))
    drop = {b"creation date"} | {s.encode() for s in strip}
    b2 = {k: v for k, v in btop.items() if k not in drop and k != b"info"}
    v2 = {k: v for k, v in vtop.items() if k not in drop and k != b"info"}
    if b2 != v2:
        keys = sorted(k for k in set(b2) | set(v2) if b2.get(k) != v2.get(k))
        out.append(("meta-differs", {k.decode("utf-8", "replace"): repr(b2.get(k))[:160] for k in keys},
                    {k.decode("utf-8", "replace"): repr(v2.get(k))[:160] for k in keys}))
    return out


# ------------------------------------------------------------------------------------------------ running one variant
def apply_order(node, order, rel=()):
    """node with each directory enumerated as order["/".join(rel)] says (names not listed keep their place at the end)"""
    if cc.is_file(node):
        return node
    es = [(n, apply_order(c, order, rel + (n,))) for n, c in node[1]]
    want = order.get("/".join(rel))
    if want is not None:
        rank = {n: i for i, n in enumerate(want)}
        es.sort(key=lambda e: rank.get(e[0], len(rank)))
    return cc.D(es)


def order_of(node):
    return {"/".join(rel): names for rel, names in cc.dirs_of(node)}


BASE_VARIANT = {"label": "base", "category": "base", "order": None, "location": "w", "spelling": "absolute", "top": {},
                "outfile": "file", "progress": 0, "quiet": False, "clock": T0, "subprocess": False}


def variant(label, category, **k):
    v = dict(BASE_VARIANT)
    v.update(k)
    v["label"], v["category"] = label, category
    return v


def run_variant(case_dir, case, route, v, tag):
    """create the metafile of one variant; returns its bytes.  case: dict(node, pl, payload, info_opts)"""
    node = case["node"] if not v["order"] else apply_order(case["node"], v["order"])
    loc_dir = case_dir if v["location"] == "w" else os.path.join(case_dir, "copy of it", "deep")
    sp = cc.spellings(loc_dir, case["payload"], node, None, want=[v["spelling"]])
    if not sp:
        raise RuntimeError(f"spelling {v['spelling']!r} does not apply to this tree")
    _, cwd, spelling = sp[0]
    absolute = os.path.join(loc_dir, "w", case["payload"])
    outdir = os.path.join(case_dir, "out", tag)
    os.makedirs(outdir, exist_ok=True)
    opts = dict(case["info_opts"])
    opts.update(v["top"])
    if v["outfile"] == "file":
        outfile, expect = os.path.join(outdir, "x.torrent"), os.path.join(outdir, "x.torrent")
    elif v["outfile"] == "dir/":
        outfile, expect = outdir + "/", os.path.join(outdir, case["payload"] + ".torrent")
    else:       # default location: <cwd>/<name>.torrent -- run from the output directory with an absolute content path
        outfile, expect, cwd, spelling = None, os.path.join(outdir, case["payload"] + ".torrent"), outdir, absolute
    if os.path.exists(expect):
        os.remove(expect)
    if v["subprocess"]:
        # a fresh interpreter: `python -m torrentfile create ...` for the command-line routes, a three-line script that constructs
        # the class and calls write() for the class routes; v["hashseed"] (when present) is the PYTHONHASHSEED of that
        # interpreter -- "0" ... or "random" -- instead of the fixed 0 of core.impl_env
        env = {"HOME": os.path.join(case_dir, "else")}
        if v.get("hashseed") is not None:
            env["PYTHONHASHSEED"] = str(v["hashseed"])
        if route[0] == "class":
            cls, kw = cc.CLASS_OF[route[1]]
            kw = dict(kw)
            kw.update(opts)
            kw.update(path=spelling, piece_length=case["pl"], progress=v["progress"], outfile=outfile)
            cmd = [core.PY, "-c", CLASS_RUNNER, json.dumps({"cls": cls, "kw": kw})]
        else:
            cmd = [core.PY, "-m", "torrentfile"] + cli_argv(route, spelling, case["pl"], outfile, opts, v)
        p = subprocess.run(cmd, cwd=cwd, env=core.impl_env(env), capture_output=True, text=True, timeout=120)
        if p.returncode != 0:
            raise RuntimeError(f"fresh interpreter ({route_name(route)}) exited {p.returncode}: {p.stderr[-300:]}")
    else:
        en = cc.EnumOrder(cc.mapping_of(absolute, node))
        with cc.patched(cwd=cwd, clock=v["clock"]), en:
            if route[0] == "class":
                from torrentfile import torrent
                cls, kw = cc.CLASS_OF[route[1]]
                kw = dict(kw)
                kw.update(opts)
                t = trees.quiet(getattr(torrent, cls), path=spelling, piece_length=case["pl"], progress=v["progress"],
                                outfile=outfile, **kw)
                trees.quiet(t.write)
            else:
                from torrentfile.cli import execute
                try:
                    trees.quiet(execute, cli_argv(route, spelling, case["pl"], outfile, opts, v))
                except SystemExit as e:
                    raise RuntimeError(f"the command line exited with {e.code}")
        if en.problems:
            raise RuntimeError("harness: enumeration patch: " + en.problems[0])
    with open(expect, "rb") as fd:
        return fd.read()


CLASS_RUNNER = r"""
import sys, json
spec = json.loads(sys.argv[1])
from torrentfile import torrent
t = getattr(torrent, spec["cls"])(**spec["kw"])
t.write()
"""


def cli_argv(route, spelling, pl, outfile, opts, v):
    argv = (["-q"] if v["quiet"] else []) + ["create", spelling, "--meta-version", route[1], "--piece-length", str(pl),
                                            "--prog", str(v["progress"])]
    if route[2]:
        argv.append("--align")
    if outfile:
        argv += ["-o", outfile]
    if opts.get("comment"):
        argv += ["--comment", opts["comment"]]
    if opts.get("source"):
        argv += ["--source", opts["source"]]
    if opts.get("private"):
        argv += ["--private"]
    if opts.get("announce"):
        argv += ["-a"] + ([opts["announce"]] if isinstance(opts["announce"], str) else list(opts["announce"]))
    if opts.get("url_list"):
        argv += ["--web-seed"] + list(opts["url_list"])
    if opts.get("httpseeds"):
        argv += ["--http-seed"] + list(opts["httpseeds"])
    return argv


def strip_of(v):
    return [k.decode() for k in TOP_VARIABLE] if v["category"] == "outer options" else []


def prepare(case_dir, case):
    cc.make_case_dir(case_dir, case["payload"], case["node"])
    cc.make_case_dir(os.path.join(case_dir, "copy of it", "deep"), case["payload"], case["node"])


def judge_pair(case_dir, case, route, base, var):
    """runs base and variant; returns list of (kind, expected, observed)"""
    try:
        b = run_variant(case_dir, case, route, base, "b")
    except Exception as e:  # noqa
        return [("base-raised", "a metafile", f"{type(e).__name__}: {e}")]
    try:
        r = run_variant(case_dir, case, route, var, "v")
    except Exception as e:  # noqa
        return [("create-raised", "a metafile, as for the base spelling", f"{type(e).__name__}: {e}")]
    return compare(b, r, strip_of(var))


# ------------------------------------------------------------------------------------------------ variants of one case
HASH_SEEDS = ["0", "1", "2", "12345", "random"]      # values of PYTHONHASHSEED for fresh interpreters
TOPS = [
    {"announce": ["http://t.example/announce"]},
    {"announce": ["http://t.example/a", "udp://u.example:6969/x", "http://v.example/"]},
    {"url_list": ["http://w.example/a", "http://w.example/b"]},
    {"httpseeds": ["http://h.example/s"]},
    {"announce": ["http://z.example/ann"], "url_list": ["http://w.example/é"], "httpseeds": ["http://h.example/s", "http://h2.example/"]},
]
INFO_OPTS = [{}, {"comment": "a comment"}, {"private": True}, {"source": "SRC"}, {"private": True, "source": "x y", "comment": "c é"},
             {"comment": "z", "source": "s"}]


def variants_of(ctx, case, route, thorough):
    rng = ctx.rng
    node = case["node"]
    single = cc.is_file(node)
    out = []
    # (1) enumeration order
    if not single:
        perms = cc.all_orders(node, 4, cap=200 if thorough else None)
        if not thorough and len(perms) > 4:
            perms = rng.sample(perms, 4)
        for t in perms:
            out.append(variant("one directory permuted" if not thorough else "permuted", "enumeration", order=order_of(t)))
        for _ in range(2 if not thorough else 4):
            t = cc.permuted(node, rng)
            if t != node:
                out.append(variant("random permutation of every directory", "enumeration", order=order_of(t)))
        rev = apply_order(cc.sorted_node(node), {})
        out.append(variant("ascending", "enumeration", order=order_of(rev)))
        out.append(variant("descending", "enumeration",
                           order={k: list(reversed(n)) for k, n in order_of(rev).items()}))
        out.append(variant("swapcase ascending", "enumeration",
                           order={k: sorted(n, key=str.swapcase) for k, n in order_of(rev).items()}))
    # (2) spellings and working directories
    labels = [l for l, _, _ in cc.spellings("/x", case["payload"], node, None) if l != "absolute"]
    if not thorough:
        must = [l for l in ("from inside: .", "trailing dot segment", "trailing separator") if l in labels]
        rest = [l for l in labels if l not in must]
        labels = must + rng.sample(rest, min(5, len(rest)))
    for l in labels:
        out.append(variant("spelling: " + l, "spelling", spelling=l))
    # (3) a copy elsewhere
    out.append(variant("copy elsewhere, absolute", "location", location="copy"))
    if not single:
        out.append(variant("copy elsewhere, from inside: .", "location", location="copy", spelling="from inside: ."))
    out.append(variant("copy elsewhere, relative", "location", location="copy", spelling="relative"))
    # (4) outer options, output location, progress, quiet
    tops = TOPS if thorough else rng.sample(TOPS, 2)
    for t in tops:
        out.append(variant("trackers/seeds " + ",".join(sorted(t)), "outer options", top=t))
    out.append(variant("-o dir/", "outfile", outfile="dir/"))
    out.append(variant("default output location", "outfile", outfile="cwd"))
    out.append(variant("progress 1", "progress", progress=1))
    out.append(variant("progress 2", "progress", progress=2))
    if route[0] == "cli":
        out.append(variant("--quiet", "progress", quiet=True))
        out.append(variant("--quiet, progress 2", "progress", quiet=True, progress=2))
    # (5) clock
    for ts in ([0, 2 ** 31 + 5] if not thorough else [0, 1, T0 + 1, 2 ** 31 + 5, 2 ** 40]):
        out.append(variant(f"clock {ts}", "clock", clock=ts))
    out.append(variant("the real clock", "clock", clock=None))
    # combinations
    if not single:
        out.append(variant("permuted, from inside, other trackers, later", "combined", order=order_of(cc.permuted(node, rng)),
                           spelling="from inside: .", top=TOPS[1], clock=T0 + 99, progress=2))
    out.append(variant("copy, relative, -o dir/, trackers", "combined", location="copy", spelling="relative", outfile="dir/",
                       top=TOPS[0], clock=5))
    if route[0] == "cli":
        sub = ["relative", "dot prefix"] + ([] if single else ["from inside: .", "trailing dot segment"])
        for l in (sub if thorough else rng.sample(sub, 1)):
            hs = rng.choice(HASH_SEEDS[1:])         # the base runs in this process (string hash seed 0)
            out.append(variant(f"fresh interpreter (PYTHONHASHSEED={hs}), spelling: " + l, "spelling", spelling=l, subprocess=True,
                               clock=None, hashseed=hs))
    for v in out:
        if v["category"] == "combined":
            v["category"] = "outer options"      # strip the tracker keys; everything else must agree
    return out


def gen_cases(ctx, n):
    rng = ctx.rng
    cases = []
    for i in range(n):
        flavour = cc.FLAVOURS[i % len(cc.FLAVOURS)]
        pl = rng.choice([16384, 16384, 32768])
        node = cc.gen_node(rng, pl, flavour, 70000 if ctx.tier == "quick" else 160000)
        cases.append({"node": node, "pl": pl, "payload": rng.choice(cc.PAYLOAD_NAMES), "info_opts": INFO_OPTS[i % len(INFO_OPTS)],
                      "index": i, "flavour": flavour})
    return cases


def case_input(case, route, base, var):
    return {"kind": "e2e", "tree": case["node"], "summary": cc.summary(case["node"]), "piece_length": case["pl"],
            "payload_name": case["payload"], "info_options": case["info_opts"], "route": route, "route_name": route_name(route),
            "base": base, "variant": var}


def shrink(tmp, case, route, base, var, kind, budget=40):
    """greedy: drop directory entries / cut file sizes while the same kind of failure persists"""
    n = [0]

    def still_fails(node):
        if n[0] >= budget or not cc.files_of(node):
            return False
        n[0] += 1
        c = dict(case)
        c["node"] = node
        d = os.path.join(tmp, f"shrink{n[0]}")
        try:
            prepare(d, c)
            return any(k == kind for k, _, _ in judge_pair(d, c, route, base, var))
        except Exception:  # noqa
            return False

    def candidates(node, rel=()):
        if cc.is_file(node):
            if node[1] > 3:
                yield cc.F(3, node[2])
            return
        for i, (name, c) in enumerate(node[1]):
            yield cc.D(node[1][:i] + node[1][i + 1:])
        for i, (name, c) in enumerate(node[1]):
            for c2 in candidates(c, rel + (name,)):
                yield cc.D(node[1][:i] + [[name, c2]] + node[1][i + 1:])
    node = case["node"]
    progress = True
    while progress and n[0] < budget:
        progress = False
        for cand in candidates(node):
            if cc.is_file(cand) != cc.is_file(node):
                continue
            if still_fails(cand):
                node, progress = cand, True
                break
    c = dict(case)
    c["node"] = node
    return c


def e2e(ctx):
    thorough = ctx.tier == "thorough"
    cases = gen_cases(ctx, 36 if not thorough else 190)
    reported = set()
    with core.Scratch("vc08e_") as tmp:
        tmp = os.path.realpath(tmp)
        os.environ["HOME"] = os.path.join(tmp, "home")
        os.makedirs(os.environ["HOME"], exist_ok=True)
        for case in cases:
            i = case["index"]
            case_dir = os.path.join(tmp, f"e{i}")
            prepare(case_dir, case)
            base_cl = cc.classify(case["node"], case["pl"])
            routes = ROUTES if thorough else [ROUTES[(i + k) % 6] for k in (0, 3)] + [ROUTES[6 + (i + k) % 4] for k in (0, 2)]
            for route in routes:
                base = dict(BASE_VARIANT)
                try:
                    braw = run_variant(case_dir, case, route, base, "base")
                    observe(braw)
                except Exception as e:  # noqa
                    ctx.fail("base-create-raised", case_input(case, route, base, base), "a metafile", f"{type(e).__name__}: {e}")
                    continue
                for vi, var in enumerate(variants_of(ctx, case, route, thorough)):
                    try:
                        raw = run_variant(case_dir, case, route, var, "var")
                        problems = compare(braw, raw, strip_of(var))
                    except Exception as e:  # noqa
                        problems = [("create-raised", "a metafile, as for the base", f"{type(e).__name__}: {str(e)[:300]}")]
                    cat = var["category"]
                    ctx.case(key=("e2e", i, route_name(route), json.dumps(var, sort_keys=True, default=str)),
                             classes=sorted(base_cl) + ["variant: " + cat, route_name(route)], nontrivial=True,
                             sample=case_input(case, route, base, var) if (i, vi) == (1, 3) else None)
                    for kind, exp, obs in problems:
                        full = f"{kind}:{cat}"
                        c2 = case
                        if full not in reported and len(reported) < 6:
                            reported.add(full)
                            small = shrink(tmp, case, route, base, var, kind)
                            if small["node"] != case["node"]:
                                d = os.path.join(tmp, f"final{len(reported)}")
                                prepare(d, small)
                                again = [p for p in judge_pair(d, small, route, base, var) if p[0] == kind]
                                if again:
                                    c2, (_, exp, obs) = small, again[0]
                        ctx.fail(full, case_input(c2, route, base, var), exp, obs,
                                 detail=f"{route_name(route)}; variant {var['label']}")


# ------------------------------------------------------------------------------------------------ aimed: string hash seed
# "Two runs on equal input produce files that differ only in the creation date."  Two runs are two PROCESSES, and the one input of
# a process that no argument controls is the seed of its string hashes (PYTHONHASHSEED; random unless set): the iteration order
# of every set of strings -- tracker URLs de-duplicated through a set, names collected in a set -- follows it.  core.impl_env
# pins the seed to 0 for every other fresh interpreter of the harness, so this sequence is the one place where it varies: the
# SAME create (same tree, same options, three or more distinct trackers / web seeds / http seeds, one list with a repeated
# entry) runs in fresh interpreters under PYTHONHASHSEED = 0, 1, 2, 12345 and random; every metafile must equal the first outside
# the creation date -- trackers and seeds included, nothing is stripped.
SEED_TOPS = [
    {"announce": ["http://t1.example/announce", "udp://t2.example:6969/x", "http://t3.example/a", "https://t4.example/é",
                  "http://t5.example/announce"],
     "url_list": ["http://w1.example/a", "http://w2.example/b", "http://w3.example/c d", "ftp://w4.example/"],
     "httpseeds": ["http://h1.example/s", "http://h2.example/s", "http://h3.example/s"]},
    {"announce": ["http://t1.example/announce", "http://t2.example/a", "http://t1.example/announce", "udp://t3.example:1/", "http://t4.example/"],
     "url_list": ["http://w1.example/a", "http://w1.example/a", "http://w2.example/b", "http://w3.example/c"]},
    {"announce": ["http://a.example/1", "http://b.example/2", "http://c.example/3"],
     "httpseeds": ["http://h3.example/s", "http://h1.example/s", "http://h2.example/s", "http://h0.example/s"]},
]
SEED_NODES = [
    cc.D([[n, cc.F(sz, f"c08-seed-{k}")] for k, (n, sz) in enumerate(
        [("b.bin", 20000), ("a.bin", 3), ("README.txt", 0), ("data.bin", 16385), ("e\u0301", 7), ("f", 1), ("z", 40000)])] +
         [["sub", cc.D([["y", cc.F(5, "c08-seed-y")], ["x", cc.F(33000, "c08-seed-x")], ["A\u030a", cc.F(2, "c08-seed-A")],
                        ["B", cc.F(9, "c08-seed-B")]])]]),
    cc.F(50001, "c08-seed-single"),
]


def hash_seed_cases(ctx):
    """[(case, route, top)]: quick -- the directory through the four command lines and three class routes, the single file through
       one of each, the option sets in rotation; thorough -- both payloads x every route x every option set"""
    cases = [{"node": n, "pl": 16384, "payload": ["pay load", "single.bin"][k], "info_opts": INFO_OPTS[4 - 3 * k], "index": f"seed{k}",
              "flavour": "hash seed"} for k, n in enumerate(SEED_NODES)]
    if ctx.tier == "thorough":
        return [(c, r, t) for c in cases for r in ROUTES for t in SEED_TOPS]
    k = ctx.rng.randrange(6)
    cls = [ROUTES[(k + 2 * j) % 6] for j in range(3)]
    out = [(cases[0], r, SEED_TOPS[(k + j) % 3]) for j, r in enumerate(ROUTES[6:] + cls)]
    out += [(cases[1], ROUTES[6 + k % 4], SEED_TOPS[k % 3]), (cases[1], ROUTES[(k + 1) % 6], SEED_TOPS[(k + 1) % 3])]
    return out


def hash_seeds(ctx):
    from concurrent.futures import ThreadPoolExecutor
    jobs = hash_seed_cases(ctx)
    with core.Scratch("vc08h_") as tmp:
        tmp = os.path.realpath(tmp)
        dirs = {}
        for case, _, _ in jobs:
            if case["index"] not in dirs:
                dirs[case["index"]] = os.path.join(tmp, case["index"])
                prepare(dirs[case["index"]], case)

        def one(job):
            n, (case, route, top) = job
            raws = []
            for hs in HASH_SEEDS:
                v = variant(f"fresh interpreter, PYTHONHASHSEED={hs}", "hash seed", subprocess=True, clock=None, hashseed=hs, top=top,
                            spelling="relative")
                try:
                    raws.append((v, run_variant(dirs[case["index"]], case, route, v, f"h{n}-{hs}")))
                except Exception as e:  # noqa
                    raws.append((v, e))
            return raws
        with ThreadPoolExecutor(max_workers=8) as ex:          # fresh interpreters only: nothing of this process is shared
            results = list(ex.map(one, enumerate(jobs)))
        for (case, route, top), raws in zip(jobs, results):
            base, braw = raws[0]
            base_cl = cc.classify(case["node"], case["pl"])
            if isinstance(braw, Exception):
                ctx.fail("base-create-raised", case_input(case, route, base, base), "a metafile", f"{type(braw).__name__}: {braw}")
                continue
            for var, raw in raws[1:]:
                if isinstance(raw, Exception):
                    problems = [("create-raised", "a metafile, as under PYTHONHASHSEED=0", f"{type(raw).__name__}: {str(raw)[:300]}")]
                else:
                    problems = compare(braw, raw, ())
                ctx.case(key=("hash-seed", case["index"], route_name(route), json.dumps(top, sort_keys=True), var["hashseed"]),
                         classes=sorted(base_cl) + ["variant: hash seed", "variant: hash seed " + var["hashseed"], route_name(route)],
                         nontrivial=True)
                for kind, exp, obs in problems:
                    ctx.fail(f"{kind}:hash seed", case_input(case, route, base, var), exp, obs,
                             detail=f"{route_name(route)}; two runs on equal input, PYTHONHASHSEED=0 and {var['hashseed']}")


# ------------------------------------------------------------------------------------------------ aimed: paths in disguise
AIMED_NODE = cc.D([["a.bin", cc.F(70000, "c08-aimed-a")], ["sub", cc.D([["b.bin", cc.F(40000, "c08-aimed-b")], ["e", cc.F(0, "z")]])]])
DECOY_NODE = cc.D([["a.bin", cc.F(50000, "c08-decoy-a")], ["other.bin", cc.F(33000, "c08-decoy-o")]])
URL = "http://tracker.example/announce"
# (label, outer options); MIRROR / NOTE / ABSMIRROR / PAYLOAD are replaced by strings that name existing entries
STOLEN_VARIANTS = [
    ("announce ends with the name of a sibling DIRECTORY of the cwd", {"announce": [URL, "MIRROR"]}),
    ("announce ends with the name of a FILE of the cwd", {"announce": [URL, "udp://u.example:1/x", "NOTE"]}),
    ("url_list ends with the name of a directory of the cwd", {"url_list": ["http://seed.example/p", "MIRROR"]}),
    ("url_list is only the name of a directory of the cwd", {"url_list": ["MIRROR"]}),
    ("httpseeds ends with the name of a directory of the cwd", {"httpseeds": ["http://h.example/s", "MIRROR"]}),
    ("httpseeds ends with an ABSOLUTE existing path", {"httpseeds": ["http://h.example/s", "ABSMIRROR"]}),
    ("announce ends with an absolute existing path, seeds with relative ones",
     {"announce": [URL, "ABSMIRROR"], "url_list": ["./MIRROR"], "httpseeds": ["NOTE"]}),
    ("announce ends with the relative spelling of the payload itself", {"announce": [URL, "PAYLOAD"]}),
]
STOLEN_ROUTES = [["class", k, kw] for k in cc.KINDS for kw in ("path", "content")] + \
                [["cli", "1", False], ["cli", "1", True], ["cli", "2", False], ["cli", "3", False]] + \
                [["interactive", v] for v in ("1", "2", "3")]


def stolen_route_name(route):
    if route[0] == "class":
        return f"class {route[1]} with {route[2]}="
    if route[0] == "interactive":
        return "interactive dialog, meta version " + route[1]
    return route_name(route)


def stolen_layout(tmp):
    """work/{payload, mirror, note.txt} and an empty directory `other`"""
    work, other = os.path.join(tmp, "work"), os.path.join(tmp, "other")
    if not os.path.exists(work):
        cc.write_node(os.path.join(work, "payload"), AIMED_NODE)
        cc.write_node(os.path.join(work, "mirror"), DECOY_NODE)
        with open(os.path.join(work, "note.txt"), "wb") as fd:
            fd.write(b"not a payload " * 3000)
        os.makedirs(os.path.join(other, "home"), exist_ok=True)
        os.makedirs(os.path.join(tmp, "out"), exist_ok=True)
    return work, other


def stolen_create(tmp, route, cwd, top, tag, pl=16384):
    """one metafile of work/payload (always named explicitly, absolute) with the outer options `top`, run from cwd"""
    work, other = stolen_layout(tmp)
    payload = os.path.join(work, "payload")
    out = os.path.join(tmp, "out", tag + ".torrent")
    if os.path.exists(out):
        os.remove(out)
    with cc.patched(cwd=cwd, clock=T0):
        if route[0] == "class":
            from torrentfile import torrent
            cls, kw = cc.CLASS_OF[route[1]]
            kw = dict(kw)
            kw.update(top)
            kw[route[2]] = payload
            t = trees.quiet(getattr(torrent, cls), piece_length=pl, progress=0, outfile=out, **kw)
            trees.quiet(t.write)
        elif route[0] == "cli":
            from torrentfile.cli import execute
            try:
                trees.quiet(execute, cli_argv(route, payload, pl, out, top, BASE_VARIANT))
            except SystemExit as e:
                raise RuntimeError(f"the command line exited with {e.code}")
        else:
            ans = ir.create_answers(payload, out, route[1], "14", top.get("announce", ()), top.get("url_list", ()),
                                    top.get("httpseeds", ()))
            r = ir.run_interactive_full(ans, cwd, os.path.join(other, "home"), in_process=True)
            if r["rc"]:
                raise RuntimeError(f"the interactive dialog raised {r['exception']}: {r['raised']}")
    return oracle.read(out)


def stolen_fill(top, work):
    sub = {"MIRROR": "mirror", "./MIRROR": "./mirror", "NOTE": "note.txt", "ABSMIRROR": os.path.join(work, "mirror"), "PAYLOAD": "payload"}
    return {k: [sub.get(x, x) for x in v] for k, v in top.items()}


def stolen_judge(tmp, route, top):
    """problems of (payload named explicitly, outer options naming existing entries, cwd = work) against the base"""
    work, other = stolen_layout(tmp)
    try:
        base = stolen_create(tmp, route, other, {}, "base")
        observe(base)
    except Exception as e:  # noqa
        return [("base-raised", "a metafile", f"{type(e).__name__}: {e}")]
    try:
        raw = stolen_create(tmp, route, work, stolen_fill(top, work), "var")
    except Exception as e:  # noqa
        return [("create-raised", "a metafile, as without trackers", f"{type(e).__name__}: {str(e)[:300]}")]
    return compare(base, raw, [k.decode() for k in TOP_VARIABLE])


def stolen_paths(ctx):
    """
    aimed: the payload is named explicitly; a tracker / web-seed / http-seed list whose LAST entry is spelled like an existing
    entry of the working directory must stay a tracker list -- info (name, files, pieces) is that of the named payload.
    """
    core.use_repo_in_process()
    thorough = ctx.tier == "thorough"
    with core.Scratch("vc08s_") as tmp:
        tmp = os.path.realpath(tmp)
        os.environ["HOME"] = os.path.join(tmp, "other", "home")
        k = ctx.rng.randrange(len(STOLEN_VARIANTS))
        for ri, route in enumerate(STOLEN_ROUTES):
            variants = STOLEN_VARIANTS if thorough or route[0] != "cli" else \
                [STOLEN_VARIANTS[(k + ri + j) % len(STOLEN_VARIANTS)] for j in range(3)]
            for label, top in variants:
                problems = stolen_judge(tmp, route, top)
                ctx.case(key=("stolen", json.dumps(route), label), nontrivial=True,
                         classes=["variant: tracker/seed entry names an existing path", stolen_route_name(route)])
                for kind, exp, obs in problems:
                    ctx.fail(f"{kind}:tracker or seed entry names an existing path",
                             {"kind": "stolen-path", "route": route, "route_name": stolen_route_name(route), "variant": label,
                              "options": top, "layout": {"cwd": "work", "work/payload": cc.summary(AIMED_NODE),
                                                         "work/mirror": cc.summary(DECOY_NODE), "work/note.txt": 42000},
                              "payload": "work/payload (absolute)", "base": "no trackers, cwd = an empty directory"}, exp, obs,
                             detail=f"{stolen_route_name(route)}; {label}")


# ------------------------------------------------------------------------------------------------ aimed: outfile inside the payload
INSIDE_ROUTES = [["cli", "1", False], ["cli", "1", True], ["cli", "2", False], ["cli", "3", False]] + \
                [["interactive", v] for v in ("1", "2", "3")]
INSIDE_VARIANTS = ["-o <payload>/x.torrent", "-o <payload>/sub/x.torrent", "cd <payload> && create -o x.torrent .",
                   "cd <payload> && create -o ./sub/x.torrent ."]


def inside_create(tmp, route, variant, tag, pl=16384):
    """one metafile of a FRESH copy of the tree at <tmp>/<tag>/payload; variant None = base, outfile elsewhere"""
    root = os.path.join(tmp, tag)
    payload = os.path.join(root, "payload")
    cc.write_node(payload, AIMED_NODE)
    os.makedirs(os.path.join(root, "elsewhere", "home"))
    cwd, spelling = os.path.join(root, "elsewhere"), payload
    if variant is None:
        outfile = expect = os.path.join(root, "elsewhere", "x.torrent")
    elif variant == "-o <payload>/x.torrent":
        outfile = expect = os.path.join(payload, "x.torrent")
    elif variant == "-o <payload>/sub/x.torrent":
        outfile = expect = os.path.join(payload, "sub", "x.torrent")
    elif variant == "cd <payload> && create -o x.torrent .":
        cwd, spelling, outfile, expect = payload, ".", "x.torrent", os.path.join(payload, "x.torrent")
    else:
        cwd, spelling, outfile, expect = payload, ".", "./sub/x.torrent", os.path.join(payload, "sub", "x.torrent")
    with cc.patched(cwd=cwd, clock=T0):
        if route[0] == "cli":
            from torrentfile.cli import execute
            try:
                trees.quiet(execute, cli_argv(route, spelling, pl, outfile, {}, BASE_VARIANT))
            except SystemExit as e:
                raise RuntimeError(f"the command line exited with {e.code}")
        else:
            if os.path.dirname(outfile) == "":
                outfile = "./" + outfile          # the dialog insists on a directory component
            r = ir.run_interactive_full(ir.create_answers(spelling, outfile, route[1], "14"), cwd,
                                        os.path.join(root, "elsewhere", "home"), in_process=True)
            if r["rc"]:
                raise RuntimeError(f"the interactive dialog raised {r['exception']}: {r['raised']}")
    return oracle.read(expect)


def inside_judge(tmp, route, variant, n):
    try:
        base = inside_create(tmp, route, None, f"b{n}")
        observe(base)
    except Exception as e:  # noqa
        return [("base-raised", "a metafile", f"{type(e).__name__}: {e}")]
    try:
        raw = inside_create(tmp, route, variant, f"v{n}")
    except Exception as e:  # noqa
        return [("create-raised", "a metafile, as with the output elsewhere", f"{type(e).__name__}: {str(e)[:300]}")]
    return compare(base, raw, ())


def outfile_inside_payload(ctx):
    """
    aimed: the metafile is saved INSIDE the payload directory of a pristine tree.  Nothing of the output (the writability probe,
    a temporary, the metafile itself) may be hashed as payload: info equals that of a byte-identical copy whose metafile is
    written elsewhere.  Every create runs on its own fresh copy (a second run would rightly see the first run's metafile).
    """
    core.use_repo_in_process()
    with core.Scratch("vc08o_") as tmp:
        tmp = os.path.realpath(tmp)
        n = 0
        for route in INSIDE_ROUTES:
            for variant in INSIDE_VARIANTS:
                n += 1
                os.environ["HOME"] = tmp
                problems = inside_judge(tmp, route, variant, n)
                ctx.case(key=("outfile-inside", json.dumps(route), variant), nontrivial=True,
                         classes=["variant: outfile inside the payload directory", stolen_route_name(route)])
                for kind, exp, obs in problems:
                    ctx.fail(f"{kind}:outfile inside the payload directory",
                             {"kind": "outfile-inside", "route": route, "route_name": stolen_route_name(route), "variant": variant,
                              "payload": cc.summary(AIMED_NODE), "tree": "a fresh copy for every create",
                              "base": "-o <elsewhere>/x.torrent <payload> on another fresh copy"}, exp, obs,
                             detail=f"{stolen_route_name(route)}; {variant}")


# ------------------------------------------------------------------------------------------------ aimed: symbolic links
# The creators follow symbolic links (getsize / open / isfile / isdir / listdir) and derive names and paths LEXICALLY from the
# path as spelled (abspath / relpath / basename do not resolve links).  So a link is not an input of the info dictionary: a
# payload reached THROUGH a symlinked directory, a content path that IS a symlink to the payload, and a payload one of whose
# entries is a symlink to the same bytes stored elsewhere all have the relative names, lengths and bytes of the plain tree --
# info must be byte-identical to that of the plain tree (same basename, same piece length, same options).
LINK_NODE = cc.D([["a.bin", cc.F(70000, "c08-link-a")],
                  ["sub", cc.D([["b.bin", cc.F(40000, "c08-link-b")], ["copy of a.bin", cc.F(70000, "c08-link-a")], ["e", cc.F(0, "z")]])]])
LINK_SINGLE = cc.F(50001, "c08-link-single")
LINK_LAYOUT = {
    "base/real/payload": "the plain tree (regular files only); base/real/single.bin a regular file",
    "base/link": "symlink -> real", "base/abslink": "symlink -> <scratch>/base/real",
    "viaroot/payload": "symlink -> ../base/real/payload", "viaroot/single.bin": "symlink -> ../base/real/single.bin",
    "viaroot2/payload": "symlink -> <scratch>/base/real/payload", "viaroot2/single.bin": "symlink -> <scratch>/base/real/single.bin",
    "store/": "b.bin, a.bin and sub/ with the bytes of the tree, outside every payload",
    "outer/payload": "copy of the tree with sub/b.bin a symlink -> ../../../store/b.bin",
    "outer-abs/payload": "copy of the tree with a.bin a symlink -> <scratch>/store/a.bin",
    "inner/payload": "copy of the tree with 'sub/copy of a.bin' a symlink -> ../a.bin",
    "outerdir/payload": "copy of the tree with sub a symlink -> ../../store/sub (a directory with the same entries)",
}
# (label, payload: dir | file, working directory relative to the scratch directory, content path as spelled; {T} = the scratch directory)
LINK_VARIANTS = [
    ("through a symlinked directory, absolute", "dir", ".", "{T}/base/link/payload"),
    ("through a symlinked directory, relative", "dir", "base", "link/payload"),
    ("through a symlinked directory whose link text is absolute", "dir", ".", "{T}/base/abslink/payload"),
    ("through a symlinked directory, relative with ..", "dir", "base/real", "../link/payload"),
    ("through a symlinked directory, trailing separator", "dir", "base", "link/payload/"),
    ("working directory entered through the symlinked directory, .", "dir", "base/link/payload", "."),
    ("the content path is a symlink to the payload directory, absolute", "dir", ".", "{T}/viaroot/payload"),
    ("the content path is a symlink to the payload directory, relative", "dir", "viaroot", "payload"),
    ("the content path is a symlink (absolute link text) to the payload directory", "dir", "viaroot2", "./payload"),
    ("a file of the payload is a symlink to a file outside it", "dir", ".", "{T}/outer/payload"),
    ("a file of the payload is a symlink (absolute link text) to a file outside it", "dir", "outer-abs", "payload"),
    ("a file of the payload is a symlink to another file of it", "dir", ".", "{T}/inner/payload"),
    ("a directory of the payload is a symlink to a directory outside it", "dir", ".", "{T}/outerdir/payload"),
    ("single file through a symlinked directory, absolute", "file", ".", "{T}/base/link/single.bin"),
    ("single file through a symlinked directory, relative", "file", "base", "link/single.bin"),
    ("the content path is a symlink to the single file, absolute", "file", ".", "{T}/viaroot/single.bin"),
    ("the content path is a symlink to the single file, relative", "file", "viaroot", "single.bin"),
    ("the content path is a symlink (absolute link text) to the single file", "file", ".", "{T}/viaroot2/single.bin"),
]
LINK_BASE = {"dir": (".", "{T}/base/real/payload"), "file": (".", "{T}/base/real/single.bin")}


def link_layout(tmp):
    base, store = os.path.join(tmp, "base"), os.path.join(tmp, "store")
    if os.path.exists(base):
        return
    real = os.path.join(base, "real")
    cc.write_node(os.path.join(real, "payload"), LINK_NODE)
    cc.write_node(os.path.join(real, "single.bin"), LINK_SINGLE)
    os.symlink("real", os.path.join(base, "link"), target_is_directory=True)
    os.symlink(real, os.path.join(base, "abslink"), target_is_directory=True)
    for d, prefix in (("viaroot", "../base/real"), ("viaroot2", real)):
        os.makedirs(os.path.join(tmp, d))
        os.symlink(prefix + "/payload", os.path.join(tmp, d, "payload"), target_is_directory=True)
        os.symlink(prefix + "/single.bin", os.path.join(tmp, d, "single.bin"))
    sub = dict((n, c) for n, c in LINK_NODE[1])["sub"]
    cc.write_node(os.path.join(store, "sub"), sub)
    cc.write_node(os.path.join(store, "b.bin"), cc.F(40000, "c08-link-b"))
    cc.write_node(os.path.join(store, "a.bin"), cc.F(70000, "c08-link-a"))
    for d, rel, text in (("outer", "sub/b.bin", "../../../store/b.bin"), ("outer-abs", "a.bin", os.path.join(store, "a.bin")),
                         ("inner", "sub/copy of a.bin", "../a.bin"), ("outerdir", "sub", "../../store/sub")):
        payload = os.path.join(tmp, d, "payload")
        cc.write_node(payload, LINK_NODE)
        p = os.path.join(payload, rel)
        if os.path.isdir(p):
            shutil.rmtree(p)
        else:
            os.remove(p)
        os.symlink(text, p)
    os.makedirs(os.path.join(tmp, "out"))
    os.makedirs(os.path.join(tmp, "home"))


def link_create(tmp, route, cwd_rel, spelling, tag, pl=16384):
    link_layout(tmp)
    out = os.path.join(tmp, "out", tag + ".torrent")
    if os.path.exists(out):
        os.remove(out)
    spelling = spelling.replace("{T}", tmp)
    with cc.patched(cwd=os.path.normpath(os.path.join(tmp, cwd_rel)), clock=T0):
        if route[0] == "class":
            from torrentfile import torrent
            cls, kw = cc.CLASS_OF[route[1]]
            t = trees.quiet(getattr(torrent, cls), path=spelling, piece_length=pl, progress=0, outfile=out, **dict(kw))
            trees.quiet(t.write)
        else:
            from torrentfile.cli import execute
            try:
                trees.quiet(execute, cli_argv(route, spelling, pl, out, {}, BASE_VARIANT))
            except SystemExit as e:
                raise RuntimeError(f"the command line exited with {e.code}")
    return oracle.read(out)


def link_judge(tmp, route, label, bases=None):
    """bases: metafiles of the plain tree already written by this route (the plain tree does not change)"""
    _, what, cwd_rel, spelling = next(v for v in LINK_VARIANTS if v[0] == label)
    bases = {} if bases is None else bases
    try:
        if (json.dumps(route), what) not in bases:
            bases[(json.dumps(route), what)] = link_create(tmp, route, *LINK_BASE[what], "base-" + what)
        base = bases[(json.dumps(route), what)]
        observe(base)
    except Exception as e:  # noqa
        return [("base-raised", "a metafile", f"{type(e).__name__}: {e}")]
    try:
        raw = link_create(tmp, route, cwd_rel, spelling, "var")
    except Exception as e:  # noqa
        return [("create-raised", "a metafile, as for the plain tree", f"{type(e).__name__}: {str(e)[:300]}")]
    return compare(base, raw, ())


def link_input(route, label):
    _, what, cwd_rel, spelling = next(v for v in LINK_VARIANTS if v[0] == label)
    return {"kind": "symlink", "route": route, "route_name": route_name(route), "variant": label, "piece_length": 16384,
            "working_directory": "<scratch>/" + cwd_rel, "content_path": spelling.replace("{T}", "<scratch>"),
            "base": {"working_directory": "<scratch>", "content_path": LINK_BASE[what][1].replace("{T}", "<scratch>")},
            "layout": LINK_LAYOUT, "payload": cc.summary(LINK_NODE if what == "dir" else LINK_SINGLE)}


def symlinks(ctx):
    """
    aimed: the payload is reached through a symlinked directory (absolute / relative spellings), the content path itself is a
    symlink to the payload directory / to the single file, or an entry of the payload is a symlink to the same bytes stored
    elsewhere (a file outside the payload, another file of it, a directory outside it): info must be that of the plain tree.
    """
    core.use_repo_in_process()
    with core.Scratch("vc08l_") as tmp:
        tmp = os.path.realpath(tmp)
        os.environ["HOME"] = os.path.join(tmp, "home")
        bases = {}
        for route in ROUTES:
            for label, what, _, _ in LINK_VARIANTS:
                problems = link_judge(tmp, route, label, bases)
                ctx.case(key=("symlink", json.dumps(route), label), nontrivial=True,
                         classes=["variant: symbolic link", "symbolic link: " + label.split(",")[0], route_name(route)])
                for kind, exp, obs in problems:
                    ctx.fail(f"{kind}:symbolic link", link_input(route, label), exp, obs, detail=f"{route_name(route)}; {label}")


def auto_piece_length(ctx):
    """
    aimed sequence: no piece length given.  The automatically chosen piece length (part of info) must be a function of the payload
    alone: the same relative path string seen earlier in the process for a SMALLER payload (another working directory), and a
    payload that GREW across a piece-length threshold (1000 x 16 KiB) since an earlier create, must give the same info as a
    byte-identical copy created through an absolute path.
    """
    core.use_repo_in_process()
    from torrentfile import torrent
    big = 1000 * 16384 + 4096            # just above the first threshold: 32 KiB pieces
    with core.Scratch("vc08a_") as tmp:
        tmp = os.path.realpath(tmp)

        def mk(d, size):
            os.makedirs(os.path.join(d, "data"))
            with open(os.path.join(d, "data", "f"), "wb") as fd:
                fd.write(b"x" * 10)
            with open(os.path.join(d, "data", "sparse.img"), "wb") as fd:
                fd.truncate(size)          # a hole: nothing large is written
        mk(os.path.join(tmp, "A"), 1000)
        mk(os.path.join(tmp, "B"), big)
        mk(os.path.join(tmp, "C"), big)
        # the same payload with the large file present as a symbolic link to a file stored outside the payload
        mk(os.path.join(tmp, "L"), 1)
        os.makedirs(os.path.join(tmp, "store"))
        os.rename(os.path.join(tmp, "L", "data", "sparse.img"), os.path.join(tmp, "store", "sparse.img"))
        os.truncate(os.path.join(tmp, "store", "sparse.img"), big)
        os.symlink("../../store/sparse.img", os.path.join(tmp, "L", "data", "sparse.img"))
        for cls in ("TorrentFile", "TorrentFileV2", "TorrentFileHybrid", "TorrentAssembler"):
            def create(cwd, spelling, out, cls=cls):
                with cc.patched(cwd=cwd, clock=1):
                    kw = {"meta_version": "3"} if cls == "TorrentAssembler" else {}
                    t = trees.quiet(getattr(torrent, cls), path=spelling, progress=0, **kw)
                    o, _ = trees.quiet(t.write, out)
                    return oracle.read(o)
            try:
                create(os.path.join(tmp, "A"), "data", os.path.join(tmp, "a.torrent"))
                rel = create(os.path.join(tmp, "B"), "data", os.path.join(tmp, "b.torrent"))
                ref = create(tmp, os.path.join(tmp, "C", "data"), os.path.join(tmp, "c.torrent"))
                # the tree at A grows across the threshold, then is created again through the very same path string
                os.truncate(os.path.join(tmp, "A", "data", "sparse.img"), big)
                grown = create(os.path.join(tmp, "A"), "data", os.path.join(tmp, "a2.torrent"))
                linked = create(tmp, os.path.join(tmp, "L", "data"), os.path.join(tmp, "l.torrent"))
            except Exception as e:  # noqa
                ctx.fail("auto-piece-length-create-raised", {"creator": cls}, "metafiles", f"{type(e).__name__}: {e}")
                continue
            for label, raw in (("same relative path string as an earlier, smaller payload in another working directory", rel),
                               ("payload grown across the threshold since an earlier create of the same path", grown),
                               ("the large file is a symbolic link (-> ../../store/sparse.img) to a file outside the payload", linked)):
                ctx.case(key=("auto-pl", cls, label), classes=["automatic piece length across a threshold", "creator " + cls], nontrivial=True)
                probs = compare(ref, raw, ())
                for kind, exp, obs in probs:
                    ctx.fail(f"{kind}:automatic piece length", {"kind": "auto-piece-length", "creator": cls, "sequence": label,
                                                                  "payload": {"f": 10, "sparse.img": big}, "piece_length": "automatic",
                                                                  "base": "a byte-identical copy of regular files, absolute path"},
                             exp, obs)


# ------------------------------------------------------------------------------------------------ aimed: payloads at scale
# Everything above uses piece lengths of 16 .. 32 KiB.  harness/scale.py lists payload shapes at piece lengths of 2 .. 32 MiB whose
# file sizes are aimed at read windows of 1 / 4 / 8 MiB (a file whose last piece holds more than 1 MiB, sizes that are multiples
# of 1 MiB but not of the piece length, tails one byte either side of a window).  A creator that reads a piece in chunks when a
# progress bar is shown, or buffers differently when quiet, is exercised only there: for each payload the metafile written with
# progress 0 is the base and progress 1 / 2 (library argument and `--prog`; on the command line also -q) must give the identical
# info span and be identical outside 'creation date'.  The files are pure functions of (size, salt): a replay carries the tree.
SCALE_NAMES = ["payload", "pay load", "P"]


def scale_case(ctx, j, thorough):
    """case j at scale: (case dict, classes)"""
    pl, tree, cl = scale.gen(ctx.rng, j, thorough=thorough, max_total=40 * scale.MIB)
    flat = {comps: (len(data), f"c08-scale-{j}-{n}") for n, (comps, data) in enumerate(tree.items())}
    del tree
    node = cc.from_flat(flat)
    return {"node": node, "pl": pl, "payload": SCALE_NAMES[j % len(SCALE_NAMES)], "info_opts": INFO_OPTS[j % len(INFO_OPTS)],
            "index": f"scale{j}", "flavour": "scale"}, sorted(cl)


def scale_progress(ctx):
    """progress modes 0 / 1 / 2 (and -q on the command line) on payloads at scale, v1 family and v2 / hybrid family of routes"""
    core.use_repo_in_process()
    thorough = ctx.tier == "thorough"
    ntpl = len(scale.templates(thorough))
    picks = list(range(ntpl)) + list(range(ntpl, ntpl + 6)) if thorough else sorted(ctx.rng.sample(range(ntpl), 5))
    v1_routes = [r for r in ROUTES if route_name(r) in ("class v1", "class v1-align", "cli --meta-version 1", "cli --meta-version 1 --align")]
    v2_routes = [r for r in ROUTES if r not in v1_routes]
    with core.Scratch("vc08p_") as tmp:
        tmp = os.path.realpath(tmp)
        os.environ["HOME"] = os.path.join(tmp, "home")
        os.makedirs(os.environ["HOME"], exist_ok=True)
        for n, j in enumerate(picks):
            case, cl = scale_case(ctx, j, thorough)
            case_dir = os.path.join(tmp, f"s{j}")
            cc.make_case_dir(case_dir, case["payload"], case["node"])
            cc._DATA.clear()              # tens of MiB per file: do not keep them in the generator's cache
            if thorough:
                routes = v1_routes + [v2_routes[(n + k) % len(v2_routes)] for k in range(3)]
            else:
                routes = [v1_routes[(n + ctx.seed) % len(v1_routes)], v1_routes[(n + ctx.seed + 2) % len(v1_routes)],
                          v2_routes[(n + ctx.seed) % len(v2_routes)], v2_routes[(n + ctx.seed + 3) % len(v2_routes)]]
            for route in routes:
                base = dict(BASE_VARIANT)
                try:
                    braw = run_variant(case_dir, case, route, base, "base")
                    observe(braw)
                except Exception as e:  # noqa
                    ctx.fail("base-create-raised", case_input(case, route, base, base), "a metafile", f"{type(e).__name__}: {e}")
                    continue
                variants = [variant("progress 1", "progress", progress=1), variant("progress 2", "progress", progress=2)]
                if route[0] == "cli":
                    variants.append(variant("--quiet, progress 2", "progress", quiet=True, progress=2))
                    if thorough:
                        variants.append(variant("--quiet", "progress", quiet=True))
                for var in variants:
                    try:
                        raw = run_variant(case_dir, case, route, var, "var")
                        problems = compare(braw, raw, ())
                    except Exception as e:  # noqa
                        problems = [("create-raised", "a metafile, as for the base", f"{type(e).__name__}: {str(e)[:300]}")]
                    ctx.case(key=("e2e-scale", j, route_name(route), var["label"]), nontrivial=True,
                             classes=cl + ["variant: progress at scale", "variant: progress", route_name(route)])
                    for kind, exp, obs in problems:
                        ctx.fail(f"{kind}:progress at scale", case_input(case, route, base, var), exp, obs,
                                 detail=f"{route_name(route)}; piece length {case['pl']}; variant {var['label']}")
            shutil.rmtree(case_dir, ignore_errors=True)


# ------------------------------------------------------------------------------------------------ aimed: automatic piece length x location
# With no piece length given the tool chooses one from the payload's total size; the choice steps up at totals of 1000 * 2^k
# bytes.  The choice is part of info, so it must depend on the payload only -- not on where the copy lives.  What differs between
# byte-identical copies at different locations is the file system's own bookkeeping, above all the st_size a DIRECTORY reports:
# 4096 for a fresh ext4 directory, 24576 and more for one that once held a few hundred entries (it never shrinks), a few dozen
# bytes on tmpfs (/dev/shm).  Copies of one tree -- a sparse file plus small files in nested directories, total a margin below /
# one byte above a step -- are created at such locations; the margins (1, 1500, 10000, 60000 bytes) lie between the directory
# overheads of the locations, so a total that counts anything but file bytes steps up in one copy and not in another.
AUTO_LOC_ROUTES = [["class", "TorrentFile"], ["class", "TorrentFileV2"], ["class", "TorrentFileHybrid"], ["class", "TorrentAssembler"],
                   ["cli", "1"], ["cli", "2"], ["cli", "3"]]
AUTO_LOC_SMALL = {("a.txt",): 10, ("sub", "b.bin"): 70001, ("sub", "deeper", "c"): 1, ("sub", "z-last"): 300}
AUTO_LOC_EMPTY = [("sub", "empty dir"), ("other",)]


def auto_loc_write(root, total, used):
    """the tree at <root>/data with the given total of file bytes; used: every directory first holds 400 entries that are removed again"""
    dirs = sorted({comps[:k] for comps in list(AUTO_LOC_SMALL) + [c + ("x",) for c in AUTO_LOC_EMPTY] for k in range(len(comps))})
    for d in dirs:
        p = os.path.join(root, "data", *d)
        if not os.path.isdir(p):
            os.makedirs(p)
            if used:
                for i in range(400):
                    open(os.path.join(p, f"an entry with a long name {i:05d}"), "wb").close()
                for i in range(400):
                    os.remove(os.path.join(p, f"an entry with a long name {i:05d}"))
    for comps, size in AUTO_LOC_SMALL.items():
        with open(os.path.join(root, "data", *comps), "wb") as fd:
            fd.write(cc.data_of(size, "c08-autoloc-" + "/".join(comps)))
    with open(os.path.join(root, "data", "sparse.img"), "wb") as fd:
        fd.truncate(total - sum(AUTO_LOC_SMALL.values()))          # a hole: nothing large is written


def auto_loc_dirsizes(root):
    return sorted({os.stat(os.path.join(dp, d)).st_size for dp, dn, _ in os.walk(root) for d in dn})


def auto_loc_create(root, route, tag):
    payload = os.path.join(root, "data")
    out = os.path.join(root, tag + ".torrent")
    with cc.patched(cwd=root, clock=T0):
        if route[0] == "class":
            from torrentfile import torrent
            kw = {"meta_version": "3"} if route[1] == "TorrentAssembler" else {}
            t = trees.quiet(getattr(torrent, route[1]), path=payload, progress=0, outfile=out, **kw)
            trees.quiet(t.write)
        else:
            from torrentfile.cli import execute
            try:
                trees.quiet(execute, ["create", payload, "--meta-version", route[1], "--prog", "0", "-o", out])
            except SystemExit as e:
                raise RuntimeError(f"the command line exited with {e.code}")
    return oracle.read(out)


def auto_loc_places(tmp):
    """[(label, directory, used)] -- the scratch directory twice (fresh / used-and-emptied directories) and /dev/shm when writable"""
    places = [("fresh directories in the scratch directory", os.path.join(tmp, "fresh"), False),
              ("directories that held 400 entries each, since removed", os.path.join(tmp, "used"), True)]
    shm = None
    if os.path.isdir("/dev/shm") and os.access("/dev/shm", os.W_OK):
        try:
            import tempfile
            shm = tempfile.mkdtemp(prefix="vc08shm_", dir="/dev/shm")
            places.append(("fresh directories under /dev/shm", shm, False))
        except OSError:
            shm = None
    return places, shm


def auto_loc_judge(tmp, total, route, places, tag):
    """problems of each copy against the first: [(place label, directory sizes, kind, expected, observed)]"""
    raws = []
    for label, root, used in places:
        if os.path.isdir(os.path.join(root, "data")):
            os.truncate(os.path.join(root, "data", "sparse.img"), total - sum(AUTO_LOC_SMALL.values()))
        else:
            auto_loc_write(root, total, used)
        try:
            raws.append(auto_loc_create(root, route, tag))
        except Exception as e:  # noqa
            raws.append(e)
    out = []
    if isinstance(raws[0], Exception):
        return [(places[0][0], auto_loc_dirsizes(places[0][1]), "base-raised", "a metafile", f"{type(raws[0]).__name__}: {raws[0]}")]
    for (label, root, _), raw in zip(places[1:], raws[1:]):
        if isinstance(raw, Exception):
            probs = [("create-raised", "a metafile, as for the first copy", f"{type(raw).__name__}: {str(raw)[:300]}")]
        else:
            probs = compare(raws[0], raw, ())
        out += [(label, auto_loc_dirsizes(root), k, e, o) for k, e, o in probs]
    return out


def auto_loc_input(total, step, margin, route, places):
    return {"kind": "auto-piece-length-location", "total_file_bytes": total, "step": f"1000 * 2^{step}", "margin": margin, "route": route,
            "piece_length": "automatic", "payload": dict({"/".join(k): v for k, v in AUTO_LOC_SMALL.items()},
                                                         **{"sparse.img": total - sum(AUTO_LOC_SMALL.values())},
                                                         **{"/".join(k) + "/": "empty dir" for k in AUTO_LOC_EMPTY}),
            "copies": [p[0] for p in places], "base": places[0][0]}


def auto_piece_length_locations(ctx):
    core.use_repo_in_process()
    thorough = ctx.tier == "thorough"
    steps = [14, 15, 16, 17] if thorough else [14, 15]
    with core.Scratch("vc08d_") as tmp:
        tmp = os.path.realpath(tmp)
        os.environ["HOME"] = tmp
        places, shm = auto_loc_places(tmp)
        try:
            n = ctx.seed
            for step in steps:
                margins = [-1, -1500, -10000, -60000, 1] if thorough or step == 14 else [-1500, -10000]
                for margin in margins:
                    total = 1000 * 2 ** step + margin
                    routes = AUTO_LOC_ROUTES if thorough and step == 14 else \
                        [AUTO_LOC_ROUTES[n % len(AUTO_LOC_ROUTES)]] + ([AUTO_LOC_ROUTES[(n + 4) % len(AUTO_LOC_ROUTES)]] if step == 14 else [])
                    n += 1
                    for route in routes:
                        problems = auto_loc_judge(tmp, total, route, places, "m")
                        ctx.case(key=("auto-pl-location", step, margin, json.dumps(route)), nontrivial=True,
                                 classes=["automatic piece length x location of the copy",
                                          f"automatic piece length: total {'one byte above' if margin > 0 else str(-margin) + ' below'} a step",
                                          "creator " + " ".join(route)] +
                                 [f"copy: {p[0]} (directory st_size {auto_loc_dirsizes(p[1])})" for p in places])
                        for label, dirsizes, kind, exp, obs in problems:
                            ctx.fail(f"{kind}:automatic piece length x location", dict(auto_loc_input(total, step, margin, route, places),
                                                                                      differing_copy=label, its_directory_sizes=dirsizes),
                                     exp, obs, detail=f"{' '.join(route)}; total {total} = 1000 * 2^{step} {margin:+d}; copy: {label}")
        finally:
            if shm:
                shutil.rmtree(shm, ignore_errors=True)


def run(ctx, model_ok):
    cc.pathsem(ctx, model_ok)
    quick = ctx.tier == "quick"
    cc.unit(ctx, model_ok, n=192 if quick else 960, budget=110000 if quick else 300000)
    cc.require_classes(ctx)          # Appendix B: the correspondence generator itself must hit every class twice
    e2e(ctx)
    auto_piece_length(ctx)
    auto_piece_length_locations(ctx)
    scale_progress(ctx)
    symlinks(ctx)
    stolen_paths(ctx)
    outfile_inside_payload(ctx)
    hash_seeds(ctx)
    for hs in HASH_SEEDS[1:]:
        if not ctx.classes.get("variant: hash seed " + hs):
            ctx.broken.append(f"no create ran under PYTHONHASHSEED={hs}: the run is not accepted")


def classify(failure):
    return None


def replay(ctx, data):
    inp = data.get("input") or {}
    if inp.get("kind") == "e2e":
        case = {"node": inp["tree"], "pl": inp["piece_length"], "payload": inp["payload_name"], "info_opts": inp["info_options"]}
        with core.Scratch("vc08r_") as tmp:
            tmp = os.path.realpath(tmp)
            os.environ["HOME"] = os.path.join(tmp, "home")
            os.makedirs(os.environ["HOME"], exist_ok=True)
            prepare(os.path.join(tmp, "r"), case)
            problems = judge_pair(os.path.join(tmp, "r"), case, inp["route"], inp["base"], inp["variant"])
        print(f"[C08 replay] {inp['route_name']}; tree {cc.summary(inp['tree'])}; variant: {inp['variant']['label']}")
        for kind, exp, obs in problems:
            print(f"[C08 replay] VIOLATION {kind}\n   base   : {exp}\n   variant: {obs}")
        if not problems:
            print("[C08 replay] the variant now agrees with the base (info identical; metafile identical outside creation date"
                  + (" and the announce/seed keys)" if strip_of(inp["variant"]) else ")"))
        return 1 if problems else 0
    if inp.get("kind") == "symlink":
        core.use_repo_in_process()
        with core.Scratch("vc08r_") as tmp:
            tmp = os.path.realpath(tmp)
            os.environ["HOME"] = tmp
            problems = link_judge(tmp, inp["route"], inp["variant"])
        print(f"[C08 replay] {inp['route_name']}; plain tree {inp.get('payload')} at {inp['base']['content_path']}; variant: "
              f"{inp['variant']}: content path {inp['content_path']} from {inp['working_directory']}; layout {LINK_LAYOUT}")
        for kind, exp, obs in problems:
            print(f"[C08 replay] VIOLATION {kind}\n   base   : {exp}\n   variant: {obs}")
        if not problems:
            print("[C08 replay] the variant now agrees with the plain tree (info identical)")
        return 1 if problems else 0
    if inp.get("kind") == "auto-piece-length":
        fresh = core.Ctx("C08", ctx.tier, ctx.seed)
        auto_piece_length(fresh)
        hits = [f for f in fresh.failures if f["input"].get("creator") == inp.get("creator")
                and f["input"].get("sequence") == inp.get("sequence")]
        print(f"[C08 replay] {inp.get('creator')}, no piece length given; payload {inp.get('payload')}; {inp.get('sequence')}")
        for f in hits:
            print(f"[C08 replay] VIOLATION {f['kind']}\n   base   : {f['expected']}\n   variant: {f['observed']}")
        if not hits:
            print("[C08 replay] the variant now agrees with the base (info identical)")
        return 1 if hits else 0
    if inp.get("kind") == "auto-piece-length-location":
        core.use_repo_in_process()
        with core.Scratch("vc08r_") as tmp:
            tmp = os.path.realpath(tmp)
            os.environ["HOME"] = tmp
            places, shm = auto_loc_places(tmp)
            try:
                problems = auto_loc_judge(tmp, inp["total_file_bytes"], inp["route"], places, "r")
                sizes = {p[0]: auto_loc_dirsizes(p[1]) for p in places}
            finally:
                if shm:
                    shutil.rmtree(shm, ignore_errors=True)
        print(f"[C08 replay] {' '.join(inp['route'])}, no piece length given; payload {inp.get('payload')} (total {inp['total_file_bytes']} "
              f"= {inp.get('step')} {inp.get('margin'):+d}); copies and the st_size of their directories: {sizes}")
        for label, dirsizes, kind, exp, obs in problems:
            print(f"[C08 replay] VIOLATION {kind} (copy: {label})\n   base   : {exp}\n   variant: {obs}")
        if not problems:
            print("[C08 replay] every copy gives the same metafile as the first (info identical)")
        return 1 if problems else 0
    if inp.get("kind") in ("stolen-path", "outfile-inside"):
        core.use_repo_in_process()
        with core.Scratch("vc08r_") as tmp:
            tmp = os.path.realpath(tmp)
            os.environ["HOME"] = tmp
            if inp["kind"] == "stolen-path":
                problems = stolen_judge(tmp, inp["route"], inp["options"])
            else:
                problems = inside_judge(tmp, inp["route"], inp["variant"], 0)
        print(f"[C08 replay] {inp['route_name']}; payload {cc.summary(AIMED_NODE)}; variant: {inp['variant']}")
        for kind, exp, obs in problems:
            print(f"[C08 replay] VIOLATION {kind}\n   base   : {exp}\n   variant: {obs}")
        if not problems:
            print("[C08 replay] the variant now agrees with the base (info identical)")
        return 1 if problems else 0
    dis = data.get("disagreements") or ([data] if "what" in data else [])
    rc = 0
    for d in dis[:5]:
        inp = d.get("input") or {}
        if inp.get("kind") != "unit":
            print("[C08 replay] correspondence case:", json.dumps(d, ensure_ascii=False)[:1500])
            rc = 1
            continue
        model, raw = cc.replay_unit(ctx, inp)
        same = isinstance(raw, bytes) and model == raw
        print(f"[C08 replay] unit correspondence {inp['creator']} on {inp['summary']} spelled {inp['spelling']!r}: "
              + ("model and implementation agree now" if same else "model and implementation DISAGREE"))
        if not same:
            rc = 1
            print("   ", cc._diff(model.hex() if model is not None else "ERROR no model output", raw if isinstance(raw, bytes) else b""),
                  "" if isinstance(raw, bytes) else f"impl raised {raw!r}")
    for b in data.get("broken") or []:
        print("[C08 replay] broken obligation:", b[:500])
        rc = 1
    return rc
