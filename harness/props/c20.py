"""C20 -- a create option means the same via command-line flag, configuration file or library keyword."""
import os
import re
import sys
import json
import time
import shutil
import itertools
import subprocess
from concurrent.futures import ThreadPoolExecutor

import core
from ref import oracle

GEN_FILES = ["GenCli.v", "GenConfig.v"]
EXTRA_TARGETS = []
AREAS = []

RULE = (
    "end to end (independent of the Coq model): an option record o assigns values to a subset of the ten documented create "
    "options (announce 1-3 URLs, web-seed 1-2, http-seed 1-2, private, source, comment, piece-length as exponent or byte count, "
    "meta-version 1/2/3, out = file / directory with trailing slash / relative name / absent, align); quick = the empty set, "
    "every single option (2 draws), all 45 pairs, the full set (3 draws), 16 aimed records and random subsets; thorough = all "
    "1024 subsets x 3 value draws.  Every record is turned into a metafile by three routes, each run in a FRESH interpreter "
    "with HOME and the working directory pointed at per-run scratch directories: (a) `python -m torrentfile create|new|<implicit> ...` with "
    "the flags in canonical and permuted orders, long / short / alias (--tracker) / abbreviated / --flag=value spellings, the "
    "content path first, in the middle, last, and directly after each list-valued flag (-a/--announce/--tracker, --web-seed, "
    "--http-seed) so that argparse swallows it and MetaFile must recover it (swallowing flag last in argv and followed by more "
    "flags); (b) a torrentfile.ini with a [config] section (key order permuted, ' = ' / '=' / ': ' delimiters, key case "
    "variants, list values one per indented line or inline, true/True/TRUE) found through --config in the working directory, "
    "--config-path, ~/.torrentfile/ and ~/.config/.torrentfile/, with only the content path (and sometimes the undocumented "
    "--prog 0) on the command line; (c) TorrentFile / TorrentFileV2 / TorrentFileHybrid / TorrentAssembler(**kwargs).write() with "
    "path= or content=, meta_version as str, int or omitted (class-specific creators), piece_length as str or int, announce as "
    "list or (single URL) str.  Each result is decoded with the reference oracle's strict bencode decoder, 'creation date' (and "
    "nothing else) is dropped, and the check requires (1) every route byte-identical to the majority result, (2) every option "
    "in its documented field and no field present that no option asked for (announce -> announce + announce-list [[all]], "
    "web-seed -> url-list, http-seed -> httpseeds, private -> info.private = 1, source / comment -> info.source / info.comment "
    "(UTF-8), piece-length -> info['piece length'] = 2^e or the byte count, meta-version -> v1 / v2 / hybrid key structure, align "
    "-> BEP 47 pad entries after every non-final file of the multi-file v1 payload and none otherwise), (3) exactly one new file, "
    "at the place `out` names (default: <cwd>/<name>.torrent).  Values left out because an ini file cannot express them or "
    "because they are outside the property's quantifier: leading/trailing white space and white-space-only values (ConfigParser "
    "strips them), continuation lines that begin with '#' or ';' (read as comments), '\\r' and NUL, non-UTF-8 bytes; values that "
    "begin with '-' are rendered only as --flag=value / -fvalue on the command line (argparse reads a separate '-x' as a flag); "
    "the implicit sub-command rendering is not combined with values that are themselves command words (cli.execute decides "
    "on `word in argv`).  tie (PART 2): the generated option table of GenCli.v/GenConfig.v vs introspection of the real argparse "
    "create sub-parser, the model's parse of generated argv vs parser.parse_args, and the model's cfg application vs "
    "parse_config_file.  Distinct = distinct (option record, route rendering); a case is non-trivial when at least one option "
    "is set or the route is not the canonical one.")
TRUSTED_BASE = [
    "Coq 8.16.1 kernel; theorems closed under the global context",
    "translator gen/gen_cli.py (cli.py create sub-parser + commands.parse_config_file -> GenCli.v / GenConfig.v), checked on every run "
    "against introspection of the real parser and against parse_args / parse_config_file on generated inputs",
    "hand model of the argparse slice (Model/ArgParse.v): exact flags, store / store_true / nargs='+', one optional positional",
    "reference oracle harness/ref/oracle.py (strict bencode decoder/encoder) for the end-to-end comparison",
    "the documented option table (README / site/overview.md / `create -h`) as transcribed in this file (DOC_FLAGS, DOC_FIELD)",
]
ASSUMPTIONS = [
    "URLs given as option values do not name existing filesystem entries (urls_are_not_paths); the content path exists",
    "ini-expressible values only (see RULE); CLI values that begin with '-' only in the attached spelling",
    "the default output location is <cwd>/<name>.torrent, as the code does on all three routes (the manual says 'adjacent to the content')",
]

OPTS = ["announce", "web-seed", "http-seed", "private", "source", "comment", "piece-length", "meta-version", "out", "align"]
LIST_OPTS = ("announce", "web-seed", "http-seed")
BOOL_OPTS = ("private", "align")
# documented spellings (site/overview.md, README, `torrentfile create -h`)
DOC_FLAGS = {
    "announce": ["--announce", "-a", "--tracker"],
    "web-seed": ["--web-seed"],
    "http-seed": ["--http-seed"],
    "private": ["--private", "-p"],
    "source": ["--source", "-s"],
    "comment": ["--comment", "-c"],
    "piece-length": ["--piece-length"],
    "meta-version": ["--meta-version"],
    "out": ["--out", "-o"],
    "align": ["--align"],
}
ABBREV = {"announce": "--announ", "web-seed": "--web", "http-seed": "--http", "private": "--priv", "source": "--sou",
          "comment": "--comm", "piece-length": "--piece", "meta-version": "--meta", "out": "--ou", "align": "--al"}
KW_NAME = {"announce": "announce", "web-seed": "url_list", "http-seed": "httpseeds", "private": "private", "source": "source",
           "comment": "comment", "piece-length": "piece_length", "meta-version": "meta_version", "out": "outfile", "align": "align"}
DOC_FIELD = {"announce": "announce + announce-list", "web-seed": "url-list", "http-seed": "httpseeds", "private": "info.private",
             "source": "info.source", "comment": "info.comment", "piece-length": "info.piece length",
             "meta-version": "v1/v2/hybrid structure", "out": "output location", "align": "info.files padding entries"}
COMMAND_WORDS = {"m", "-h", "-V", "new", "edit", "info", "check", "create", "magnet", "rename", "rebuild", "recheck"}

A_POOL = [
    "http://tracker.example/announce",
    "https://t2.example:8443/ann?passkey=abc123&x=1",
    "udp://[2001:db8::1]:6969/announce",
    "http://t.example/a%20b/announce",
    "http://t.example/%7Euser/ann?k=v%26w#frag",
    "http://[::1]:8080/announce?info=%(x)s",
    "http://tracker.example/annoncé/☃",
    "wss://tracker.example:443/;params=1",
]
W_POOL = ["ftp://ftp.example.site/content", "https://mirror.example/dl/pay%20load/", "http://[fe80::1]/files?x=y;z=1",
          "https://cdn.example/a=b/"]
H_POOL = ["https://example.url/path/to/content", "http://seed.example:8080/s%2Fd?q=1", "http://h.example/ünï"]
T_POOL = ["plain", "two words", "true", "false", "True", "FALSE", "100% pure", "50%%", "%(here)s", "a#b", "a #b ;c", "#lead",
          ";lead", "k=v", "= x", "a: b", "[config]", "ünïcödé ☃", "日本語 コメント",
          "$HOME ~ `x` \"q\" 'q' \\n", "two\nlines", "0", "1", "-dash", "x" * 300, "", "new", "info"]
PL_POOL = ["14", "15", "16", "17", "18", "16384", "32768"]
OUT_POOL = ["file", "dir", "rel", "spacefile"]

TREE = [(("a.bin",), 3000), (("b", "c.bin"), 5000), (("big.bin",), 70000), (("z e.txt",), 1)]
SINGLE = 40000

KW_RUNNER = r"""
import sys, json, io, contextlib
spec = json.loads(sys.argv[1])
from torrentfile import torrent
sink = io.StringIO()
with contextlib.redirect_stdout(sink):
    t = getattr(torrent, spec["cls"])(**spec["kwargs"])
    out, _ = t.write()
print(out)
"""


def pbytes(n, salt):
    return bytes((i * 7 + salt) % 251 for i in range(n))


def make_payload(root):
    d = os.path.join(root, "payload")
    for i, (comps, n) in enumerate(TREE):
        p = os.path.join(d, "tree", *comps)
        os.makedirs(os.path.dirname(p), exist_ok=True)
        with open(p, "wb") as fd:
            fd.write(pbytes(n, i + 1))
    with open(os.path.join(d, "single.bin"), "wb") as fd:
        fd.write(pbytes(SINGLE, 9))
    return d


def content_of(root, o):
    return os.path.join(root, "payload", "single.bin" if o.get("payload") == "single" else "tree")


def content_name(o):
    return "single.bin" if o.get("payload") == "single" else "tree"


def is_set(o, opt):
    return opt in o


def set_opts(o):
    return [k for k in OPTS if k in o]


# ------------------------------------------------------------------------------------------------ value generation
def draw(rng, subset, aimed=None):
    """option record over `subset`; `aimed` may pin some values"""
    o = {}
    aimed = aimed or {}
    for opt in OPTS:
        if opt not in subset:
            continue
        if opt in aimed:
            o[opt] = aimed[opt]
        elif opt == "announce":
            o[opt] = rng.sample(A_POOL, rng.choice([1, 1, 2, 3]))
        elif opt == "web-seed":
            o[opt] = rng.sample(W_POOL, rng.choice([1, 2]))
        elif opt == "http-seed":
            o[opt] = rng.sample(H_POOL, rng.choice([1, 2]))
        elif opt in BOOL_OPTS:
            o[opt] = True
        elif opt in ("source", "comment"):
            o[opt] = rng.choice(T_POOL)
        elif opt == "piece-length":
            o[opt] = rng.choice(PL_POOL)
        elif opt == "meta-version":
            o[opt] = rng.choice(["1", "2", "3"])
        elif opt == "out":
            o[opt] = rng.choice(OUT_POOL)
    if "payload" in aimed:
        o["payload"] = aimed["payload"]
    elif rng.random() < 0.12:
        o["payload"] = "single"
    ef = [b for b in BOOL_OPTS if b not in o and rng.random() < 0.3]
    if ef:
        o["explicit_false"] = ef       # written as `false` in the ini and as False keyword; nothing on the command line
    return o


AIMED = [
    ({"web-seed"}, {"web-seed": [W_POOL[0]]}),                                              # D17 class
    ({"web-seed", "announce"}, {"web-seed": [W_POOL[1], W_POOL[2]], "announce": [A_POOL[0]]}),
    ({"out"}, {"out": "file"}), ({"out"}, {"out": "dir"}), ({"out"}, {"out": "rel"}),       # D18 class
    ({"announce"}, {"announce": [A_POOL[3]]}),                                              # D19 class
    ({"announce", "comment"}, {"announce": [A_POOL[4], A_POOL[0]], "comment": "100% pure"}),
    ({"http-seed", "source"}, {"http-seed": [H_POOL[1]], "source": "%(here)s"}),
    ({"comment"}, {"comment": "true"}), ({"source"}, {"source": "false"}),                  # D20 class
    ({"comment", "source"}, {"comment": "False", "source": "TRUE"}),
    ({"meta-version"}, {"meta-version": "3"}),                                              # D21 class
    ({"meta-version", "align", "piece-length"}, {"meta-version": "3", "piece-length": "32768"}),
    ({"meta-version", "align"}, {"meta-version": "2"}),
    ({"align", "piece-length"}, {"piece-length": "16384", "payload": "tree"}),
    ({"announce", "web-seed", "http-seed"}, {"announce": [A_POOL[2], A_POOL[6], A_POOL[1]], "payload": "single"}),
]


def records(ctx):
    rng = ctx.rng
    recs = []
    if ctx.tier == "thorough":
        for mask in range(1 << len(OPTS)):
            subset = {OPTS[i] for i in range(len(OPTS)) if mask >> i & 1}
            for _ in range(3):
                recs.append(draw(rng, subset))
        for subset, aimed in AIMED:
            recs.append(draw(rng, subset, aimed))
        return recs
    recs.append(draw(rng, set()))
    for opt in OPTS:
        for _ in range(2):
            recs.append(draw(rng, {opt}))
    for a, b in itertools.combinations(OPTS, 2):
        recs.append(draw(rng, {a, b}))
    for _ in range(3):
        recs.append(draw(rng, set(OPTS)))
    for subset, aimed in AIMED:
        recs.append(draw(rng, subset, aimed))
    for _ in range(12):
        recs.append(draw(rng, {x for x in OPTS if rng.random() < 0.5}))
    return recs


# ------------------------------------------------------------------------------------------------ route renderings
def ordered(o, order):
    """set options of o in the order given by `order` (missing ones appended canonically)"""
    present = set_opts(o)
    out = [x for x in (order or []) if x in present]
    return out + [x for x in present if x not in out]


def out_value(o, w):
    """(string given to the option, expected location relative to w)"""
    kind = o.get("out")
    name = content_name(o) + ".torrent"
    if kind == "file":
        return os.path.join(w, "out", "m.torrent"), os.path.join("out", "m.torrent")
    if kind == "spacefile":
        return os.path.join(w, "out", "my file.torrent"), os.path.join("out", "my file.torrent")
    if kind == "dir":
        return os.path.join(w, "out") + "/", os.path.join("out", name)
    if kind == "rel":
        return "rel.torrent", os.path.join("cwd", "rel.torrent")
    return None, os.path.join("cwd", name)


def cli_groups(o, r, w):
    groups = []
    style = r.get("style", "space")
    for opt in ordered(o, r.get("order")):
        flag = r.get("spelling", {}).get(opt) or DOC_FLAGS[opt][0]
        if opt in LIST_OPTS:
            groups.append((opt, [flag] + list(o[opt])))
        elif opt in BOOL_OPTS:
            groups.append((opt, [flag]))
        else:
            v = out_value(o, w)[0] if opt == "out" else o[opt]
            attach = style == "eq" or v.startswith("-")
            if attach and flag.startswith("--"):
                groups.append((opt, [flag + "=" + v]))
            elif attach and v:
                groups.append((opt, [flag + v]))
            else:
                groups.append((opt, [flag, v]))
    if r.get("extra"):
        groups.append(("~extra", list(r["extra"])))
    return groups


def cli_argv(o, r, w, content):
    """returns (argv, info) where info = dict(position=first|middle|last|only, swallowed_by=opt|None, swallow_last=bool)"""
    groups = cli_groups(o, r, w)
    after = r.get("content_after")
    if after is not None and any(g[0] == after for g in groups):
        pos = [g[0] for g in groups].index(after) + 1
    else:
        pos = r.get("content_at", len(groups))
        pos = max(0, min(len(groups), pos if pos >= 0 else len(groups) + 1 + pos))
    toks = [t for g in groups[:pos] for t in g[1]]
    if r.get("dashdash"):
        toks.append("--")
    toks.append(content)
    toks += [t for g in groups[pos:] for t in g[1]]
    sub = r.get("sub", "create")
    argv = ([sub] if sub else []) + toks
    sw = groups[pos - 1][0] if pos > 0 and groups[pos - 1][0] in LIST_OPTS and not r.get("dashdash") else None
    info = {"position": "only" if not groups else "first" if pos == 0 else "last" if pos == len(groups) else "middle",
            "swallowed_by": sw, "swallow_last": sw is not None and pos == len(groups)}
    return argv, info


def ini_text(o, r, w):
    delim = r.get("delim", " = ")
    case = r.get("keycase", "lower")
    truth = r.get("truth", "true")
    lines = ["[config]"]

    def key(k):
        return k.upper() if case == "upper" else k.title() if case == "title" else k
    items = ordered(o, r.get("order")) + list(o.get("explicit_false", []))
    if r.get("false_first"):
        items = list(o.get("explicit_false", [])) + ordered(o, r.get("order"))
    for opt in items:
        if opt in LIST_OPTS:
            if r.get("inline_single") and len(o[opt]) == 1:
                lines.append(key(opt) + delim + o[opt][0])
            else:
                lines.append(key(opt) + delim.rstrip())
                lines += ["    " + u for u in o[opt]]
        elif opt in BOOL_OPTS:
            lines.append(key(opt) + delim + (truth if o.get(opt) else "false"))
        else:
            v = out_value(o, w)[0] if opt == "out" else o[opt]
            lines.append(key(opt) + delim + v.replace("\n", "\n    "))
    return "\n".join(lines) + "\n"


def kw_spec(o, r, w, content):
    kwargs = {r.get("pathkw", "path"): content}
    ver = o.get("meta-version", "1")
    for opt in ordered(o, None):
        if opt == "announce":
            v = list(o[opt])
            kwargs["announce"] = v[0] if r.get("announce_as") == "str" and len(v) == 1 else v
        elif opt in ("web-seed", "http-seed"):
            kwargs[KW_NAME[opt]] = list(o[opt])
        elif opt in BOOL_OPTS:
            kwargs[opt] = True
        elif opt == "piece-length":
            kwargs["piece_length"] = int(o[opt]) if r.get("pl") == "int" else o[opt]
        elif opt == "out":
            kwargs["outfile"] = out_value(o, w)[0]
        elif opt == "meta-version":
            pass
        else:
            kwargs[opt] = o[opt]
    for b in o.get("explicit_false", []):
        kwargs[b] = False
    cls = r.get("cls", "auto")
    if cls == "auto":
        cls = "TorrentFile" if ver == "1" else "TorrentAssembler"
    elif cls == "class":
        cls = {"1": "TorrentFile", "2": "TorrentFileV2", "3": "TorrentFileHybrid"}[ver]
    mv = r.get("mv", "str")
    if cls == "TorrentAssembler" and mv == "omit":
        mv = "str"          # the assembler has no other way to learn the version
    if mv == "omit" or ("meta-version" not in o and cls == "TorrentFile" and mv != "int"):
        pass
    else:
        kwargs["meta_version"] = int(ver) if mv == "int" else ver
    if r.get("progress") is not None:
        kwargs["progress"] = r["progress"]
    return {"cls": cls, "kwargs": kwargs}


def route_class(r, info=None):
    if r["route"] == "cli":
        return "cli-swallowed" if info and info.get("swallowed_by") else "cli"
    return r["route"]


def routes_for(ctx, o, idx):
    """the route renderings tried for record o"""
    rng = ctx.rng
    present = set_opts(o)
    thorough = ctx.tier == "thorough"
    words = any(isinstance(v, str) and v in COMMAND_WORDS for v in o.values())
    rs = []

    def perm():
        p = list(present)
        rng.shuffle(p)
        return p

    def spell(kind):
        if kind == "short":
            return {k: DOC_FLAGS[k][1] for k in present if len(DOC_FLAGS[k]) > 1}
        if kind == "alias":
            return {k: DOC_FLAGS[k][-1] for k in present}
        if kind == "abbrev":
            return {k: ABBREV[k] for k in present}
        if kind == "random":
            return {k: rng.choice(DOC_FLAGS[k]) for k in present}
        return {}
    # (a) command line
    rs.append({"route": "cli", "order": list(present), "content_at": -1, "sub": "create"})
    rs.append({"route": "cli", "order": perm(), "content_at": 0, "sub": "new", "spelling": spell("short")})
    if len(present) >= 2:
        p = perm()
        cand = [i for i in range(1, len(p)) if p[i - 1] not in LIST_OPTS] or [rng.randrange(1, len(p))]
        rs.append({"route": "cli", "order": p, "content_at": rng.choice(cand), "sub": "create", "style": "eq",
                   "spelling": spell("random"), "extra": ["--prog", "0"] if rng.random() < 0.4 else None})
    for j, lopt in enumerate([x for x in LIST_OPTS if x in present]):
        others = [x for x in perm() if x != lopt]
        variants = [True, False] if thorough else [(idx + j) % 2 == 0]
        for last in variants:
            if last or not others:
                order = others + [lopt]
            else:
                k = rng.randrange(0, len(others))
                order = others[:k] + [lopt] + others[k:]
            rs.append({"route": "cli", "order": order, "content_after": lopt, "sub": rng.choice(["create", "new"]),
                       "spelling": spell("random")})
    if thorough or idx % 5 == 0:
        rs.append({"route": "cli", "order": perm(), "content_at": rng.randrange(0, len(present) + 1), "sub": "create",
                   "spelling": spell("abbrev")})
    if (thorough or idx % 5 == 1) and not words:
        rs.append({"route": "cli", "order": perm(), "content_at": rng.randrange(0, len(present) + 1), "sub": "",
                   "spelling": spell("alias")})
    if thorough:
        rs.append({"route": "cli", "order": perm(), "content_at": rng.randrange(0, len(present) + 1), "sub": "create",
                   "spelling": spell("random"), "style": rng.choice(["space", "eq"])})
        if 1 <= len(present) <= 3:
            for pos in range(len(present) + 1):
                rs.append({"route": "cli", "order": list(present), "content_at": pos, "sub": "create"})
    # (b) configuration file
    finds = ["cwd", "config-path", "home-torrentfile", "home-config"]
    chosen = finds if thorough else [finds[(2 * idx) % 4], finds[(2 * idx + 1 + (idx // 2) % 2 * 2) % 4]]
    for j, f in enumerate(chosen):
        rs.append({"route": "config", "find": f, "order": perm() if j else list(present),
                   "delim": [" = ", "=", ": ", " = "][(idx + j) % 4], "keycase": ["lower", "lower", "title", "upper"][(idx + 2 * j) % 4],
                   "truth": ["true", "True", "TRUE"][(idx + j) % 3], "inline_single": (idx + j) % 2 == 0,
                   "argv_shape": ["content-last", "content-first", "content-middle"][(idx + j) % 3],
                   "extra": ["--prog", "0"] if (idx + j) % 4 == 3 else None, "sub": ["create", "new"][(idx + j) % 2],
                   "false_first": j == 1})
    # (c) keywords
    ver = o.get("meta-version", "1")
    rs.append({"route": "keyword", "cls": "auto", "pathkw": "path", "mv": "str", "pl": "str", "announce_as": "list"})
    rs.append({"route": "keyword", "cls": "auto", "pathkw": "content", "mv": "int", "pl": "int", "announce_as": "str",
               "progress": 0})
    if ver != "1":
        rs.append({"route": "keyword", "cls": "class", "pathkw": "path", "mv": ["omit", "int", "str"][idx % 3], "pl": "int",
                   "announce_as": "list"})
    elif thorough:
        rs.append({"route": "keyword", "cls": "class", "pathkw": "content", "mv": "omit", "pl": "str", "announce_as": "list"})
    return rs


# ------------------------------------------------------------------------------------------------ running one route
def run_route(root, tag, o, r):
    w = os.path.join(root, f"w{tag}")
    for d in ("cwd", "home", "out"):
        os.makedirs(os.path.join(w, d))
    cwd, home = os.path.join(w, "cwd"), os.path.join(w, "home")
    content = content_of(root, o)
    if r.get("content_relative"):
        content = os.path.relpath(content, cwd)
    expected_rel = out_value(o, w)[1]
    mine = set()
    info = {}
    if r["route"] == "cli":
        argv, info = cli_argv(o, r, w, content)
        cmd = [core.PY, "-m", "torrentfile"] + argv
    elif r["route"] == "config":
        text = ini_text(o, r, w)
        f = r.get("find", "cwd")
        if f == "cwd":
            ini = os.path.join(cwd, "torrentfile.ini")
        elif f == "config-path":
            ini = os.path.join(w, "conf dir", "my.ini")
        elif f == "home-torrentfile":
            ini = os.path.join(home, ".torrentfile", "torrentfile.ini")
        else:
            ini = os.path.join(home, ".config", ".torrentfile", "torrentfile.ini")
        os.makedirs(os.path.dirname(ini), exist_ok=True)
        with open(ini, "w", encoding="utf-8") as fd:
            fd.write(text)
        mine.add(os.path.relpath(ini, w))
        flags = ["--config"] + (["--config-path", ini] if f == "config-path" else [])
        extra = list(r.get("extra") or [])
        shape = r.get("argv_shape", "content-last")
        if shape == "content-first":
            toks = [content] + flags + extra
        elif shape == "content-middle":
            toks = ["--config", content] + flags[1:] + extra
        else:
            toks = extra + flags + [content]
        argv = [r.get("sub", "create")] + toks
        cmd = [core.PY, "-m", "torrentfile"] + argv
        info = {"ini": text}
    else:
        spec = kw_spec(o, r, w, content)
        argv = spec
        cmd = [core.PY, "-c", KW_RUNNER, json.dumps(spec)]
    try:
        p = subprocess.run(cmd, cwd=cwd, env=core.impl_env({"HOME": home, "PYTHONUTF8": "1"}), capture_output=True, timeout=180)
        rc, err = p.returncode, p.stderr.decode("utf-8", "replace")[-600:]
    except subprocess.TimeoutExpired:
        rc, err = -999, "timeout"
    files = {}
    for dp, _, fns in os.walk(w):
        for n in fns:
            rel = os.path.relpath(os.path.join(dp, n), w)
            if rel not in mine:
                with open(os.path.join(dp, n), "rb") as fd:
                    files[rel] = fd.read()
    shutil.rmtree(w, ignore_errors=True)
    return {"rc": rc, "err": err, "files": files, "expected_rel": expected_rel, "argv": argv, "info": info}


# ------------------------------------------------------------------------------------------------ judging
def normalise(raw):
    """strict decode, drop 'creation date' (only), re-encode canonically -> (meta, bytes) or raises"""
    meta = oracle.bdecode_strict(raw)
    if not isinstance(meta, dict):
        raise oracle.BencodeError("top level is not a dictionary")
    if not isinstance(meta.get(b"creation date"), int):
        raise oracle.BencodeError("creation date missing or not an integer")
    m = dict(meta)
    del m[b"creation date"]
    return meta, oracle.bencode(m)


def norm_pl(s):
    n = int(s)
    return 2 ** n if n < 100 else n


def landing_errors(o, meta):
    """list of (option, expected, observed) for options that are not in their documented field"""
    errs = []
    info = meta.get(b"info")
    if not isinstance(info, dict):
        return [("meta-version", "an info dictionary", repr(type(info)))]

    def enc(s):
        return s.encode("utf-8")

    def want(opt, where, key, value):
        got = where.get(key)
        if got != value:
            errs.append((opt, {key.decode(): value}, {key.decode(): got}))
    if "announce" in o:
        want("announce", meta, b"announce", enc(o["announce"][0]))
        want("announce", meta, b"announce-list", [[enc(u) for u in o["announce"]]])
    else:
        want("announce", meta, b"announce", None)
        want("announce", meta, b"announce-list", None)
    want("web-seed", meta, b"url-list", [enc(u) for u in o["web-seed"]] if "web-seed" in o else None)
    want("http-seed", meta, b"httpseeds", [enc(u) for u in o["http-seed"]] if "http-seed" in o else None)
    want("private", info, b"private", 1 if o.get("private") else None)
    want("source", info, b"source", enc(o["source"]) if o.get("source") else None)
    want("comment", info, b"comment", enc(o["comment"]) if o.get("comment") else None)
    pl = info.get(b"piece length")
    if "piece-length" in o:
        want("piece-length", info, b"piece length", norm_pl(o["piece-length"]))
    elif not (isinstance(pl, int) and pl >= 16384 and pl & (pl - 1) == 0):
        errs.append(("piece-length", "automatic power of two >= 16384", pl))
    ver = o.get("meta-version", "1")
    single = o.get("payload") == "single"
    v1, v2 = ver in ("1", "3"), ver in ("2", "3")
    shape = {"pieces": b"pieces" in info, "file tree": b"file tree" in info, "meta version": info.get(b"meta version"),
             "piece layers": b"piece layers" in meta, "files": b"files" in info}
    exp = {"pieces": v1, "file tree": v2, "meta version": 2 if v2 else None, "piece layers": v2, "files": v1 and not single}
    if shape != exp:
        errs.append(("meta-version", exp, shape))
    want("meta-version", info, b"name", enc(content_name(o)))
    top = {b"created by", b"creation date", b"info"} | ({b"announce", b"announce-list"} if "announce" in o else set()) \
        | ({b"url-list"} if "web-seed" in o else set()) | ({b"httpseeds"} if "http-seed" in o else set()) \
        | ({b"piece layers"} if v2 else set())
    if set(meta) != top:
        errs.append(("(top-level keys)", sorted(k.decode() for k in top), sorted(k.decode("utf-8", "replace") for k in meta)))
    ik = {b"name", b"piece length"} | ({b"pieces"} if v1 else set()) | ({b"file tree", b"meta version"} if v2 else set()) \
        | ({b"files"} if v1 and not single else set()) | ({b"length"} if single else set()) \
        | ({b"private"} if o.get("private") else set()) | ({b"source"} if o.get("source") else set()) \
        | ({b"comment"} if o.get("comment") else set())
    if set(info) != ik:
        errs.append(("(info keys)", sorted(k.decode() for k in ik), sorted(k.decode("utf-8", "replace") for k in info)))
    # align: v1 multi-file only
    files = info.get(b"files")
    if ver == "1" and not single and isinstance(files, list) and isinstance(pl, int) and pl > 0:
        real = [(tuple(c.encode() for c in comps), n) for comps, n in TREE]
        got_real = [(tuple(f.get(b"path", [])), f.get(b"length")) for f in files if b"attr" not in f]
        if sorted(got_real) != sorted(real):
            errs.append(("align", {"payload files": [list(map(bytes.decode, p)) for p, _ in real]}, {"files": repr(got_real)[:300]}))
        pads = [f for f in files if f.get(b"attr") == b"p"]
        if not o.get("align"):
            if pads:
                errs.append(("align", "no padding entries", f"{len(pads)} padding entries"))
        else:
            for i, f in enumerate(files):
                if b"attr" in f:
                    continue
                last_real = not any(b"attr" not in g for g in files[i + 1:])
                need = -f.get(b"length", 0) % pl
                nxt = files[i + 1] if i + 1 < len(files) else None
                if need and not last_real:
                    if not (nxt and nxt.get(b"attr") == b"p" and nxt.get(b"length") == need):
                        errs.append(("align", f"padding entry of {need} bytes after {f.get(b'path')}", repr(nxt)[:200]))
                        break
    return errs


def judge(ctx, o, routes, results, quiet=False):
    """returns list of failures (kind, route index, expected, observed)"""
    fails = []
    normed = []
    for r, res in zip(routes, results):
        rcls = route_class(r, res["info"])
        tf = {k: v for k, v in res["files"].items()}
        raw = None
        if res["rc"] != 0 or not tf:
            fails.append((f"route-error:{rcls}", r, "exit status 0 and one metafile written",
                          {"rc": res["rc"], "stderr": res["err"][-400:], "files": sorted(tf)}))
        if set(tf) != {res["expected_rel"]}:
            if res["rc"] == 0 and tf:
                fails.append((f"out-location:{rcls}", r, {"new files": [res["expected_rel"]]}, {"new files": sorted(tf)}))
        if res["expected_rel"] in tf:
            raw = tf[res["expected_rel"]]
        elif len(tf) == 1:
            raw = next(iter(tf.values()))
        if raw is None:
            normed.append(None)
            continue
        try:
            meta, nb = normalise(raw)
        except (oracle.BencodeError, IndexError, ValueError) as e:
            fails.append((f"not-strict:{rcls}", r, "canonical bencoding with an integer creation date", str(e)[:200]))
            normed.append(None)
            continue
        normed.append(nb)
        for opt, expv, got in landing_errors(o, meta):
            fails.append((f"field:{opt}:{rcls}", r, {"documented field": DOC_FIELD.get(opt, opt), "value": expv}, got))
    # majority reference
    counts = {}
    for nb in normed:
        if nb is not None:
            counts[nb] = counts.get(nb, 0) + 1
    if counts:
        ref = max(counts, key=lambda b: (counts[b], -normed.index(b)))
        ref_i = normed.index(ref)
        for i, nb in enumerate(normed):
            if nb is not None and nb != ref:
                rcls = route_class(routes[i], results[i]["info"])
                fails.append((f"routes-differ:{rcls}", routes[i],
                              {"same metafile as": routes[ref_i], "diff": "see observed"},
                              {"differences": meta_diff(ref, nb)}))
    return fails


def meta_diff(a, b):
    """readable differences between two normalised metafiles (b relative to a)"""
    ma, mb = oracle.bdecode_strict(a), oracle.bdecode_strict(b)
    out = []

    def show(v):
        s = repr(v)
        return s if len(s) < 160 else s[:150] + "...(%d)" % len(s)

    def walk(x, y, path):
        if isinstance(x, dict) and isinstance(y, dict):
            for k in sorted(set(x) | set(y)):
                p = path + "/" + k.decode("utf-8", "replace")
                if k not in x:
                    out.append(f"+{p} = {show(y[k])}")
                elif k not in y:
                    out.append(f"-{p} (was {show(x[k])})")
                else:
                    walk(x[k], y[k], p)
        elif x != y:
            out.append(f"~{path}: {show(x)} -> {show(y)}")
    walk(ma, mb, "")
    return out[:12]


def case_classes(o, r, res):
    cl = []
    present = set_opts(o)
    n = len(present)
    cl.append("subset empty" if n == 0 else "subset single" if n == 1 else "subset pair" if n == 2
              else "subset full" if n == len(OPTS) else "subset 3..9")
    cl += [f"option {k}" for k in present]
    texts = [o[k] for k in ("source", "comment") if k in o]
    urls = [u for k in LIST_OPTS for u in o.get(k, [])]
    vals = texts + urls
    if any("%" in v for v in vals):
        cl.append("value with %")
    if any(v.lower() in ("true", "false") for v in texts):
        cl.append("text value true/false")
    if any(re.search(r"[#;=:\[]", v) for v in texts):
        cl.append("text with ini-special character")
    if any(not v.isascii() for v in vals):
        cl.append("non-ASCII value")
    if any("[" in u for u in urls):
        cl.append("IPv6 URL")
    if any("?" in u for u in urls):
        cl.append("URL with query string")
    if "piece-length" in o:
        cl.append("piece-length exponent" if int(o["piece-length"]) < 100 else "piece-length byte count")
    cl.append({"file": "out file", "spacefile": "out file", "dir": "out dir/", "rel": "out relative", None: "out absent"}[o.get("out")])
    ver = o.get("meta-version", "1")
    cl.append(f"meta-version {ver}" + ("" if "meta-version" in o else " (default)"))
    if o.get("align"):
        cl.append("align with v1" if ver == "1" else "align with v2/hybrid")
    if o.get("payload") == "single":
        cl.append("single-file payload")
    if o.get("explicit_false"):
        cl.append("boolean spelled false")
    if r["route"] == "cli":
        cl.append("route flag")
        inf = res["info"]
        cl.append("content " + inf["position"])
        if inf["swallowed_by"]:
            cl.append(f"content swallowed by {inf['swallowed_by']}")
            cl.append("swallowing flag last in argv" if inf["swallow_last"] else "swallowing flag followed by more flags")
        cl.append("sub-command " + (r.get("sub") or "<implicit>"))
        sp = r.get("spelling") or {}
        if any(v.startswith("-") and not v.startswith("--") for v in sp.values()):
            cl.append("short flag spelling")
        if sp.get("announce") == "--tracker":
            cl.append("alias --tracker")
        if any(sp.get(k) == ABBREV[k] for k in sp):
            cl.append("abbreviated long flag")
        if r.get("style") == "eq" and any(k in o for k in ("source", "comment", "piece-length", "meta-version", "out")):
            cl.append("--flag=value spelling")
    elif r["route"] == "config":
        cl.append("route ini")
        cl.append({"cwd": "ini found in cwd", "config-path": "ini via --config-path", "home-torrentfile": "ini in ~/.torrentfile",
                   "home-config": "ini in ~/.config/.torrentfile"}[r.get("find", "cwd")])
        if "web-seed" in o:
            cl.append("D17 class: web-seed via ini")
        if "out" in o:
            cl.append("D18 class: out via ini")
        if any("%" in v for v in vals):
            cl.append("D19 class: % via ini")
        if any(v.lower() in ("true", "false") for v in texts):
            cl.append("D20 class: true/false text via ini")
        if any(len(o.get(k, [])) > 1 for k in LIST_OPTS):
            cl.append("ini multi-line list")
    else:
        cl.append("route keyword")
        spec = res["argv"]
        kw = spec["kwargs"]
        cl.append("keyword content=" if "content" in kw else "keyword path=")
        if "meta_version" in kw:
            cl.append("keyword meta_version int" if isinstance(kw["meta_version"], int) else "keyword meta_version str")
        if isinstance(kw.get("piece_length"), int):
            cl.append("keyword piece_length int")
        cl.append("creator " + spec["cls"])
        if spec["cls"] == "TorrentAssembler" and kw.get("meta_version") == 3:
            cl.append("D21 class: meta_version=3 int keyword")
    return cl


REQUIRED = (
    ["route flag", "route ini", "route keyword", "content first", "content middle", "content last",
     "content swallowed by announce", "content swallowed by web-seed", "content swallowed by http-seed",
     "swallowing flag last in argv", "swallowing flag followed by more flags",
     "subset empty", "subset single", "subset pair", "subset full", "subset 3..9"]
    + [f"option {k}" for k in OPTS]
    + ["ini found in cwd", "ini via --config-path", "ini in ~/.torrentfile", "ini in ~/.config/.torrentfile", "ini multi-line list",
       "keyword path=", "keyword content=", "keyword meta_version int", "keyword meta_version str", "keyword piece_length int",
       "creator TorrentFile", "creator TorrentFileV2", "creator TorrentFileHybrid", "creator TorrentAssembler",
       "value with %", "text value true/false", "text with ini-special character", "non-ASCII value", "IPv6 URL",
       "URL with query string", "piece-length exponent", "piece-length byte count", "out file", "out dir/", "out relative",
       "out absent", "meta-version 1", "meta-version 2", "meta-version 3", "align with v1", "align with v2/hybrid",
       "sub-command create", "sub-command new", "sub-command <implicit>", "short flag spelling", "alias --tracker",
       "abbreviated long flag", "--flag=value spelling", "boolean spelled false", "single-file payload",
       "D17 class: web-seed via ini", "D18 class: out via ini", "D19 class: % via ini", "D20 class: true/false text via ini",
       "D21 class: meta_version=3 int keyword"])


def require_classes(ctx, required, minimum=2):
    for c in required:
        if ctx.classes.get(c, 0) < minimum:
            ctx.broken.append(f"boundary class '{c}' was hit {ctx.classes.get(c, 0)} times (< {minimum}): the run is not accepted")


# ------------------------------------------------------------------------------------------------ shrinking
def still_fails(ctx, root, o, r, ref_r, kind, tag):
    routes = [ref_r, r] if ref_r is not None and ref_r != r else [r]
    results = [run_route(root, f"{tag}_{i}", o, x) for i, x in enumerate(routes)]
    fails = judge(ctx, o, routes, results)
    return any(k == kind and fr == r for k, fr, _, _ in fails) or \
        (kind.startswith("routes-differ") and any(k.startswith("routes-differ") for k, _, _, _ in fails))


def shrink(ctx, root, o, r, ref_r, kind):
    """greedy: drop options / shorten lists while the same kind of failure stays"""
    cur = dict(o)
    n = 0
    for opt in list(set_opts(cur)) + ["explicit_false", "payload"]:
        if opt not in cur:
            continue
        trial = {k: v for k, v in cur.items() if k != opt}
        n += 1
        try:
            if still_fails(ctx, root, trial, r, ref_r, kind, f"s{id(o) % 9973}_{n}"):
                cur = trial
                continue
        except Exception:  # noqa
            pass
        if opt in LIST_OPTS and len(cur[opt]) > 1:
            for sub in ([cur[opt][0]], [cur[opt][-1]]):
                trial = dict(cur)
                trial[opt] = sub
                n += 1
                try:
                    if still_fails(ctx, root, trial, r, ref_r, kind, f"s{id(o) % 9973}_{n}"):
                        cur = trial
                        break
                except Exception:  # noqa
                    pass
    return cur


# ------------------------------------------------------------------------------------------------ PART 1 driver
def end_to_end(ctx):
    budget = 75 if ctx.tier == "quick" else 3000
    with core.Scratch("vc20_") as root:
        pdir = make_payload(root)
        before = sorted(os.listdir(pdir)), sorted(os.listdir(os.path.join(pdir, "tree")))
        recs = records(ctx)
        plan = [(i, o, routes_for(ctx, o, i)) for i, o in enumerate(recs)]
        jobs = [(i, j, o, r) for i, o, rs in plan for j, r in enumerate(rs)]
        results = {}
        stopped = False

        def work(job):
            i, j, o, r = job
            return (i, j), run_route(root, f"{i}_{j}", o, r)
        chunk = 600
        with ThreadPoolExecutor(max_workers=12) as ex:
            for s in range(0, len(jobs), chunk):
                if ctx.elapsed() > budget:
                    stopped = True
                    break
                for key, res in ex.map(work, jobs[s:s + chunk]):
                    results[key] = res
        if stopped:
            ctx.notes.append(f"end-to-end search stopped by its time budget after {len(results)} of {len(jobs)} route runs")
        seen_kinds = {}
        subsets = set()
        pairs = set()
        nruns = 0
        for i, o, rs in plan:
            have = [(r, results[(i, j)]) for j, r in enumerate(rs) if (i, j) in results]
            if len(have) < len(rs):
                continue
            routes = [r for r, _ in have]
            ress = [x for _, x in have]
            subsets.add(tuple(set_opts(o)))
            pairs.update(itertools.combinations(set_opts(o), 2))
            for j, (r, res) in enumerate(have):
                nruns += 1
                nontriv = bool(set_opts(o)) or j > 0
                ctx.case(key=(json.dumps(o, sort_keys=True), json.dumps(r, sort_keys=True)), classes=case_classes(o, r, res),
                         nontrivial=nontriv,
                         sample={"options": o, "route": r, "argv": res["argv"][:14] if isinstance(res["argv"], list) else res["argv"]}
                         if (i, j) in ((30, 3), (60, 5), (70, 1)) else None)
            for kind, r, expv, got in judge(ctx, o, routes, ress):
                ref_r = expv.get("same metafile as") if isinstance(expv, dict) else None
                if ref_r is None:
                    ref_r = next((x for x in routes if x != r), None)
                inp = {"options": o, "route": r, "reference_route": ref_r,
                       "argv": next(x["argv"] for x, rr in zip(ress, routes) if rr is r)}
                ini = next((x["info"].get("ini") for x, rr in zip(ress, routes) if rr is r and x["info"].get("ini")), None)
                if ini:
                    inp["ini"] = ini
                if kind not in seen_kinds and len(seen_kinds) < 6:
                    seen_kinds[kind] = True
                    try:
                        small = shrink(ctx, root, o, r, ref_r, kind)
                        if small != o:
                            inp["options_before_shrinking"] = o
                            inp["options"] = small
                    except Exception as e:  # noqa
                        ctx.notes.append(f"shrinking failed: {type(e).__name__}: {e}")
                ctx.fail(kind, inp, expv, got)
        after = sorted(os.listdir(pdir)), sorted(os.listdir(os.path.join(pdir, "tree")))
        if before != after:
            ctx.fail("out-location:payload-directory", {"note": "files appeared beside or inside the shared payload"}, before, after)
        ctx.extra["e2e_option_records"] = len(recs)
        ctx.extra["e2e_route_runs"] = nruns
        ctx.extra["e2e_distinct_subsets"] = len(subsets)
        ctx.extra["e2e_option_pairs_covered"] = f"{len(pairs)}/45"
        if ctx.tier == "thorough" and not stopped and len(subsets) != 1 << len(OPTS):
            ctx.broken.append(f"thorough tier covered {len(subsets)} of 1024 option subsets")
        if len(pairs) != 45 and not stopped:
            ctx.broken.append(f"only {len(pairs)} of the 45 option pairs were covered")
        if not stopped:
            require_classes(ctx, REQUIRED)


# ------------------------------------------------------------------------------------------------ PART 2 (tie)
def tie(ctx, model_ok):
    ctx.notes.append("PART 2 (tie of GenCli.v / GenConfig.v to the running parser) not wired yet")


def run(ctx, model_ok):
    os.environ["HOME"] = "/nonexistent-home"
    tie(ctx, model_ok)
    end_to_end(ctx)


# ------------------------------------------------------------------------------------------------ replay
def replay(ctx, data):
    inp = data.get("input") or {}
    if "options" not in inp or "route" not in inp:
        print(json.dumps(data, indent=1, ensure_ascii=False)[:4000])
        return 1
    o, r, ref_r = inp["options"], inp["route"], inp.get("reference_route")
    routes = ([ref_r] if ref_r and ref_r != r else []) + [r]
    with core.Scratch("vc20r_") as root:
        make_payload(root)
        results = [run_route(root, f"r{i}", o, x) for i, x in enumerate(routes)]
        fails = judge(ctx, o, routes, results)
        print("option record:", json.dumps(o, ensure_ascii=False))
        for x, res in zip(routes, results):
            print("route:", json.dumps(x, ensure_ascii=False))
            print("  argv:", json.dumps(res["argv"], ensure_ascii=False)[:1500])
            if res["info"].get("ini"):
                print("  ini:\n    " + res["info"]["ini"].replace("\n", "\n    "))
            print("  exit status", res["rc"], "new files", sorted(res["files"]), "expected", res["expected_rel"])
            if res["rc"] != 0:
                print("  stderr:", res["err"][-300:])
        for kind, fr, expv, got in fails:
            print(f"FAIL {kind}\n  expected: {json.dumps(core.jsonable(expv), ensure_ascii=False)[:600]}\n"
                  f"  observed: {json.dumps(core.jsonable(got), ensure_ascii=False)[:900]}")
        if not fails:
            print("the routes agree and every option is in its documented field: not reproduced")
        return 1 if fails else 0
