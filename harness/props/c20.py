"""C20 -- a create option means the same via command-line flag, configuration file or library keyword."""
import os
import re
import json
import time
import shutil
import itertools
import subprocess
from concurrent.futures import ThreadPoolExecutor

import core
from ref import oracle

GEN_FILES = ["GenCli.v", "GenConfig.v"]
EXTRA_TARGETS = ["Model/RoutesRun.vo"]
AREAS = []

RULE = (
    "end to end (independent of the Coq model): an option record o assigns values to a subset of the ten documented create "
    "options (announce 1-3 URLs, web-seed 1-2, http-seed 1-2, private, source, comment, piece-length as exponent or byte count, "
    "meta-version 1/2/3, out = file / directory with trailing slash / relative name / absent / a not-yet-existing file inside the content directory, inside "
    "a sub-directory of it, or a relative name with cwd = the content directory and content '.' (every route run then works on its own "
    "pristine copy of the payload, and info must list exactly the content files, never the metafile or a probe file), align); quick = the empty set, "
    "every single option (2 draws), all 45 pairs, the full set (3 draws), 16 aimed records and random subsets; thorough = all "
    "1024 subsets x 3 value draws.  Every record is turned into a metafile by three routes, each run in a FRESH interpreter "
    "with HOME and the working directory pointed at per-run scratch directories and PYTHONHASHSEED rotating over 0 / 1 / 2 / 12345 / "
    "random from route to route (metafiles that must be identical come from processes whose sets iterate differently): (a) `python -m torrentfile create|new|<implicit> ...` with "
    "the flags in canonical and permuted orders, long / short / alias (--tracker) / abbreviated / --flag=value spellings, the "
    "content path first, in the middle, last, and directly after each list-valued flag (-a/--announce/--tracker, --web-seed, "
    "--http-seed) so that argparse swallows it and MetaFile must recover it (swallowing flag last in argv and followed by more "
    "flags); (b) a torrentfile.ini with a [config] section (key order permuted, ' = ' / '=' / ': ' delimiters, key case "
    "variants, list values one per indented line or inline, true/True/TRUE) found through --config in the working directory, "
    "--config-path, ~/.torrentfile/ and ~/.config/.torrentfile/, with only the content path (and sometimes the undocumented "
    "--prog 0) on the command line; also 2 or 3 of the search locations holding a torrentfile.ini at once (cwd + ~/.torrentfile, cwd + "
    "~/.config/.torrentfile, cwd + both, ~/.torrentfile + ~/.config/.torrentfile, and --config-path while other files exist), the "
    "lower-priority files holding a record that differs in every documented key plus extra keys: the result must be the one of the "
    "documented first match (cwd, ~/.torrentfile, ~/.config) resp. of the explicit path, and commands.find_config_file itself is called "
    "on all 8 presence combinations x {no, existing, missing --config-path}; (c) TorrentFile / TorrentFileV2 / TorrentFileHybrid / TorrentAssembler(**kwargs).write() with "
    "path= or content=, meta_version as str, int or omitted (class-specific creators), piece_length as str or int, announce as "
    "list or (single URL) str, and -- whenever out is set -- one more keyword route that gives the location to write(outfile=...) instead of the "
    "constructor (file, directory form with trailing slash, relative, inside the content ...).  The CONTENT PATH is spelled differently "
    "from route to route of one record (all three routes): absolute, with a trailing separator, with '//' or '/.' appended, relative "
    "to the working directory (which has '..' segments), './relative', 'relative/', 'relative/.' ('.', './', './.' when the working "
    "directory is the content; a single file takes the spellings without a trailing part); route 0 keeps the plain absolute "
    "path, a content swallowed by a list-valued flag is never spelled plainly, and for meta-version 2 / 3 records with a list flag "
    "one more swallowed route spells it with a trailing separator (aimed records make sure both versions occur).  Each result is decoded with the reference oracle's strict bencode decoder, 'creation date' (and "
    "nothing else) is dropped, and the check requires (1) every route byte-identical to the majority result, (2) every option "
    "in its documented field and no field present that no option asked for (announce -> announce + announce-list [[all]], "
    "web-seed -> url-list, http-seed -> httpseeds, private -> info.private = 1, source / comment -> info.source / info.comment "
    "(UTF-8), piece-length -> info['piece length'] = 2^e or the byte count, meta-version -> v1 / v2 / hybrid key structure, align "
    "-> BEP 47 pad entries after every non-final file of the multi-file v1 payload and none otherwise), (3) exactly one new file, "
    "at the place `out` names (default: <cwd>/<name>.torrent).  Values left out because an ini file cannot express them or "
    "because they are outside the property's quantifier: leading/trailing white space and white-space-only values (ConfigParser "
    "strips them), continuation lines that begin with '#' or ';' (read as comments), '\\r' and NUL, non-UTF-8 bytes; values that "
    "begin with '-' are rendered only as --flag=value / -fvalue on the command line (argparse reads a separate '-x' as a flag); "
    "the implicit sub-command rendering is not combined with values that are themselves command words (cli.execute decides "
    "on `word in argv`).  tie (PART 2): the generated option table of GenCli.v/GenConfig.v vs introspection of the real argparse "
    "create sub-parser, the model's parse of generated argv vs parser.parse_args, and the model's cfg application vs "
    "parse_config_file.  Distinct = distinct (option record, route rendering); a case is non-trivial when at least one option "
    "is set or the route is not the canonical one.")
TRUSTED_BASE = [
    "Coq 8.16.1 kernel; theorems closed under the global context",
    "translator gen/gen_cli.py (cli.py create sub-parser + commands.parse_config_file -> GenCli.v / GenConfig.v), checked on every run "
    "against introspection of the real parser and against parse_args / parse_config_file on generated inputs",
    "hand model of the argparse slice (Model/ArgParse.v): exact flags, store / store_true / nargs='+', one optional positional",
    "reference oracle harness/ref/oracle.py (strict bencode decoder/encoder) for the end-to-end comparison",
    "the documented option table (README / site/overview.md / `create -h`) as transcribed in this file (DOC_FLAGS, DOC_FIELD)",
]
ASSUMPTIONS = [
    "URLs given as option values do not name existing filesystem entries (urls_are_not_paths); the content path exists",
    "ini-expressible values only (see RULE); CLI values that begin with '-' only in the attached spelling",
    "the default output location is <cwd>/<name>.torrent, as the code does on all three routes (the manual says 'adjacent to the content')",
]

OPTS = ["announce", "web-seed", "http-seed", "private", "source", "comment", "piece-length", "meta-version", "out", "align"]
LIST_OPTS = ("announce", "web-seed", "http-seed")
BOOL_OPTS = ("private", "align")
# documented spellings (site/overview.md, README, `torrentfile create -h`)
DOC_FLAGS = {
    "announce": ["--announce", "-a", "--tracker"],
    "web-seed": ["--web-seed"],
    "http-seed": ["--http-seed"],
    "private": ["--private", "-p"],
    "source": ["--source", "-s"],
    "comment": ["--comment", "-c"],
    "piece-length": ["--piece-length"],
    "meta-version": ["--meta-version"],
    "out": ["--out", "-o"],
    "align": ["--align"],
}
ABBREV = {"announce": "--announ", "web-seed": "--web", "http-seed": "--http", "private": "--priv", "source": "--sou",
          "comment": "--comm", "piece-length": "--piece", "meta-version": "--meta", "out": "--ou", "align": "--al"}
KW_NAME = {"announce": "announce", "web-seed": "url_list", "http-seed": "httpseeds", "private": "private", "source": "source",
           "comment": "comment", "piece-length": "piece_length", "meta-version": "meta_version", "out": "outfile", "align": "align"}
DOC_FIELD = {"announce": "announce + announce-list", "web-seed": "url-list", "http-seed": "httpseeds", "private": "info.private",
             "source": "info.source", "comment": "info.comment", "piece-length": "info.piece length",
             "meta-version": "v1/v2/hybrid structure", "out": "output location", "align": "info.files padding entries"}
COMMAND_WORDS = {"m", "-h", "-V", "new", "edit", "info", "check", "create", "magnet", "rename", "rebuild", "recheck"}

A_POOL = [
    "http://tracker.example/announce",
    "https://t2.example:8443/ann?passkey=abc123&x=1",
    "udp://[2001:db8::1]:6969/announce",
    "http://t.example/a%20b/announce",
    "http://t.example/%7Euser/ann?k=v%26w#frag",
    "http://[::1]:8080/announce?info=%(x)s",
    "http://tracker.example/annoncé/☃",
    "wss://tracker.example:443/;params=1",
]
W_POOL = ["ftp://ftp.example.site/content", "https://mirror.example/dl/pay%20load/", "http://[fe80::1]/files?x=y;z=1",
          "https://cdn.example/a=b/"]
H_POOL = ["https://example.url/path/to/content", "http://seed.example:8080/s%2Fd?q=1", "http://h.example/ünï"]
T_POOL = ["plain", "two words", "true", "false", "True", "FALSE", "100% pure", "50%%", "%(here)s", "a#b", "a #b ;c", "#lead",
          ";lead", "k=v", "= x", "a: b", "[config]", "ünïcödé ☃", "日本語 コメント",
          "$HOME ~ `x` \"q\" 'q' \\n", "two\nlines", "0", "1", "-dash", "x" * 300, "", "new", "info"]
PL_POOL = ["14", "15", "16", "17", "18", "16384", "32768"]
OUT_POOL = ["file", "dir", "rel", "spacefile", "in-content", "in-content-sub", "cwd-content"]
IN_CONTENT = ("in-content", "in-content-sub", "cwd-content")     # the metafile is written INSIDE the content directory

TREE = [(("a.bin",), 3000), (("b", "c.bin"), 5000), (("big.bin",), 70000), (("z e.txt",), 1)]
SINGLE = 40000

KW_RUNNER = r"""
import sys, json, io, contextlib
spec = json.loads(sys.argv[1])
from torrentfile import torrent
sink = io.StringIO()
with contextlib.redirect_stdout(sink):
    t = getattr(torrent, spec["cls"])(**spec["kwargs"])
    out, _ = t.write(**spec.get("write", {}))
print(out)
"""


# how the user spells the content path (the same directory / file every time)
CONTENT_SPELLINGS = ["absolute", "absolute/", "relative", "relative/", "./relative", "relative/.", "absolute/.", "absolute//"]
SWALLOW_SPELLINGS = ["absolute/", "relative/", "./relative", "relative/.", "absolute/.", "relative", "absolute//"]


def spell_content(content, cwd, spelling, single):
    """`content` (absolute, or '.' when the working directory is the content directory) in the given spelling; a regular file
       takes no trailing separator or '/.' (those spellings fall back to the form without it)"""
    if not spelling or spelling == "absolute":
        return content
    if content == ".":
        return {"absolute/": "./", "relative/": "./", "relative/.": "./.", "absolute/.": "./.", "absolute//": ".//"}.get(spelling, ".")
    rel = os.path.relpath(content, cwd)
    if single:
        spelling = {"absolute/": "absolute", "absolute/.": "absolute", "absolute//": "absolute", "relative/": "relative",
                    "relative/.": "./relative"}.get(spelling, spelling)
    return {"absolute": content, "absolute/": content + "/", "relative": rel, "relative/": rel + "/", "./relative": "./" + rel,
            "relative/.": rel + "/.", "absolute/.": content + "/.", "absolute//": content + "//"}[spelling]


def pbytes(n, salt):
    return bytes((i * 7 + salt) % 251 for i in range(n))


def make_payload(root):
    d = os.path.join(root, "payload")
    for i, (comps, n) in enumerate(TREE):
        p = os.path.join(d, "tree", *comps)
        os.makedirs(os.path.dirname(p), exist_ok=True)
        with open(p, "wb") as fd:
            fd.write(pbytes(n, i + 1))
    with open(os.path.join(d, "single.bin"), "wb") as fd:
        fd.write(pbytes(SINGLE, 9))
    return d


def content_of(root, o):
    return os.path.join(root, "payload", "single.bin" if o.get("payload") == "single" else "tree")


def content_name(o):
    return "single.bin" if o.get("payload") == "single" else "tree"


def is_set(o, opt):
    return opt in o


def set_opts(o):
    return [k for k in OPTS if k in o]


# ------------------------------------------------------------------------------------------------ value generation
def draw(rng, subset, aimed=None):
    """option record over `subset`; `aimed` may pin some values"""
    o = {}
    aimed = aimed or {}
    for opt in OPTS:
        if opt not in subset:
            continue
        if opt in aimed:
            o[opt] = aimed[opt]
        elif opt == "announce":
            o[opt] = rng.sample(A_POOL, rng.choice([1, 1, 2, 3]))
        elif opt == "web-seed":
            o[opt] = rng.sample(W_POOL, rng.choice([1, 2]))
        elif opt == "http-seed":
            o[opt] = rng.sample(H_POOL, rng.choice([1, 2]))
        elif opt in BOOL_OPTS:
            o[opt] = True
        elif opt in ("source", "comment"):
            o[opt] = rng.choice(T_POOL)
        elif opt == "piece-length":
            o[opt] = rng.choice(PL_POOL)
        elif opt == "meta-version":
            o[opt] = rng.choice(["1", "2", "3"])
        elif opt == "out":
            o[opt] = rng.choice(OUT_POOL)
    if "payload" in aimed:
        o["payload"] = aimed["payload"]
    elif rng.random() < 0.12:
        o["payload"] = "single"
    if o.get("out") in IN_CONTENT:
        o.pop("payload", None)
    ef = [b for b in BOOL_OPTS if b not in o and rng.random() < 0.3]
    if ef:
        o["explicit_false"] = ef       # written as `false` in the ini and as False keyword; nothing on the command line
    return o


AIMED = [
    ({"web-seed"}, {"web-seed": [W_POOL[0]]}),                                              # D17 class
    ({"web-seed", "announce"}, {"web-seed": [W_POOL[1], W_POOL[2]], "announce": [A_POOL[0]]}),
    ({"out"}, {"out": "file"}), ({"out"}, {"out": "dir"}), ({"out"}, {"out": "rel"}),       # D18 class
    ({"announce"}, {"announce": [A_POOL[3]]}),                                              # D19 class
    ({"announce", "comment"}, {"announce": [A_POOL[4], A_POOL[0]], "comment": "100% pure"}),
    ({"http-seed", "source"}, {"http-seed": [H_POOL[1]], "source": "%(here)s"}),
    ({"comment"}, {"comment": "true"}), ({"source"}, {"source": "false"}),                  # D20 class
    ({"comment", "source"}, {"comment": "False", "source": "TRUE"}),
    ({"meta-version"}, {"meta-version": "3"}),                                              # D21 class
    ({"meta-version", "align", "piece-length"}, {"meta-version": "3", "piece-length": "32768"}),
    ({"meta-version", "align"}, {"meta-version": "2"}),
    ({"out"}, {"out": "in-content", "payload": "tree"}), ({"out"}, {"out": "cwd-content", "payload": "tree"}),
    ({"out", "meta-version"}, {"out": "in-content-sub", "meta-version": "2", "payload": "tree"}),
    ({"out", "meta-version", "announce"}, {"out": "cwd-content", "meta-version": "3", "payload": "tree"}),
    ({"out", "align", "web-seed"}, {"out": "in-content", "payload": "tree"}),
    ({"out", "http-seed"}, {"out": "in-content-sub", "payload": "tree"}),
    ({"meta-version"}, {"meta-version": "1"}), ({"meta-version", "comment"}, {"meta-version": "1", "comment": "explicit default"}),
    ({"align", "piece-length"}, {"piece-length": "16384", "payload": "tree"}),
    ({"announce", "web-seed", "http-seed"}, {"announce": [A_POOL[2], A_POOL[6], A_POOL[1]], "payload": "single"}),
    # path spellings: the versions whose creators walk the directory themselves, with list flags that can swallow the content
    ({"meta-version", "announce"}, {"meta-version": "3", "announce": [A_POOL[0], A_POOL[1]], "payload": "tree"}),
    ({"meta-version", "web-seed"}, {"meta-version": "3", "payload": "tree"}),
    ({"meta-version", "http-seed", "announce"}, {"meta-version": "2", "payload": "tree"}),
    ({"meta-version", "web-seed", "out"}, {"meta-version": "2", "out": "dir", "payload": "tree"}),
    ({"out", "meta-version"}, {"out": "dir", "meta-version": "3"}), ({"out", "comment"}, {"out": "dir"}),
]


def records(ctx):
    rng = ctx.rng
    recs = []
    if ctx.tier == "thorough":
        for mask in range(1 << len(OPTS)):
            subset = {OPTS[i] for i in range(len(OPTS)) if mask >> i & 1}
            for _ in range(3):
                recs.append(draw(rng, subset))
        for subset, aimed in AIMED:
            recs.append(draw(rng, subset, aimed))
        return recs
    recs.append(draw(rng, set()))
    for opt in OPTS:
        for _ in range(2):
            recs.append(draw(rng, {opt}))
    for a, b in itertools.combinations(OPTS, 2):
        recs.append(draw(rng, {a, b}))
    for _ in range(3):
        recs.append(draw(rng, set(OPTS)))
    for subset, aimed in AIMED:
        recs.append(draw(rng, subset, aimed))
    for _ in range(30):
        recs.append(draw(rng, {x for x in OPTS if rng.random() < 0.5}))
    return recs


# ------------------------------------------------------------------------------------------------ route renderings
def ordered(o, order):
    """set options of o in the order given by `order` (missing ones appended canonically)"""
    present = set_opts(o)
    out = [x for x in (order or []) if x in present]
    return out + [x for x in present if x not in out]


def out_value(o, w):
    """(string given to the option, expected location relative to w)"""
    kind = o.get("out")
    name = content_name(o) + ".torrent"
    if kind == "file":
        return os.path.join(w, "out", "m.torrent"), os.path.join("out", "m.torrent")
    if kind == "spacefile":
        return os.path.join(w, "out", "my file.torrent"), os.path.join("out", "my file.torrent")
    if kind == "dir":
        return os.path.join(w, "out") + "/", os.path.join("out", name)
    if kind == "rel":
        return "rel.torrent", os.path.join("cwd", "rel.torrent")
    if kind == "in-content":
        return os.path.join(w, "payload", "tree", "x.torrent"), os.path.join("payload", "tree", "x.torrent")
    if kind == "in-content-sub":
        return os.path.join(w, "payload", "tree", "b", "x.torrent"), os.path.join("payload", "tree", "b", "x.torrent")
    if kind == "cwd-content":       # relative name, the working directory IS the content directory, content given as "."
        return "x.torrent", os.path.join("payload", "tree", "x.torrent")
    if kind == "decoyfile":
        return os.path.join(w, "out", "decoy.torrent"), os.path.join("out", "decoy.torrent")
    return None, os.path.join("cwd", name)


def cli_groups(o, r, w):
    groups = []
    style = r.get("style", "space")
    for opt in ordered(o, r.get("order")):
        flag = r.get("spelling", {}).get(opt) or DOC_FLAGS[opt][0]
        if opt in LIST_OPTS:
            groups.append((opt, [flag] + list(o[opt])))
        elif opt in BOOL_OPTS:
            groups.append((opt, [flag]))
        else:
            v = out_value(o, w)[0] if opt == "out" else o[opt]
            attach = style == "eq" or v.startswith("-")
            if attach and flag.startswith("--"):
                groups.append((opt, [flag + "=" + v]))
            elif attach and v and not v.startswith("="):     # argparse reads -c=v as the value v
                groups.append((opt, [flag + v]))
            else:
                groups.append((opt, [flag, v]))
    if r.get("extra"):
        groups.append(("~extra", list(r["extra"])))
    return groups


def cli_argv(o, r, w, content):
    """returns (argv, info) where info = dict(position=first|middle|last|only, swallowed_by=opt|None, swallow_last=bool)"""
    groups = cli_groups(o, r, w)
    after = r.get("content_after")
    if after is not None and any(g[0] == after for g in groups):
        pos = [g[0] for g in groups].index(after) + 1
    else:
        pos = r.get("content_at", len(groups))
        pos = max(0, min(len(groups), pos if pos >= 0 else len(groups) + 1 + pos))
    toks = [t for g in groups[:pos] for t in g[1]]
    if r.get("dashdash"):
        toks.append("--")
    toks.append(content)
    toks += [t for g in groups[pos:] for t in g[1]]
    sub = r.get("sub", "create")
    argv = ([sub] if sub else []) + toks
    sw = groups[pos - 1][0] if pos > 0 and groups[pos - 1][0] in LIST_OPTS and not r.get("dashdash") else None
    info = {"position": "only" if not groups else "first" if pos == 0 else "last" if pos == len(groups) else "middle",
            "swallowed_by": sw, "swallow_last": sw is not None and pos == len(groups)}
    return argv, info


def ini_text(o, r, w):
    delim = r.get("delim", " = ")
    case = r.get("keycase", "lower")
    truth = r.get("truth", "true")
    lines = ["[config]"]

    def key(k):
        return k.upper() if case == "upper" else k.title() if case == "title" else k
    items = ordered(o, r.get("order")) + list(o.get("explicit_false", []))
    if r.get("false_first"):
        items = list(o.get("explicit_false", [])) + ordered(o, r.get("order"))
    for opt in items:
        if opt in LIST_OPTS:
            if r.get("inline_single") and len(o[opt]) == 1:
                lines.append(key(opt) + delim + o[opt][0])
            else:
                lines.append(key(opt) + delim.rstrip())
                lines += ["    " + u for u in o[opt]]
        elif opt in BOOL_OPTS:
            lines.append(key(opt) + delim + (truth if o.get(opt) else "false"))
        else:
            v = out_value(o, w)[0] if opt == "out" else o[opt]
            lines.append(key(opt) + delim + v.replace("\n", "\n    "))
    lines += list(o.get("extra_lines", []))
    return "\n".join(lines) + "\n"


INI_LOCATIONS = ["cwd", "home-torrentfile", "home-config"]      # documented priority, first match wins


def ini_path(loc, w):
    if loc == "cwd":
        return os.path.join(w, "cwd", "torrentfile.ini")
    if loc == "config-path":
        return os.path.join(w, "conf dir", "my.ini")
    if loc == "home-torrentfile":
        return os.path.join(w, "home", ".torrentfile", "torrentfile.ini")
    return os.path.join(w, "home", ".config", ".torrentfile", "torrentfile.ini")


def decoy_of(o, k):
    """a record that differs from o in every documented key it sets; stored in a LOWER-priority configuration file"""
    ver = o.get("meta-version", "1")
    d = {"announce": [f"http://decoy{k}.example/announce", "http://decoy.example/second"], "comment": f"decoy {k}",
         "source": "DECOY", "out": "decoyfile", "meta-version": {"1": "2", "2": "3", "3": "1"}[ver],
         "web-seed": ["http://decoy.example/w"], "http-seed": ["http://decoy.example/h"],
         "piece-length": "18" if o.get("piece-length") == "17" else "17",
         "extra_lines": ["cwd = true", f"foo = bar{k}"]}
    if not o.get("private"):
        d["private"] = True
    if not o.get("align"):
        d["align"] = True
    return d


PRIORITY_COMBOS = [("cwd", ["home-torrentfile"]), ("cwd", ["home-config"]), ("cwd", ["home-torrentfile", "home-config"]),
                   ("home-torrentfile", ["home-config"]), ("config-path", ["cwd", "home-torrentfile", "home-config"]),
                   ("config-path", ["home-config"]), ("config-path", ["cwd"])]


def kw_spec(o, r, w, content):
    kwargs = {r.get("pathkw", "path"): content}
    ver = o.get("meta-version", "1")
    for opt in ordered(o, None):
        if opt == "announce":
            v = list(o[opt])
            kwargs["announce"] = v[0] if r.get("announce_as") == "str" and len(v) == 1 else v
        elif opt in ("web-seed", "http-seed"):
            kwargs[KW_NAME[opt]] = list(o[opt])
        elif opt in BOOL_OPTS:
            kwargs[opt] = True
        elif opt == "piece-length":
            kwargs["piece_length"] = int(o[opt]) if r.get("pl") == "int" else o[opt]
        elif opt == "out" and r.get("out_via") == "write":
            pass                    # given to write(outfile=...) below
        elif opt == "out":
            kwargs["outfile"] = out_value(o, w)[0]
        elif opt == "meta-version":
            pass
        else:
            kwargs[opt] = o[opt]
    for b in o.get("explicit_false", []):
        kwargs[b] = False
    cls = r.get("cls", "auto")
    if cls == "auto":
        cls = "TorrentFile" if ver == "1" else "TorrentAssembler"
    elif cls == "class":
        cls = {"1": "TorrentFile", "2": "TorrentFileV2", "3": "TorrentFileHybrid"}[ver]
    mv = r.get("mv", "str")
    if cls == "TorrentAssembler" and mv == "omit":
        mv = "str"          # the assembler has no other way to learn the version
    if mv == "omit" or ("meta-version" not in o and cls == "TorrentFile" and mv != "int"):
        pass
    else:
        kwargs["meta_version"] = int(ver) if mv == "int" else ver
    if r.get("progress") is not None:
        kwargs["progress"] = r["progress"]
    spec = {"cls": cls, "kwargs": kwargs}
    if "out" in o and r.get("out_via") == "write":
        spec["write"] = {"outfile": out_value(o, w)[0]}
    return spec


HASH_SEEDS = ["0", "1", "2", "12345", "random"]


def route_class(r, info=None):
    if r["route"] == "cli":
        return "cli-swallowed" if info and info.get("swallowed_by") else "cli"
    if r["route"] == "config" and r.get("decoys"):
        return "config-priority"
    return r["route"]


def routes_for(ctx, o, idx):
    """the route renderings tried for record o"""
    rng = ctx.rng
    present = set_opts(o)
    thorough = ctx.tier == "thorough"
    words = any(isinstance(v, str) and v in COMMAND_WORDS for v in o.values())
    rs = []

    def perm():
        p = list(present)
        rng.shuffle(p)
        return p

    def spell(kind):
        if kind == "short":
            return {k: DOC_FLAGS[k][1] for k in present if len(DOC_FLAGS[k]) > 1}
        if kind == "alias":
            return {k: DOC_FLAGS[k][-1] for k in present}
        if kind == "abbrev":
            return {k: ABBREV[k] for k in present}
        if kind == "random":
            return {k: rng.choice(DOC_FLAGS[k]) for k in present}
        return {}
    # (a) command line
    rs.append({"route": "cli", "order": list(present), "content_at": -1, "sub": "create"})
    rs.append({"route": "cli", "order": perm(), "content_at": 0, "sub": "new", "spelling": spell("short")})
    if len(present) >= 2:
        p = perm()
        cand = [i for i in range(1, len(p)) if p[i - 1] not in LIST_OPTS] or [rng.randrange(1, len(p))]
        rs.append({"route": "cli", "order": p, "content_at": rng.choice(cand), "sub": "create", "style": "eq",
                   "spelling": spell("random"), "extra": ["--prog", "0"] if rng.random() < 0.4 else None})
    for j, lopt in enumerate([x for x in LIST_OPTS if x in present]):
        others = [x for x in perm() if x != lopt]
        variants = [True, False] if thorough or len(present) <= 3 else [(idx + j) % 2 == 0]
        for last in variants:
            if last or not others:
                order = others + [lopt]
            else:
                k = rng.randrange(0, len(others))
                order = others[:k] + [lopt] + others[k:]
            rs.append({"route": "cli", "order": order, "content_after": lopt, "sub": rng.choice(["create", "new"]),
                       "spelling": spell("random")})
    if thorough or idx % 5 == 0:
        rs.append({"route": "cli", "order": perm(), "content_at": rng.randrange(0, len(present) + 1), "sub": "create",
                   "spelling": spell("abbrev")})
    if (thorough or idx % 5 == 1) and not words:
        rs.append({"route": "cli", "order": perm(), "content_at": rng.randrange(0, len(present) + 1), "sub": "",
                   "spelling": spell("alias")})
    if thorough:
        rs.append({"route": "cli", "order": perm(), "content_at": rng.randrange(0, len(present) + 1), "sub": "create",
                   "spelling": spell("random"), "style": rng.choice(["space", "eq"])})
        if 1 <= len(present) <= 3:
            for pos in range(len(present) + 1):
                rs.append({"route": "cli", "order": list(present), "content_at": pos, "sub": "create"})
    # (b) configuration file
    finds = ["cwd", "config-path", "home-torrentfile", "home-config"]
    chosen = finds if thorough else [finds[(2 * idx) % 4], finds[(2 * idx + 1 + (idx // 2) % 2 * 2) % 4]]
    for j, f in enumerate(chosen):
        rs.append({"route": "config", "find": f, "order": perm() if j else list(present),
                   "delim": [" = ", "=", ": ", " = "][(idx + j) % 4], "keycase": ["lower", "lower", "title", "upper"][(idx + 2 * j) % 4],
                   "truth": ["true", "True", "TRUE"][(idx + j) % 3], "inline_single": (idx + j) % 2 == 0,
                   "argv_shape": ["content-last", "content-first", "content-middle"][(idx + j) % 3],
                   "extra": ["--prog", "0"] if (idx + j) % 4 == 3 else None, "sub": ["create", "new"][(idx + j) % 2],
                   "false_first": j == 1})
    # several configuration files at once: the highest-priority existing one (or the explicit --config-path) must win
    combos = PRIORITY_COMBOS if thorough else [PRIORITY_COMBOS[idx % 5]] + ([PRIORITY_COMBOS[5 + idx % 2]] if idx % 4 == 0 else [])
    for j, (f, lower) in enumerate(combos):
        rs.append({"route": "config", "find": f, "order": perm(), "delim": [" = ", "=", ": "][(idx + j) % 3],
                   "keycase": "lower", "truth": "true", "inline_single": (idx + j) % 2 == 1,
                   "argv_shape": ["content-last", "content-first"][(idx + j) % 2], "sub": "create",
                   "decoys": {loc: decoy_of(o, n + 1) for n, loc in enumerate(lower)}})
    # (c) keywords
    ver = o.get("meta-version", "1")
    rs.append({"route": "keyword", "cls": "auto", "pathkw": "path", "mv": "str", "pl": "str", "announce_as": "list"})
    rs.append({"route": "keyword", "cls": "auto", "pathkw": "content", "mv": "int", "pl": "int", "announce_as": "str",
               "progress": 0})
    if ver != "1":
        rs.append({"route": "keyword", "cls": "class", "pathkw": "path", "mv": ["omit", "int", "str"][idx % 3], "pl": "int",
                   "announce_as": "list"})
    elif thorough:
        rs.append({"route": "keyword", "cls": "class", "pathkw": "content", "mv": "omit", "pl": "str", "announce_as": "list"})
    if "out" in o:
        # the library also takes the output location at write time: write(outfile=...) must mean what outfile= in the constructor means
        rs.append({"route": "keyword", "cls": ["auto", "class"][idx % 2], "pathkw": ["path", "content"][(idx // 2) % 2], "mv": "str",
                   "pl": "str", "announce_as": "list", "out_via": "write"})
    # the content path is spelled differently from route to route (trailing separator, relative to the working directory with '..'
    # segments, './x', 'x/.', '//'): route 0 keeps the plain absolute path; a swallowed content is never spelled plainly; for the
    # versions whose creators walk the directory themselves one more swallowed route spells it with a trailing separator
    lopts = [x for x in LIST_OPTS if x in present]
    if ver != "1" and lopts:
        lopt = lopts[idx % len(lopts)]
        rs.append({"route": "cli", "order": [x for x in perm() if x != lopt] + [lopt], "content_after": lopt, "sub": "create",
                   "content_spelling": ["absolute/", "relative/"][idx % 2]})
    nsw = 0
    for k, r in enumerate(rs):
        if k == 0 or "content_spelling" in r:
            continue
        if r["route"] == "cli" and r.get("content_after") is not None:
            r["content_spelling"] = SWALLOW_SPELLINGS[(idx + nsw) % len(SWALLOW_SPELLINGS)]
            nsw += 1
        else:
            r["content_spelling"] = CONTENT_SPELLINGS[(3 * idx + k) % len(CONTENT_SPELLINGS)]
    # every route runs in a fresh interpreter of its own: the seed of its string hashes (PYTHONHASHSEED) rotates over the routes of
    # a record, so that metafiles which must be identical are written by processes whose sets iterate in different orders
    for k, r in enumerate(rs):
        r["hashseed"] = HASH_SEEDS[(idx + k) % len(HASH_SEEDS)]
    return rs


# ------------------------------------------------------------------------------------------------ running one route
def run_route(root, tag, o, r):
    w = os.path.join(root, f"w{tag}")
    for d in ("cwd", "home", "out"):
        os.makedirs(os.path.join(w, d))
    cwd, home = os.path.join(w, "cwd"), os.path.join(w, "home")
    content = content_of(root, o)
    inside = o.get("out") in IN_CONTENT and o.get("payload") != "single"
    if inside:
        # the metafile lands in the payload: every route run gets its own pristine copy
        content = os.path.join(w, "payload", "tree")
        shutil.copytree(os.path.join(root, "payload", "tree"), content)
        if o["out"] == "cwd-content":
            cwd, content = content, "."
    if r.get("content_relative"):
        content = os.path.relpath(content, cwd)
    content = spell_content(content, cwd, r.get("content_spelling"), o.get("payload") == "single")
    expected_rel = out_value(o, w)[1]
    mine = set()
    info = {}
    if r["route"] == "cli":
        argv, info = cli_argv(o, r, w, content)
        cmd = [core.PY, "-m", "torrentfile"] + argv
    elif r["route"] == "config":
        text = ini_text(o, r, w)
        f = r.get("find", "cwd")
        if f == "cwd" and cwd != os.path.join(w, "cwd"):
            f = "config-path"       # an ini inside the content directory would be part of the payload
        ini = ini_path(f, w)
        os.makedirs(os.path.dirname(ini), exist_ok=True)
        with open(ini, "w", encoding="utf-8") as fd:
            fd.write(text)
        mine.add(os.path.relpath(ini, w))
        decoy_texts = {}
        for loc, drec in (r.get("decoys") or {}).items():
            dp = ini_path(loc, w)
            if dp == ini or (loc == "cwd" and cwd != os.path.join(w, "cwd")):
                continue
            os.makedirs(os.path.dirname(dp), exist_ok=True)
            decoy_texts[loc] = ini_text(drec, {"delim": r.get("delim", " = ")}, w)
            with open(dp, "w", encoding="utf-8") as fd:
                fd.write(decoy_texts[loc])
            mine.add(os.path.relpath(dp, w))
        flags = ["--config"] + (["--config-path", ini] if f == "config-path" else [])
        extra = list(r.get("extra") or [])
        shape = r.get("argv_shape", "content-last")
        if shape == "content-first":
            toks = [content] + flags + extra
        elif shape == "content-middle":
            toks = ["--config", content] + flags[1:] + extra
        else:
            toks = extra + flags + [content]
        argv = [r.get("sub", "create")] + toks
        cmd = [core.PY, "-m", "torrentfile"] + argv
        info = {"ini": text}
        if decoy_texts:
            info["lower_priority_ini"] = decoy_texts
    else:
        spec = kw_spec(o, r, w, content)
        argv = spec
        cmd = [core.PY, "-c", KW_RUNNER, json.dumps(spec)]
    for dp, _, fns in os.walk(w):
        mine.update(os.path.relpath(os.path.join(dp, n), w) for n in fns)
    try:
        p = subprocess.run(cmd, cwd=cwd, env=core.impl_env({"HOME": home, "PYTHONUTF8": "1", "PYTHONHASHSEED": str(r.get("hashseed", "0"))}),
                           capture_output=True, timeout=180)
        rc, err = p.returncode, p.stderr.decode("utf-8", "replace")[-600:]
    except subprocess.TimeoutExpired:
        rc, err = -999, "timeout"
    files = {}
    for dp, _, fns in os.walk(w):
        for n in fns:
            rel = os.path.relpath(os.path.join(dp, n), w)
            if rel not in mine:
                with open(os.path.join(dp, n), "rb") as fd:
                    files[rel] = fd.read()
    shutil.rmtree(w, ignore_errors=True)
    return {"rc": rc, "err": err, "files": files, "expected_rel": expected_rel, "argv": argv, "info": info}


# ------------------------------------------------------------------------------------------------ judging
def normalise(raw):
    """strict decode, drop 'creation date' (only), re-encode canonically -> (meta, bytes) or raises"""
    meta = oracle.bdecode_strict(raw)
    if not isinstance(meta, dict):
        raise oracle.BencodeError("top level is not a dictionary")
    if not isinstance(meta.get(b"creation date"), int):
        raise oracle.BencodeError("creation date missing or not an integer")
    m = dict(meta)
    del m[b"creation date"]
    return meta, oracle.bencode(m)


def norm_pl(s):
    n = int(s)
    return 2 ** n if n < 100 else n


def landing_errors(o, meta):
    """list of (option, expected, observed) for options that are not in their documented field"""
    errs = []
    info = meta.get(b"info")
    if not isinstance(info, dict):
        return [("meta-version", "an info dictionary", repr(type(info)))]

    def enc(s):
        return s.encode("utf-8")

    def want(opt, where, key, value):
        got = where.get(key)
        if got != value:
            errs.append((opt, {key.decode(): value}, {key.decode(): got}))
    if "announce" in o:
        want("announce", meta, b"announce", enc(o["announce"][0]))
        want("announce", meta, b"announce-list", [[enc(u) for u in o["announce"]]])
    else:
        want("announce", meta, b"announce", None)
        want("announce", meta, b"announce-list", None)
    want("web-seed", meta, b"url-list", [enc(u) for u in o["web-seed"]] if "web-seed" in o else None)
    want("http-seed", meta, b"httpseeds", [enc(u) for u in o["http-seed"]] if "http-seed" in o else None)
    want("private", info, b"private", 1 if o.get("private") else None)
    want("source", info, b"source", enc(o["source"]) if o.get("source") else None)
    want("comment", info, b"comment", enc(o["comment"]) if o.get("comment") else None)
    pl = info.get(b"piece length")
    if "piece-length" in o:
        want("piece-length", info, b"piece length", norm_pl(o["piece-length"]))
    elif not (isinstance(pl, int) and pl >= 16384 and pl & (pl - 1) == 0):
        errs.append(("piece-length", "automatic power of two >= 16384", pl))
    ver = o.get("meta-version", "1")
    single = o.get("payload") == "single"
    v1, v2 = ver in ("1", "3"), ver in ("2", "3")
    shape = {"pieces": b"pieces" in info, "file tree": b"file tree" in info, "meta version": info.get(b"meta version"),
             "piece layers": b"piece layers" in meta, "files": b"files" in info}
    exp = {"pieces": v1, "file tree": v2, "meta version": 2 if v2 else None, "piece layers": v2, "files": v1 and not single}
    if shape != exp:
        errs.append(("meta-version", exp, shape))
    want("meta-version", info, b"name", enc(content_name(o)))
    top = {b"created by", b"creation date", b"info"} | ({b"announce", b"announce-list"} if "announce" in o else set()) \
        | ({b"url-list"} if "web-seed" in o else set()) | ({b"httpseeds"} if "http-seed" in o else set()) \
        | ({b"piece layers"} if v2 else set())
    specific = len(errs)
    if set(meta) != top and not specific:
        errs.append(("(top-level keys)", sorted(k.decode() for k in top), sorted(k.decode("utf-8", "replace") for k in meta)))
    ik = {b"name", b"piece length"} | ({b"pieces"} if v1 else set()) | ({b"file tree", b"meta version"} if v2 else set()) \
        | ({b"files"} if v1 and not single else set()) | ({b"length"} if single else set()) \
        | ({b"private"} if o.get("private") else set()) | ({b"source"} if o.get("source") else set()) \
        | ({b"comment"} if o.get("comment") else set())
    if set(info) != ik and not specific:
        errs.append(("(info keys)", sorted(k.decode() for k in ik), sorted(k.decode("utf-8", "replace") for k in info)))
    # the payload as listed: exactly the content files (never the metafile itself, a probe file or a configuration file)
    if not single:
        real_paths = sorted(tuple(c.encode() for c in comps) for comps, _ in TREE)
        if isinstance(info.get(b"files"), list):
            listed = sorted(tuple(f.get(b"path", [])) for f in info[b"files"] if isinstance(f, dict) and b"attr" not in f)
            if listed != real_paths:
                errs.append(("out", {"info.files lists exactly": ["/".join(map(bytes.decode, p)) for p in real_paths]},
                             {"info.files": ["/".join(x.decode("utf-8", "replace") for x in p) for p in listed]}))
        if isinstance(info.get(b"file tree"), dict):
            leaves = []

            def walk(node, pre):
                for k, v in node.items():
                    if k == b"" and isinstance(v, dict):
                        leaves.append(pre)
                    elif isinstance(v, dict):
                        walk(v, pre + (k,))
            walk(info[b"file tree"], ())
            if sorted(leaves) != real_paths:
                errs.append(("out", {"info['file tree'] lists exactly": ["/".join(map(bytes.decode, p)) for p in real_paths]},
                             {"file tree": ["/".join(x.decode("utf-8", "replace") for x in p) for p in sorted(leaves)]}))
    # align: v1 multi-file only
    files = info.get(b"files")
    if ver == "1" and not single and isinstance(files, list) and isinstance(pl, int) and pl > 0:
        real = [(tuple(c.encode() for c in comps), n) for comps, n in TREE]
        got_real = [(tuple(f.get(b"path", [])), f.get(b"length")) for f in files if b"attr" not in f]
        if sorted(got_real) != sorted(real):
            errs.append(("align", {"payload files": [list(map(bytes.decode, p)) for p, _ in real]}, {"files": repr(got_real)[:300]}))
        pads = [f for f in files if f.get(b"attr") == b"p"]
        if not o.get("align"):
            if pads:
                errs.append(("align", "no padding entries", f"{len(pads)} padding entries"))
        else:
            for i, f in enumerate(files):
                if b"attr" in f:
                    continue
                last_real = not any(b"attr" not in g for g in files[i + 1:])
                need = -f.get(b"length", 0) % pl
                nxt = files[i + 1] if i + 1 < len(files) else None
                if need and not last_real:
                    if not (nxt and nxt.get(b"attr") == b"p" and nxt.get(b"length") == need):
                        errs.append(("align", f"padding entry of {need} bytes after {f.get(b'path')}", repr(nxt)[:200]))
                        break
    return errs


def judge(ctx, o, routes, results, quiet=False):
    """returns list of failures (kind, route index, expected, observed)"""
    fails = []
    normed = []
    for r, res in zip(routes, results):
        rcls = route_class(r, res["info"])
        tf = {k: v for k, v in res["files"].items()}
        raw = None
        if res["rc"] != 0 or not tf:
            fails.append((f"route-error:{rcls}", r, "exit status 0 and one metafile written",
                          {"rc": res["rc"], "stderr": res["err"][-400:], "files": sorted(tf)}))
        if set(tf) != {res["expected_rel"]}:
            if res["rc"] == 0 and tf:
                fails.append((f"out-location:{rcls}", r, {"new files": [res["expected_rel"]]}, {"new files": sorted(tf)}))
        if res["expected_rel"] in tf:
            raw = tf[res["expected_rel"]]
        elif len(tf) == 1:
            raw = next(iter(tf.values()))
        if raw is None:
            normed.append(None)
            continue
        try:
            meta, nb = normalise(raw)
        except (oracle.BencodeError, IndexError, ValueError) as e:
            fails.append((f"not-strict:{rcls}", r, "canonical bencoding with an integer creation date", str(e)[:200]))
            normed.append(None)
            continue
        normed.append(nb)
        for opt, expv, got in landing_errors(o, meta):
            fails.append((f"field:{opt}:{rcls}", r, {"documented field": DOC_FIELD.get(opt, opt), "value": expv}, got))
    # majority reference
    counts = {}
    for nb in normed:
        if nb is not None:
            counts[nb] = counts.get(nb, 0) + 1
    if counts:
        ref = max(counts, key=lambda b: (counts[b], -normed.index(b)))
        ref_i = normed.index(ref)
        for i, nb in enumerate(normed):
            if nb is not None and nb != ref:
                rcls = route_class(routes[i], results[i]["info"])
                fails.append((f"routes-differ:{rcls}", routes[i],
                              {"same metafile as": routes[ref_i], "diff": "see observed"},
                              {"differences": meta_diff(ref, nb)}))
    return fails


def meta_diff(a, b):
    """readable differences between two normalised metafiles (b relative to a)"""
    ma, mb = oracle.bdecode_strict(a), oracle.bdecode_strict(b)
    out = []

    def show(v):
        s = repr(v)
        return s if len(s) < 160 else s[:150] + "...(%d)" % len(s)

    def walk(x, y, path):
        if isinstance(x, dict) and isinstance(y, dict):
            for k in sorted(set(x) | set(y)):
                p = path + "/" + k.decode("utf-8", "replace")
                if k not in x:
                    out.append(f"+{p} = {show(y[k])}")
                elif k not in y:
                    out.append(f"-{p} (was {show(x[k])})")
                else:
                    walk(x[k], y[k], p)
        elif x != y:
            out.append(f"~{path}: {show(x)} -> {show(y)}")
    walk(ma, mb, "")
    return out[:12]


def case_classes(o, r, res):
    cl = []
    present = set_opts(o)
    n = len(present)
    cl.append("subset empty" if n == 0 else "subset single" if n == 1 else "subset pair" if n == 2
              else "subset full" if n == len(OPTS) else "subset 3..9")
    cl += [f"option {k}" for k in present]
    texts = [o[k] for k in ("source", "comment") if k in o]
    urls = [u for k in LIST_OPTS for u in o.get(k, [])]
    vals = texts + urls
    if any("%" in v for v in vals):
        cl.append("value with %")
    if any(v.lower() in ("true", "false") for v in texts):
        cl.append("text value true/false")
    if any(re.search(r"[#;=:\[]", v) for v in texts):
        cl.append("text with ini-special character")
    if any(not v.isascii() for v in vals):
        cl.append("non-ASCII value")
    if any("[" in u for u in urls):
        cl.append("IPv6 URL")
    if any("?" in u for u in urls):
        cl.append("URL with query string")
    if "piece-length" in o:
        cl.append("piece-length exponent" if int(o["piece-length"]) < 100 else "piece-length byte count")
    cl.append({"file": "out file", "spacefile": "out file", "dir": "out dir/", "rel": "out relative", None: "out absent",
               "in-content": "out inside the content directory", "in-content-sub": "out inside a sub-directory of the content",
               "cwd-content": "out relative with cwd = content directory and content '.'"}[o.get("out")])
    ver = o.get("meta-version", "1")
    spelled = r.get("content_spelling") or "absolute"
    if o.get("out") == "cwd-content" and o.get("payload") != "single":
        spelled = "'.' forms"
    elif o.get("payload") == "single" and spelled not in ("absolute", "relative", "./relative"):
        spelled = "absolute" if spelled.startswith("absolute") else "relative"
    cl.append("content spelled " + spelled)
    cl.append(f"meta-version {ver}" + ("" if "meta-version" in o else " (default)"))
    if o.get("align"):
        cl.append("align with v1" if ver == "1" else "align with v2/hybrid")
    if o.get("payload") == "single":
        cl.append("single-file payload")
    if o.get("explicit_false"):
        cl.append("boolean spelled false")
    if r["route"] == "cli":
        cl.append("route flag")
        inf = res["info"]
        cl.append("content " + inf["position"])
        if inf["swallowed_by"]:
            cl.append(f"content swallowed by {inf['swallowed_by']}")
            cl.append("swallowing flag last in argv" if inf["swallow_last"] else "swallowing flag followed by more flags")
            if spelled.endswith("/"):
                cl.append("swallowed content spelled with a trailing separator")
                cl.append(f"swallowed content with a trailing separator, meta-version {ver}")
            elif spelled != "absolute":
                cl.append("swallowed content spelled relative or with '.' segments")
        cl.append("sub-command " + (r.get("sub") or "<implicit>"))
        sp = r.get("spelling") or {}
        if any(v.startswith("-") and not v.startswith("--") for v in sp.values()):
            cl.append("short flag spelling")
        if sp.get("announce") == "--tracker":
            cl.append("alias --tracker")
        if any(sp.get(k) == ABBREV[k] for k in sp):
            cl.append("abbreviated long flag")
        if r.get("style") == "eq" and any(k in o for k in ("source", "comment", "piece-length", "meta-version", "out")):
            cl.append("--flag=value spelling")
    elif r["route"] == "config":
        cl.append("route ini")
        cl.append({"cwd": "ini found in cwd", "config-path": "ini via --config-path", "home-torrentfile": "ini in ~/.torrentfile",
                   "home-config": "ini in ~/.config/.torrentfile"}[r.get("find", "cwd")])
        if r.get("decoys"):
            locs = sorted(r["decoys"])
            if r.get("find") == "config-path":
                cl.append("--config-path while other ini files exist")
            else:
                cl.append("ini priority: " + r["find"] + " over " + " + ".join(locs))
        if o.get("meta-version") == "1":
            cl.append("ini writes the default meta-version = 1 explicitly")
        if "web-seed" in o:
            cl.append("D17 class: web-seed via ini")
        if "out" in o:
            cl.append("D18 class: out via ini")
        if any("%" in v for v in vals):
            cl.append("D19 class: % via ini")
        if any(v.lower() in ("true", "false") for v in texts):
            cl.append("D20 class: true/false text via ini")
        if any(len(o.get(k, [])) > 1 for k in LIST_OPTS):
            cl.append("ini multi-line list")
    else:
        cl.append("route keyword")
        spec = res["argv"]
        kw = spec["kwargs"]
        cl.append("keyword content=" if "content" in kw else "keyword path=")
        if "meta_version" in kw:
            cl.append("keyword meta_version int" if isinstance(kw["meta_version"], int) else "keyword meta_version str")
        if isinstance(kw.get("piece_length"), int):
            cl.append("keyword piece_length int")
        cl.append("creator " + spec["cls"])
        if "write" in spec:
            cl.append("keyword outfile via write()")
            if o.get("out") == "dir":
                cl.append("keyword outfile via write(): directory form")
        if spec["cls"] == "TorrentAssembler" and kw.get("meta_version") == 3:
            cl.append("D21 class: meta_version=3 int keyword")
    return cl


REQUIRED = (
    ["route flag", "route ini", "route keyword", "content first", "content middle", "content last",
     "content swallowed by announce", "content swallowed by web-seed", "content swallowed by http-seed",
     "swallowing flag last in argv", "swallowing flag followed by more flags",
     "subset empty", "subset single", "subset pair", "subset full", "subset 3..9"]
    + [f"option {k}" for k in OPTS]
    + ["ini found in cwd", "ini via --config-path", "ini in ~/.torrentfile", "ini in ~/.config/.torrentfile", "ini multi-line list",
       "keyword path=", "keyword content=", "keyword meta_version int", "keyword meta_version str", "keyword piece_length int",
       "creator TorrentFile", "creator TorrentFileV2", "creator TorrentFileHybrid", "creator TorrentAssembler",
       "value with %", "text value true/false", "text with ini-special character", "non-ASCII value", "IPv6 URL",
       "URL with query string", "piece-length exponent", "piece-length byte count", "out file", "out dir/", "out relative",
       "out absent", "meta-version 1", "meta-version 2", "meta-version 3", "align with v1", "align with v2/hybrid",
       "sub-command create", "sub-command new", "sub-command <implicit>", "short flag spelling", "alias --tracker",
       "abbreviated long flag", "--flag=value spelling", "boolean spelled false", "single-file payload",
       "D17 class: web-seed via ini", "D18 class: out via ini", "D19 class: % via ini", "D20 class: true/false text via ini",
       "D21 class: meta_version=3 int keyword",
       "ini priority: cwd over home-torrentfile", "ini priority: cwd over home-config",
       "ini priority: cwd over home-config + home-torrentfile", "ini priority: home-torrentfile over home-config",
       "--config-path while other ini files exist", "ini writes the default meta-version = 1 explicitly",
       "find_config_file: presence combination", "out inside the content directory",
       "out inside a sub-directory of the content", "out relative with cwd = content directory and content '.'",
       "keyword outfile via write()", "keyword outfile via write(): directory form",
       "swallowed content spelled with a trailing separator", "swallowed content spelled relative or with '.' segments",
       "swallowed content with a trailing separator, meta-version 2", "swallowed content with a trailing separator, meta-version 3"]
    + ["content spelled " + x for x in CONTENT_SPELLINGS])


def require_classes(ctx, required, minimum=2):
    for c in required:
        if ctx.classes.get(c, 0) < minimum:
            ctx.broken.append(f"boundary class '{c}' was hit {ctx.classes.get(c, 0)} times (< {minimum}): the run is not accepted")


# ------------------------------------------------------------------------------------------------ shrinking
def still_fails(ctx, root, o, r, ref_r, kind, tag):
    routes = [ref_r, r] if ref_r is not None and ref_r != r else [r]
    results = [run_route(root, f"{tag}_{i}", o, x) for i, x in enumerate(routes)]
    fails = judge(ctx, o, routes, results)
    return any(k == kind and fr == r for k, fr, _, _ in fails) or \
        (kind.startswith("routes-differ") and any(k.startswith("routes-differ") for k, _, _, _ in fails))


def shrink(ctx, root, o, r, ref_r, kind):
    """greedy: drop options / shorten lists while the same kind of failure stays"""
    cur = dict(o)
    n = 0
    for opt in list(set_opts(cur)) + ["explicit_false", "payload"]:
        if opt not in cur:
            continue
        trial = {k: v for k, v in cur.items() if k != opt}
        n += 1
        try:
            if still_fails(ctx, root, trial, r, ref_r, kind, f"s{id(o) % 9973}_{n}"):
                cur = trial
                continue
        except Exception:  # noqa
            pass
        if opt in LIST_OPTS and len(cur[opt]) > 1:
            for sub in ([cur[opt][0]], [cur[opt][-1]]):
                trial = dict(cur)
                trial[opt] = sub
                n += 1
                try:
                    if still_fails(ctx, root, trial, r, ref_r, kind, f"s{id(o) % 9973}_{n}"):
                        cur = trial
                        break
                except Exception:  # noqa
                    pass
    return cur


# ------------------------------------------------------------------------------------------------ PART 1 driver
def end_to_end(ctx):
    budget = 75 if ctx.tier == "quick" else 3000     # seconds of this search (not of the Coq build before it)
    t_start = time.time()
    with core.Scratch("vc20_") as root:
        pdir = make_payload(root)
        before = sorted(os.listdir(pdir)), sorted(os.listdir(os.path.join(pdir, "tree")))
        recs = records(ctx)
        plan = [(i, o, routes_for(ctx, o, i)) for i, o in enumerate(recs)]
        jobs = [(i, j, o, r) for i, o, rs in plan for j, r in enumerate(rs)]
        results = {}
        stopped = False

        def work(job):
            i, j, o, r = job
            return (i, j), run_route(root, f"{i}_{j}", o, r)
        chunk = 600
        with ThreadPoolExecutor(max_workers=12) as ex:
            for s in range(0, len(jobs), chunk):
                if time.time() - t_start > budget:
                    stopped = True
                    break
                for key, res in ex.map(work, jobs[s:s + chunk]):
                    results[key] = res
        if stopped:
            ctx.notes.append(f"end-to-end search stopped by its time budget after {len(results)} of {len(jobs)} route runs")
        seen_kinds = {}
        subsets = set()
        pairs = set()
        nruns = 0
        for i, o, rs in plan:
            have = [(r, results[(i, j)]) for j, r in enumerate(rs) if (i, j) in results]
            if len(have) < len(rs):
                continue
            routes = [r for r, _ in have]
            ress = [x for _, x in have]
            subsets.add(tuple(set_opts(o)))
            pairs.update(itertools.combinations(set_opts(o), 2))
            for j, (r, res) in enumerate(have):
                nruns += 1
                nontriv = bool(set_opts(o)) or j > 0
                ctx.case(key=(json.dumps(o, sort_keys=True), json.dumps(r, sort_keys=True)), classes=case_classes(o, r, res),
                         nontrivial=nontriv,
                         sample={"options": o, "route": r, "argv": res["argv"][:14] if isinstance(res["argv"], list) else res["argv"]}
                         if (i, j) in ((30, 3), (60, 5), (70, 1)) else None)
            for kind, r, expv, got in judge(ctx, o, routes, ress):
                ref_r = expv.get("same metafile as") if isinstance(expv, dict) else None
                if ref_r is None:
                    ref_r = next((x for x in routes if x != r), None)
                inp = {"options": o, "route": r, "reference_route": ref_r,
                       "argv": next(x["argv"] for x, rr in zip(ress, routes) if rr is r)}
                ini = next((x["info"].get("ini") for x, rr in zip(ress, routes) if rr is r and x["info"].get("ini")), None)
                if ini:
                    inp["ini"] = ini
                low = next((x["info"].get("lower_priority_ini") for x, rr in zip(ress, routes) if rr is r), None)
                if low:
                    inp["lower_priority_ini"] = low
                if kind not in seen_kinds and len(seen_kinds) < 6:
                    seen_kinds[kind] = True
                    try:
                        small = shrink(ctx, root, o, r, ref_r, kind)
                        if small != o:
                            inp["options_before_shrinking"] = o
                            inp["options"] = small
                    except Exception as e:  # noqa
                        ctx.notes.append(f"shrinking failed: {type(e).__name__}: {e}")
                ctx.fail(kind, inp, expv, got)
        after = sorted(os.listdir(pdir)), sorted(os.listdir(os.path.join(pdir, "tree")))
        if before != after:
            ctx.fail("out-location:payload-directory", {"note": "files appeared beside or inside the shared payload"}, before, after)
        ctx.extra["e2e_option_records"] = len(recs)
        ctx.extra["e2e_route_runs"] = nruns
        ctx.extra["e2e_distinct_subsets"] = len(subsets)
        ctx.extra["e2e_option_pairs_covered"] = f"{len(pairs)}/45"
        if ctx.tier == "thorough" and not stopped and len(subsets) != 1 << len(OPTS):
            ctx.broken.append(f"thorough tier covered {len(subsets)} of 1024 option subsets")
        if len(pairs) != 45 and not stopped:
            ctx.broken.append(f"only {len(pairs)} of the 45 option pairs were covered")
        if not stopped:
            require_classes(ctx, REQUIRED)


# ------------------------------------------------------------------------------------------------ PART 2 (tie)
PREAMBLE = r'''
From Coq Require Import String List Bool Ascii Arith.
From TF Require Import Model.ArgParse Model.Routes Gen.GenCli Gen.GenConfig Model.RoutesRun.
Import ListNotations.
Open Scope string_scope.
Fixpoint strs_eq (a b : list string) : bool :=
  match a, b with [], [] => true | x :: r, y :: s => String.eqb x y && strs_eq r s | _, _ => false end.
Fixpoint strss_eq (a b : list (list string)) : bool :=
  match a, b with [], [] => true | x :: r, y :: s => strs_eq x y && strss_eq r s | _, _ => false end.
Definition val_eq (a b : value) : bool :=
  match a, b with
  | VNone, VNone => true | VBool x, VBool y => Bool.eqb x y | VStr x, VStr y => String.eqb x y
  | VInt x, VInt y => Nat.eqb x y | VList x, VList y => strs_eq x y | _, _ => false
  end.
Definition sub_ns (a b : namespace) : bool :=
  forallb (fun kv => match lookup b (fst kv) with Some v => val_eq v (snd kv) | None => false end) a.
(* equality of dictionaries (unique keys), insertion order ignored *)
Definition ns_eq (a b : namespace) : bool := Nat.eqb (length a) (length b) && sub_ns a b && sub_ns b a.
Fixpoint override (d ns : namespace) : namespace :=
  match d with [] => ns | (k, v) :: r => override r (ArgParse.set k v ns) end.
Record eparams := mk_e { e_path : string; e_ann : string; e_alist : list (list string); e_url : list string;
  e_http : list string; e_comment : string; e_source : string; e_private : bool; e_outfile : string;
  e_align : bool; e_hybrid : option bool }.
Definition params_match (p : params) (e : eparams) : bool :=
  String.eqb (p_path p) (e_path e) && String.eqb (p_announce p) (e_ann e) && strss_eq (p_announce_list p) (e_alist e)
  && strs_eq (p_url_list p) (e_url e) && strs_eq (p_httpseeds p) (e_http e) && String.eqb (p_comment p) (e_comment e)
  && String.eqb (p_source p) (e_source e) && Bool.eqb (p_private p) (e_private e) && String.eqb (p_outfile p) (e_outfile e)
  && Bool.eqb (p_align p) (e_align e)
  && match e_hybrid e with Some h => Bool.eqb (p_hybrid p) h | None => true end.
Inductive item :=
| IDefaults (e : namespace)
| IParse (toks : list string) (exp : option namespace)
| ICfg (pairs : list (string * string)) (toks : list string) (exp : option (string * namespace))
| IInit (existing : list string) (ns : namespace) (exp : option eparams).
'''

CHECK_DEF = r'''
Definition check (i : item) : bool :=
  match i with
  | IDefaults e => ns_eq (defaults create_args) e
  | IParse toks exp =>
      match run_parse toks, exp with
      | PR_ok ns, Some d => ns_eq ns (override d real_defaults)
      | PR_error, None => true
      | _, _ => false
      end
  | ICfg pairs toks exp =>
      match run_cfg pairs toks, exp with
      | Some ns, Some (cls, e) => ns_eq ns e && String.eqb (run_dispatch ns) cls
      | None, None => true
      | _, _ => false
      end
  | IInit existing ns exp =>
      match run_init existing ns, exp with
      | IOk p, Some e => params_match p e
      | IMissingPath, None => true
      | _, _ => false
      end
  end.
'''


def cstr(s):
    """Gallina string term for an ASCII str (newlines allowed); None if not expressible"""
    parts = s.split("\n")
    lits = [core.coq_string(p) for p in parts]
    if any(x is None for x in lits):
        return None
    lits = [x[:-len("%string")] for x in lits]
    term = lits[-1]
    for x in reversed(lits[:-1]):
        term = f"(append {x} (String nl {term}))"
    return term


def gval(v):
    if v is None:
        return "VNone"
    if isinstance(v, bool):
        return "(VBool true)" if v else "(VBool false)"
    if isinstance(v, int):
        return f"(VInt {v})"
    if isinstance(v, str):
        return f"(VStr {cstr(v)})"
    if isinstance(v, list) and all(isinstance(x, str) for x in v):
        return "(VList [" + "; ".join(cstr(x) for x in v) + "])"
    raise ValueError(f"value outside the model: {v!r}")


def gns(d):
    return "[" + "; ".join(f"({cstr(k)}, {gval(v)})" for k, v in d.items()) + "]"


def glist(l):
    return "[" + "; ".join(cstr(x) for x in l) + "]"


def real_parsers():
    """build the parsers exactly as cli.execute does, without running a command"""
    core.use_repo_in_process()
    import torrentfile.cli as cli
    made = []

    class Rec(cli.ArgumentParser):
        def __init__(self, *a, **k):
            super().__init__(*a, **k)
            made.append(self)

    class Shim:
        def __getattr__(self, name):
            return lambda args: args
    saved = cli.ArgumentParser, cli.commands
    cli.ArgumentParser, cli.commands = Rec, Shim()
    try:
        ns = cli.execute(["create"])
    finally:
        cli.ArgumentParser, cli.commands = saved
    # the parser reached through the word `create`
    top = made[0]
    sub_action = next(a for a in top._actions if a.dest == "command")
    cmap = sub_action._name_parser_map
    return top, cmap, vars(ns)


def quiet_call(fn, *a, **k):
    import io
    import contextlib
    sink = io.StringIO()
    with contextlib.redirect_stdout(sink), contextlib.redirect_stderr(sink):
        return fn(*a, **k)


def real_parse(parser, toks):
    try:
        ns = quiet_call(parser.parse_args, list(toks))
    except SystemExit:
        return None
    d = dict(vars(ns))
    d.pop("func", None)
    return d


def lit_default(v):
    if v is None:
        return "VNone"
    if isinstance(v, bool):
        return "(VBool true)" if v else "(VBool false)"
    if isinstance(v, int):
        return f"(VInt {v})"
    if isinstance(v, str):
        return '(VStr "%s")' % v.replace('"', '""')
    if isinstance(v, list):
        return "(VList [" + "; ".join('"%s"' % x.replace('"', '""') for x in v) + "])"
    return f"<unmodelled {v!r}>"


REC_RE = re.compile(r'\{\|\s*a_flags := \[(.*?)\];\s*a_dest := "(.*?)";\s*a_action := (\w+);\s*a_nargs := (\w+);\s*'
                    r'a_default := (.*?);\s*a_const := (.*?);\s*a_choices := (.*?);\s*a_positional := (\w+)\s*\|\}', re.S)


def table_vs_introspection(ctx, cmap):
    """(iii) the text of Gen/GenCli.v and Gen/GenConfig.v against the live parser / signature"""
    import argparse
    import inspect
    text = open(os.path.join(core.GEN, "GenCli.v"), encoding="utf-8").read()
    recs = []
    block = re.search(r"Definition create_args : list argspec :=\s*\[(.*?)\n\]\.", text, re.S)
    if not block:
        ctx.disagree("GenCli.create_args vs parser._actions", {"file": "Gen/GenCli.v"}, "no `Definition create_args` found", "")
        return []
    for m in REC_RE.finditer(block.group(1)):
        flags = [x.replace('""', '"') for x in re.findall(r'"((?:[^"]|"")*)"', m.group(1))]
        recs.append({"flags": flags, "dest": m.group(2), "action": m.group(3), "nargs": m.group(4),
                     "default": " ".join(m.group(5).split()), "const": m.group(6).strip(),
                     "choices": " ".join(m.group(7).split()), "positional": m.group(8) == "true"})
    parser = cmap["create"]
    real = []
    for a in parser._actions:
        if isinstance(a, argparse._HelpAction):
            continue
        cls = type(a).__name__
        action = {"_StoreAction": "ActStore", "_StoreTrueAction": "ActStoreTrue"}.get(cls, "<" + cls + ">")
        nargs = "NNone" if (a.nargs is None or (cls == "_StoreTrueAction" and a.nargs == 0)) else \
            {"+": "NPlus", "?": "NOpt", "*": "NStar"}.get(a.nargs, f"<{a.nargs!r}>")
        choices = "None" if a.choices is None else "(Some [" + "; ".join('"%s"' % c for c in a.choices) + "])"
        real.append({"flags": list(a.option_strings) or [a.dest], "dest": a.dest, "action": action, "nargs": nargs,
                     "default": lit_default(a.default), "const": "None" if cls != "_StoreAction" or a.const is None else repr(a.const),
                     "choices": choices, "positional": not a.option_strings, "required": bool(a.required)})
    n = 0
    if len(recs) != len(real):
        ctx.disagree("GenCli.create_args vs parser._actions: number of arguments", {"file": "Gen/GenCli.v"},
                     [r["dest"] for r in recs], [r["dest"] for r in real])
    for g, r in zip(recs, real):
        n += 1
        req = r.pop("required")
        if g != r or req:
            ctx.disagree("GenCli.create_args vs parser._actions", {"dest": r["dest"]}, g, dict(r, required=req))
        ctx.case(key=("table", r["dest"]), classes=["tie: generated argument record vs parser._actions"])
    # aliases and the function the sub-command runs
    m = re.search(r"Definition create_aliases : list string := \[(.*?)\]\.", text, re.S)
    gal = re.findall(r'"((?:[^"]|"")*)"', m.group(1)) if m else None
    ral = sorted(k for k, v in cmap.items() if v is parser and k != "create")
    if gal is None or sorted(gal) != ral:
        ctx.disagree("GenCli.create_aliases vs the sub-parser map", {}, gal, ral)
    fn = parser.get_default("func")
    m = re.search(r'Definition create_func : string := "(.*?)"\.', text)
    # (the shim replaced torrentfile.commands while the parser was built: read the name from the source-level default)
    import torrentfile.commands as commands
    if not m or not hasattr(commands, m.group(1).split(".")[-1]) or m.group(1).split(".")[0] != "commands":
        ctx.disagree("GenCli.create_func vs commands", {}, m.group(1) if m else None, "commands.create")
    del fn
    # MetaFile.__init__ signature
    ctext = open(os.path.join(core.GEN, "GenConfig.v"), encoding="utf-8").read()
    from torrentfile import torrent
    sig = inspect.signature(torrent.MetaFile.__init__)
    ps = [p for p in sig.parameters.values() if p.name != "self"]
    named = [p for p in ps if p.kind == p.POSITIONAL_OR_KEYWORD]
    want = "[" + "; ".join('("%s", %s)' % (p.name, lit_default(p.default)) for p in named) + "]"
    m = re.search(r"Definition init_params_sig : list \(string \* value\) :=\s*(\[.*?\])\.\n", ctext, re.S)
    got = " ".join(m.group(1).split()) if m else None
    if got != want:
        ctx.disagree("GenConfig.init_params_sig vs inspect.signature(MetaFile.__init__)", {}, got, want)
    m = re.search(r"Definition init_varkw : bool := (\w+)\.", ctext)
    if not m or (m.group(1) == "true") != any(p.kind == p.VAR_KEYWORD for p in ps):
        ctx.disagree("GenConfig.init_varkw vs inspect.signature(MetaFile.__init__)", {}, m.group(1) if m else None,
                     any(p.kind == p.VAR_KEYWORD for p in ps))
    ctx.case(key=("table", "init signature"), classes=["tie: generated signature vs inspect.signature"])
    ctx.traces_validated += n + 1
    return real


TOK_VALUES = ["x", "two words", "", "14", "http://t.example/a?b=c", "v%20w", "true", "new"]
TOK_URLS = ["http://t.example/announce", "udp://[2001:db8::1]:6969/a", "https://w.example/p%20q/", "u3"]


def parse_cases(ctx, parser):
    """(i) argv token lists: every subset of <= 2 option groups with all orders and content positions, samples of 3 and 4"""
    import argparse
    rng = ctx.rng
    acts = [a for a in parser._actions if a.option_strings and not isinstance(a, argparse._HelpAction)]

    def group(a):
        flag = rng.choice(a.option_strings)
        if a.nargs == 0:
            return [flag]
        if a.nargs is None:
            if a.choices:
                return [flag, str(rng.choice(list(a.choices) + (["4"] if rng.random() < 0.15 else [])))]
            return [flag, rng.choice(TOK_VALUES)]
        return [flag] + rng.sample(TOK_URLS, rng.choice([1, 2, 3]))
    cases = []

    def expand(subset, classes):
        groups = [group(a) for a in subset]
        for perm in itertools.permutations(range(len(groups))):
            gs = [groups[i] for i in perm]
            for pos in list(range(len(gs) + 1)) + [None]:
                toks = [t for g in gs[:pos if pos is not None else len(gs)] for t in g] + (["C"] if pos is not None else []) \
                    + ([t for g in gs[pos:] for t in g] if pos is not None else [])
                cases.append((toks, classes))
    thorough = ctx.tier == "thorough"
    expand([], ["tie argv: 0 flags"])
    for a in acts:
        for _ in range(3):
            expand([a], ["tie argv: 1 flag"])
    for s in itertools.combinations(acts, 2):
        expand(list(s), ["tie argv: 2 flags"])
    c3 = list(itertools.combinations(acts, 3))
    c4 = list(itertools.combinations(acts, 4))
    for s in (c3 if thorough else rng.sample(c3, 110)):
        expand(list(s), ["tie argv: 3 flags"])
    for s in rng.sample(c4, 220 if thorough else 22):
        expand(list(s), ["tie argv: 4 flags"])
    # duplicates, errors, edge tokens
    extra = [["--comment"], ["-a"], ["-a", "--private"], ["--web-seed", "--http-seed", "h"], ["C", "D"], ["C", "-p", "D"],
             ["-a", "u", "C", "-p", "D"], ["--meta-version", "4"], ["--meta-version", "2", "--meta-version", "3"],
             ["-a", "u1", "-a", "u2", "u3"], ["-p", "-p"], ["--web-seed", "w", "C", "--http-seed", "h", "D"],
             ["", "-p"], ["-c", ""], ["-c", "", ""], ["--tracker", "", "C"], ["-o", "a", "--out", "b", "C"],
             ["--prog", "0", "--progress", "2"], ["C", "--config", "--config-path", "p.ini"], ["--config-path"],
             ["-s", "x", "-s"], ["--align", "C", "--align"], ["--http-seed", "C"], ["-a", "C"]]
    for t in extra:
        cases.append((t, ["tie argv: duplicates / errors / empty tokens"]))
    for _ in range(300 if thorough else 60):
        sub = rng.sample(acts, rng.choice([1, 2, 3]))
        gs = [group(a) for a in sub] + [group(rng.choice(sub))]
        rng.shuffle(gs)
        pos = rng.randrange(0, len(gs) + 1)
        cases.append(([t for g in gs[:pos] for t in g] + ["C"] + [t for g in gs[pos:] for t in g],
                      ["tie argv: duplicates / errors / empty tokens"]))
    return cases


CFG_KEYS = ["announce", "web-seed", "http-seed", "private", "source", "comment", "piece-length", "meta-version", "out", "align",
            "tracker", "cwd", "magnet", "progress", "url-list", "url_list", "httpseeds", "outfile", "content", "path", "foo",
            "meta_version", "piece_length"]
CFG_VALUES = ["true", "True", "TRUE", "false", "yes", "1", "", "plain", "two words", "100% pure", "%(x)s", "a#b ;c", "k=v",
              "3", "2", "14", "http://t.example/a%20b", "u1\nu2", "u1\n\nu2\nu3", "x: y"]


def cfg_cases(ctx, tmp):
    """(ii) (pairs, ini path, argv) -- the ini holds exactly the pairs"""
    import configparser
    rng = ctx.rng
    out = []
    n = 260 if ctx.tier == "thorough" else 70
    single = [[(k, v)] for k in CFG_KEYS[:14] for v in ("true", "u1\nu2", "3")]
    rnd = []
    for _ in range(n):
        ks = rng.sample(CFG_KEYS, rng.choice([1, 2, 3, 5]))
        rnd.append([(k, rng.choice(CFG_VALUES)) for k in ks])
    for i, pairs in enumerate(single + rnd):
        case = rng.choice(["lower", "lower", "upper", "title"])
        raw = [((k.upper() if case == "upper" else k.title() if case == "title" else k),
                (os.path.join(tmp, "o", re.sub(r"[^A-Za-z0-9 %=#;]", "_", v) or "e") if k in ("out", "outfile") else v))
               for k, v in pairs]
        ini = os.path.join(tmp, f"c{i}.ini")
        with open(ini, "w", encoding="utf-8") as fd:
            fd.write("[config]\n" + "".join(f"{k} = " + v.replace("\n", "\n    ") + "\n" for k, v in raw))
        cp = configparser.ConfigParser(interpolation=None)
        cp.read(ini)
        back = list(cp["config"].items())          # what config["config"].items() delivers, minus interpolation
        # the model receives the keys as written (it lower-cases them itself) and the values as ConfigParser delivers them
        mpairs = [(rk, bv) for (rk, _), (_, bv) in zip(raw, back)]
        argv = ["--config", "--config-path", ini]
        if rng.random() < 0.5:
            argv += rng.choice([["-p"], ["--comment", "cli"], ["--meta-version", "2"], ["-a", "cliurl"], ["--web-seed", "cw"]])
        argv += ["C"]
        out.append((mpairs, argv))
    return out


class _Stop(Exception):
    pass


def capture_create(commands, ns):
    """run commands.create up to the construction of the torrent object; returns ('ok', class, kwargs) | ('exc', name)"""
    got = {}

    def mk(name):
        def ctor(**kw):
            got["cls"], got["kwargs"] = name, dict(kw)
            raise _Stop()
        return ctor
    saved = commands.TorrentFile, commands.TorrentAssembler
    commands.TorrentFile, commands.TorrentAssembler = mk("TorrentFile"), mk("TorrentAssembler")
    try:
        try:
            quiet_call(commands.create, ns)
        except _Stop:
            pass
        except Exception as e:  # noqa
            return ("exc", type(e).__name__ + ": " + str(e)[:80])
    finally:
        commands.TorrentFile, commands.TorrentAssembler = saved
    if "cls" not in got:
        return ("exc", "no torrent object was constructed")
    return ("ok", got["cls"], got["kwargs"])


def init_cases(ctx, parser, content, urlfile):
    """(iv) keyword dictionaries for MetaFile.__init__: parsed swallow argv and hand-made keyword sets"""
    rng = ctx.rng
    cases = []
    n = 400 if ctx.tier == "thorough" else 110
    flagsets = [["-a"], ["--web-seed"], ["--http-seed"], ["-a", "--web-seed"], ["-a", "--http-seed"],
                ["--web-seed", "--http-seed"], ["-a", "--web-seed", "--http-seed"]]
    for i in range(n):
        fl = list(flagsets[i % len(flagsets)])
        rng.shuffle(fl)
        groups = []
        for f in fl:
            k = rng.choice([0, 1, 1, 2]) if f == "-a" else rng.choice([1, 2])
            groups.append([f] + rng.sample(TOK_URLS, k) + ([urlfile] if rng.random() < 0.08 else []))
        groups = [g for g in groups if len(g) > 1 or rng.random() < 0.5]
        sc = rng.choice(["after-list", "after-list", "first", "absent", "missing-file", "after-scalar"])
        others = rng.sample([["-p"], ["--comment", "c c"], ["--source", "S"], ["--meta-version", rng.choice("123")],
                             ["-o", "o.torrent"], ["--align"], ["--piece-length", "15"]], rng.choice([0, 1, 2]))
        seq = groups + others
        rng.shuffle(seq)
        c = content if sc != "missing-file" else content + ".gone"
        toks = [t for g in seq for t in g]
        if sc in ("after-list", "missing-file") and groups:
            gi = seq.index(rng.choice(groups))
            toks = [t for g in seq[:gi + 1] for t in g] + [c] + [t for g in seq[gi + 1:] for t in g]
        elif sc == "first":
            toks = [c] + toks
        elif sc == "after-scalar":
            toks = ["--source", "S2", c] + toks
        d = real_parse(parser, toks)
        if d is not None:
            cases.append((d, {"argv": toks, "scenario": sc}))
    kw = [
        {"path": content, "announce": "http://single.example/a"}, {"content": content, "announce": ["u1", "u2"]},
        {"path": content, "content": content + ".gone", "piece_length": "15"}, {"announce": ["u1", content]}, {"announce": [content]},
        {"announce": [content], "url_list": ["w", content]}, {"url_list": [content]}, {"httpseeds": ["h", content]},
        {"announce": "", "path": content}, {"path": content, "private": True, "align": True, "meta_version": 3},
        {"path": content, "meta_version": "3"}, {"path": content, "meta_version": 2}, {"path": content, "comment": "", "source": ""},
        {}, {"announce": ["u1", "u2"]}, {"path": "", "content": "", "httpseeds": [content]},
        {"path": content, "outfile": "x.torrent", "url_list": [], "httpseeds": []},
    ]
    for k in kw:
        cases.append((k, {"keywords": k}))
    return cases


def strings_in(d):
    for v in d.values():
        if isinstance(v, str):
            yield v
        elif isinstance(v, list):
            for x in v:
                if isinstance(x, str):
                    yield x


def coq_show(term):
    """value of a term of the instantiated model (for the disagreement report)"""
    import tempfile
    d = tempfile.mkdtemp(prefix="vshow_")
    try:
        with open(os.path.join(d, "show.v"), "w", encoding="utf-8") as fd:
            fd.write(PREAMBLE + f"\nEval vm_compute in ({term}).\n")
        p = subprocess.run(["timeout", "120", "coqc", "-Q", core.COQ, "TF", "show.v"], cwd=d, capture_output=True, text=True)
        return " ".join((p.stdout or p.stderr).split())[:700]
    finally:
        shutil.rmtree(d, ignore_errors=True)


def tie(ctx, model_ok):
    gen_ok = all(os.path.exists(os.path.join(core.GEN, f)) and "translator_refused" not in
                 open(os.path.join(core.GEN, f), encoding="utf-8").read() for f in GEN_FILES)
    if not gen_ok:
        ctx.notes.append("PART 2 skipped: Gen/GenCli.v or Gen/GenConfig.v missing or refused by the translator")
        return
    top, cmap, exec_ns = real_parsers()
    parser = cmap["create"]
    table_vs_introspection(ctx, cmap)
    vo = os.path.join(core.COQ, "Model", "RoutesRun.vo")
    if not model_ok:
        # the property's own closure did not build (recorded as broken by the build phase): the instantiated model may still do
        with core.Lock("pipeline"):
            ok, _ = core.make(["Model/RoutesRun.vo"])
        if not ok or not os.path.exists(vo):
            ctx.notes.append("PART 2 (i), (ii), (iv) skipped: Model/RoutesRun.vo does not build")
            return
    from torrentfile import commands, torrent, utils
    real_defaults = real_parse(parser, [])
    items, meta = [], []
    items.append(f"IDefaults {gns(real_defaults)}")
    meta.append(("defaults of the create sub-parser", {"argv": []}, real_defaults, "defaults create_args"))
    ctx.case(key=("tie", "defaults"), classes=["tie: defaults"])
    # (i)
    for toks, classes in parse_cases(ctx, parser):
        d = real_parse(parser, toks)
        if d is None:
            exp = "None"
            cl = classes + ["tie argv: argparse error"]
        else:
            diff = {k: v for k, v in d.items() if real_defaults.get(k, object()) != v or k not in real_defaults}
            exp = f"(Some {gns(diff)})"
            cl = classes + (["tie argv: content swallowed"] if d.get("content") is None and "C" in toks else [])
        items.append(f"IParse {glist(toks)} {exp}")
        meta.append(("Model/ArgParse.v on GenCli.create_args vs parser.parse_args", {"argv": toks}, d, f"run_parse {glist(toks)}"))
        ctx.case(key=("argv", tuple(toks)), classes=cl)
    # the way cli.execute reaches the sub-parser: `create`, the alias, the implicit sub-command
    for word in sorted(cmap):
        if cmap[word] is parser:
            for toks in (["C", "-p"], ["-a", "u", "C"]):
                d = real_parse(top, [word] + toks)
                sub = real_parse(parser, toks)
                if d is None or {k: v for k, v in d.items() if k in sub} != sub:
                    ctx.disagree("top-level parser + sub-command word vs the create sub-parser", {"argv": [word] + toks}, sub, d)
    with core.Scratch("vc20t_") as tmp:
        os.makedirs(os.path.join(tmp, "o"))
        content = os.path.join(tmp, "C")
        os.makedirs(content)
        with open(os.path.join(content, "f.bin"), "wb") as fd:
            fd.write(pbytes(20000, 3))
        urlfile = os.path.join(tmp, "url-that-exists")
        with open(urlfile, "w") as fd:
            fd.write("x")
        cwd = os.getcwd()
        os.chdir(tmp)
        try:
            # (ii)
            for pairs, argv in cfg_cases(ctx, tmp):
                argv = [content if t == "C" else t for t in argv]
                ns = quiet_call(parser.parse_args, list(argv))
                r = capture_create(commands, ns)
                if r[0] == "ok":
                    kw = dict(r[2])
                    kw.pop("func", None)
                    try:
                        exp = f"(Some ({cstr(r[1])}, {gns(kw)}))"
                    except ValueError as e:
                        ctx.notes.append(f"cfg case left out: {e}")
                        continue
                elif "nterpolation" in r[1] or "%" in r[1]:
                    exp = "None"
                else:
                    ctx.notes.append(f"cfg case left out: commands.create raised {r[1]}")
                    continue
                if any(cstr(k) is None or cstr(v) is None for k, v in pairs):
                    continue
                gp = "[" + "; ".join(f"({cstr(k)}, {cstr(v)})" for k, v in pairs) + "]"
                items.append(f"ICfg {gp} {glist(argv)} {exp}")
                meta.append(("GenConfig.cfg_route (apply_cfg, dispatch) vs commands.create / parse_config_file",
                             {"pairs": pairs, "argv": argv}, r[1:] if r[0] == "ok" else r, f"run_cfg {gp} {glist(argv)}"))
                keys = {k.lower() for k, _ in pairs}
                ctx.case(key=("cfg", json.dumps(pairs), tuple(argv[3:])),
                         classes=["tie cfg: documented key" if keys & set(OPTS) else "tie cfg: undocumented key only"]
                         + (["tie cfg: undocumented key"] if keys - set(OPTS) else [])
                         + (["tie cfg: key case variant"] if any(k != k.lower() for k, _ in pairs) else [])
                         + (["tie cfg: value with %"] if any("%" in v for _, v in pairs) else [])
                         + (["tie cfg: multi-line value"] if any("\n" in v for _, v in pairs) else [])
                         + (["tie cfg: command-line flag next to the file"] if len(argv) > 4 else []))
            # (iv)
            for kw, desc in init_cases(ctx, parser, content, urlfile):
                existing = sorted({s for s in strings_in(kw) if s and os.path.exists(s)})
                cache = getattr(utils.filelist_total, "cache", None)
                if cache is not None:
                    cache.clear()
                try:
                    mf = quiet_call(torrent.MetaFile, **kw)
                except utils.MissingPathError:
                    mf = None
                except Exception as e:  # noqa
                    ctx.notes.append(f"init case left out ({type(e).__name__}): {desc}")
                    continue
                if mf is None:
                    exp, shown = "None", "MissingPathError"
                else:
                    hyb = "None"
                    if str(kw.get("meta_version")) in ("2", "3") and os.path.exists(str(mf.path)):
                        try:
                            asm = quiet_call(torrent.TorrentAssembler, **dict(kw, progress=0))
                            hyb = "(Some true)" if asm.hybrid else "(Some false)"
                        except Exception as e:  # noqa
                            ctx.notes.append(f"TorrentAssembler raised {type(e).__name__} on {desc}")
                    al = mf.announce_list
                    shown = {"path": mf.path, "announce": mf.announce, "announce_list": al, "url-list": mf.meta.get("url-list", []),
                             "httpseeds": mf.meta.get("httpseeds", []), "comment": mf.comment, "source": mf.source,
                             "private": bool(mf.private), "outfile": mf.outfile, "align": bool(mf.align), "hybrid": hyb}
                    try:
                        exp = ("(Some (mk_e %s %s [%s] %s %s %s %s %s %s %s %s))" % (
                            cstr(str(mf.path)), cstr(mf.announce), "; ".join(glist(list(t)) for t in al),
                            glist(list(mf.meta.get("url-list", []))), glist(list(mf.meta.get("httpseeds", []))),
                            cstr(mf.comment or ""), cstr(mf.source or ""), "true" if mf.private else "false",
                            cstr(mf.outfile or ""), "true" if mf.align else "false", hyb))
                    except (TypeError, AttributeError):
                        ctx.notes.append(f"init case left out (attribute types): {desc}")
                        continue
                try:
                    g = gns(kw)
                except ValueError:
                    continue
                items.append(f"IInit {glist(existing)} {g} {exp}")
                meta.append(("Model/Routes.v init_params (path recovery, announce shape, landings) vs MetaFile.__init__",
                             desc, shown, f"run_init {glist(existing)} {g}"))
                cl = ["tie init: " + desc.get("scenario", "keywords")]
                if mf is None:
                    cl.append("tie init: MissingPathError")
                elif "content" in kw and not kw.get("content") and not kw.get("path"):
                    cl.append("tie init: path recovered from " + next((k for k in ("announce", "url_list", "httpseeds")
                                                                       if kw.get(k) and mf.path in kw[k]), "?"))
                if len(existing) > 1:
                    cl.append("tie init: a URL names an existing file")
                ctx.case(key=("init", json.dumps(core.jsonable(desc), sort_keys=True)), classes=cl)
        finally:
            os.chdir(cwd)
    pre = PREAMBLE + f"\nDefinition real_defaults : namespace := {gns(real_defaults)}.\n" + CHECK_DEF
    t0 = time.time()
    bad, err = core.coq_eval_failing(pre, items, "check", shard=700, jobs=12)
    ctx.extra["tie_items"] = len(items)
    ctx.extra["tie_coq_seconds"] = round(time.time() - t0, 1)
    if err:
        ctx.broken.append("tie evaluation failed: " + err[-900:])
    else:
        ctx.traces_validated += len(items)
    for n, i in enumerate(bad):
        what, inp, impl, term = meta[i]
        model = coq_show(term) if n < 3 else "(differs; evaluate `" + term[:300] + "`)"
        ctx.disagree(what, inp, model, core.jsonable(impl))
    require_classes(ctx, TIE_REQUIRED)


TIE_REQUIRED = ["tie: generated argument record vs parser._actions", "tie argv: 0 flags", "tie argv: 1 flag", "tie argv: 2 flags",
                "tie argv: 3 flags", "tie argv: 4 flags", "tie argv: argparse error", "tie argv: content swallowed",
                "tie argv: duplicates / errors / empty tokens", "tie cfg: documented key", "tie cfg: undocumented key",
                "tie cfg: key case variant", "tie cfg: value with %", "tie cfg: multi-line value",
                "tie cfg: command-line flag next to the file", "tie init: after-list", "tie init: first", "tie init: absent",
                "tie init: missing-file", "tie init: keywords", "tie init: MissingPathError",
                "tie init: path recovered from announce", "tie init: path recovered from url_list",
                "tie init: path recovered from httpseeds", "tie init: a URL names an existing file"]


def find_config_tie(ctx):
    """the real commands.find_config_file over all 8 presence combinations of the three documented locations (and with an
       explicit --config-path) against the documented first-match order"""
    from argparse import Namespace
    core.use_repo_in_process()
    from torrentfile import commands
    cwd0, home0 = os.getcwd(), os.environ.get("HOME")
    with core.Scratch("vc20f_") as tmp:
        try:
            n = 0
            for mask in range(8):
                for explicit in (None, "exists", "missing"):
                    n += 1
                    w = os.path.join(tmp, f"f{n}")
                    os.makedirs(os.path.join(w, "cwd"))
                    os.makedirs(os.path.join(w, "home"))
                    present = [loc for i, loc in enumerate(INI_LOCATIONS) if mask >> i & 1]
                    for loc in present:
                        os.makedirs(os.path.dirname(ini_path(loc, w)), exist_ok=True)
                        with open(ini_path(loc, w), "w") as fd:
                            fd.write("[config]\ncomment = " + loc + "\n")
                    cp = None
                    if explicit:
                        cp = ini_path("config-path", w)
                        if explicit == "exists":
                            os.makedirs(os.path.dirname(cp))
                            with open(cp, "w") as fd:
                                fd.write("[config]\ncomment = explicit\n")
                    os.chdir(os.path.join(w, "cwd"))
                    os.environ["HOME"] = os.path.join(w, "home")
                    if explicit == "exists":
                        want = cp
                    elif explicit == "missing" or not present:
                        want = "FileNotFoundError"
                    else:
                        want = ini_path(present[0], w)
                    try:
                        got = str(commands.find_config_file(Namespace(config=True, config_path=cp)))
                        got = os.path.abspath(got)
                    except FileNotFoundError:
                        got = "FileNotFoundError"
                    except Exception as e:  # noqa
                        got = type(e).__name__
                    if got != want:
                        ctx.fail("config-priority:find_config_file",
                                 {"files present (documented priority order)": present, "config_path": explicit,
                                  "call": "commands.find_config_file(Namespace(config=True, config_path=%s))" % ("<path>" if cp else None)},
                                 os.path.relpath(want, w) if want.startswith(w) else want,
                                 os.path.relpath(got, w) if got.startswith(w) else got)
                    ctx.case(key=("find_config_file", mask, explicit), classes=["find_config_file: presence combination"])
        finally:
            os.chdir(cwd0)
            if home0 is None:
                os.environ.pop("HOME", None)
            else:
                os.environ["HOME"] = home0


def run(ctx, model_ok):
    os.environ["HOME"] = "/nonexistent-home"
    for part in (find_config_tie, lambda c: tie(c, model_ok)):
        try:
            part(ctx)
        except Exception as e:  # noqa  -- a crashing tie must neither look like a pass nor keep the search from running
            import traceback
            ctx.broken.append("tie crashed: " + "".join(traceback.format_exception(e))[-1200:])
    end_to_end(ctx)


# ------------------------------------------------------------------------------------------------ replay
def replay(ctx, data):
    inp = data.get("input") or {}
    if "options" not in inp or "route" not in inp:
        print(json.dumps(data, indent=1, ensure_ascii=False)[:4000])
        return 1
    o, r, ref_r = inp["options"], inp["route"], inp.get("reference_route")
    routes = ([ref_r] if ref_r and ref_r != r else []) + [r]
    with core.Scratch("vc20r_") as root:
        make_payload(root)
        results = [run_route(root, f"r{i}", o, x) for i, x in enumerate(routes)]
        fails = judge(ctx, o, routes, results)
        print("option record:", json.dumps(o, ensure_ascii=False))
        for x, res in zip(routes, results):
            print("route:", json.dumps(x, ensure_ascii=False))
            print("  argv:", json.dumps(res["argv"], ensure_ascii=False)[:1500])
            if res["info"].get("ini"):
                print("  ini:\n    " + res["info"]["ini"].replace("\n", "\n    "))
            for loc, t in (res["info"].get("lower_priority_ini") or {}).items():
                print(f"  lower-priority ini ({loc}):\n    " + t.replace("\n", "\n    "))
            print("  exit status", res["rc"], "new files", sorted(res["files"]), "expected", res["expected_rel"])
            if res["rc"] != 0:
                print("  stderr:", res["err"][-300:])
        for kind, fr, expv, got in fails:
            print(f"FAIL {kind}\n  expected: {json.dumps(core.jsonable(expv), ensure_ascii=False)[:600]}\n"
                  f"  observed: {json.dumps(core.jsonable(got), ensure_ascii=False)[:900]}")
        if not fails:
            print("the routes agree and every option is in its documented field: not reproduced")
        return 1 if fails else 0
