"""
The COMPOSITION tie of the rebuild properties (C13, C14, C19): the whole of `Metadata(metafile).rebuild(filemap, dest)` of
/repo/torrentfile/rebuild.py run on a real scratch directory vs the extracted Coq `rebuild_of_metafile` (Model/RebuildRun.v,
behind Model/Bencode.v pyloads; area "rebuildrun", coq/Extract/ExtractRebuildRun.v, ocaml/areas/rebuildrun.ml) run on the same
metafile bytes, the same filemap in the same candidate order (the real `_index_contents` result, every candidate with its
bytes), the same filesystem (every directory and file of the search root and of the destination, with the chain of ancestors)
and the same destination text.  Compared: returned / raised, and the state (nothing | directory | file with these bytes) of
EVERY path of the universe after the run -- the universe being every path that exists before or after the run under the search
root and the destination, the ancestors, and every path the metafile could make the run touch (each target, its prefixes, and
target/<file name> -- where shutil.copy writes when the target is a directory).

The component ties (rebuild_common.extract_tie / match_v1_tie / match_v2_tie / parts_tie, c14.copypath_tie) fix the parts; this one
fixes how they are put together: the dispatch on the meta version, how `full` and the destination become the copypath target,
the order of the calls, the filesystem threading from one call to the next and the end of the run at the first raising call.
"""
import os
import shutil
import hashlib
import pathlib

import core
import trees
import modelrun
from ref import oracle
from props import rebuild_common as rc

PL = 16384
KINDS = ["v1", "v2-class", "v2-asm", "hybrid-class", "hybrid-asm", "ref1", "ref2", "ref3"]
COMPS = [("a",), ("b",), ("d", "a"), ("d", "b"), ("d", "e", "a"), ("d", "e", "c"), ("e", "b"), ("k.d", "x y"), ("é",), ("e", "é"),
         ("wait....bin",), ("disc..2", "a"), ("d", "..x")]      # consecutive dots inside a name: ordinary names
SUBDIRS = ["w", "sub dir", "é", "k.d", "_"]
MAX_PAYLOAD = 100000
MAX_SEARCH_BYTES = 260000


def _sizes(rng, k):
    pool = [0, 1, 100, 100, PL - 1, PL, PL + 1, 2 * PL + 5]
    sizes = [rng.choice(pool) for _ in range(k)]
    while sum(sizes) > MAX_PAYLOAD:
        sizes[sizes.index(max(sizes))] = rng.choice([1, 100])
    return sizes


def _payload(rng):
    """(name, single, tree {comps: bytes}, classes)"""
    r = rng.random()
    if r < 0.14:
        return "single.bin", True, {(): rng.randbytes(rng.choice([0, 1, 100, PL - 1, PL, PL + 1, 2 * PL + 5]))}, ["payload: single file"]
    if r < 0.30:
        # aimed: one file name in two directories, the later file starts on a piece boundary (v1: its pieces have one path each)
        tree = {("a",): rng.randbytes(PL), ("d", "a"): rng.randbytes(rng.choice([PL, PL, 2 * PL + 5, PL + 1, 100]))}
        if rng.random() < 0.5:
            tree[("d", "b")] = rng.randbytes(rng.choice([0, 100, PL]))
        return "tor", False, tree, ["payload: one file name in two directories, piece-aligned"]
    k = rng.randrange(1, 5)
    comps = rng.sample(COMPS, k)
    tree = {c: rng.randbytes(s) for c, s in zip(comps, _sizes(rng, k))}
    cl = ["payload: nested" if any(len(c) > 1 for c in comps) else "payload: flat"]
    if len({c[-1] for c in comps}) < k:
        cl.append("payload: two files share a file name")
    return "tor", False, tree, cl


def _tamper(rng, raw):
    """one change of a recorded digest / root / length in a reference-encoded metafile: (raw', what) or (raw, None)"""
    try:
        meta = oracle.bdecode_strict(raw)
    except Exception:  # noqa
        return raw, None
    info = meta[b"info"]
    if b"meta version" in info:
        leaves = []

        def rec(d):
            for key, v in d.items():
                if key == b"" and isinstance(v, dict) and b"length" in v:
                    leaves.append(v)
                elif isinstance(v, dict):
                    rec(v)
        rec(info[b"file tree"])
        if not leaves:
            return raw, None
        leaf = rng.choice(leaves)
        what = rng.choice(["root damaged", "recorded length + 1", "root dropped"])
        if what == "root damaged" and isinstance(leaf.get(b"pieces root"), bytes):
            x = bytearray(leaf[b"pieces root"])
            x[rng.randrange(32)] ^= 1 << rng.randrange(8)
            leaf[b"pieces root"] = bytes(x)
        elif what == "recorded length + 1":
            leaf[b"length"] += 1
        else:
            what = "root dropped"
            leaf.pop(b"pieces root", None)
    else:
        what = rng.choice(["digest damaged", "digest damaged", "recorded length + 1"])
        if what == "digest damaged" and info.get(b"pieces"):
            x = bytearray(info[b"pieces"])
            x[rng.randrange(len(x))] ^= 1 << rng.randrange(8)
            info[b"pieces"] = bytes(x)
        elif b"files" in info and info[b"files"]:
            what = "recorded length + 1"
            rng.choice(info[b"files"])[b"length"] += 1
        elif b"length" in info:
            what = "recorded length + 1"
            info[b"length"] += 1
        else:
            return raw, None
    return oracle.bencode(meta), what


def _write(p, data):
    os.makedirs(os.path.dirname(p), exist_ok=True)
    with open(p, "wb") as fd:
        fd.write(data)


def _walk(arg):
    """every path at and under `arg` (a path as the tool is given it, relative to the working directory or absolute)"""
    out = []

    def rec(p):
        out.append(p)
        if os.path.isdir(p) and not os.path.islink(p):
            for n in sorted(os.listdir(p)):
                rec(os.path.join(p, n))
    if os.path.lexists(arg):
        rec(arg)
    return out


def _key(p):
    """a path text as the model reads it (Model/RebuildRun.v parts_of = pathlib parts)"""
    return tuple(pathlib.PurePosixPath(p).parts)


def _real(key):
    return os.path.join(*key) if key else "."


def _state(key):
    p = _real(key)
    if os.path.isdir(p):
        return "D"
    if os.path.isfile(p):
        return "F" + oracle.read(p).hex()
    return "N"


def _short(s):
    if s[0] != "F":
        return {"N": "nothing", "D": "directory"}.get(s, s[:40])
    b = bytes.fromhex(s[1:])
    return f"file[{len(b)} bytes, sha1 {hashlib.sha1(b).hexdigest()[:8]}]"


def _enc(key):
    return "/".join(rc.hx(c) for c in key) if key else "."


def _scenario(rng, ci, cdir):
    """writes payload (tool kinds), metafile, search root and destination under cdir; returns the description"""
    name, single, tree, pcl = _payload(rng)
    kind = rng.choice(KINDS + ["v1", "ref1", "v1-align"])
    t = {"name": name, "single": single, "tree": tree, "pl": PL, "kind": kind}
    if kind == "ref1" and not single and rng.random() < 0.4:
        order = sorted(tree)
        rng.shuffle(order)
        t["order"] = order
    try:
        rc.make_metafile(t, cdir)
    except Exception:  # noqa  (a creator that refuses this payload, e.g. nothing but empty files): the reference encoder instead
        shutil.rmtree(os.path.join(cdir, "orig"), ignore_errors=True)
        kind = t["kind"] = {"v1": "ref1", "v1-align": "ref1", "v2-class": "ref2", "v2-asm": "ref2"}.get(kind, "ref3")
        rc.make_metafile(t, cdir)
    raw, tamper = t["raw"], None
    if kind.startswith("ref") and rng.random() < 0.2:
        raw, tamper = _tamper(rng, raw)
        with open(t["metafile"], "wb") as fd:
            fd.write(raw)
    sc = {"index": ci, "kind": kind, "name": name, "single": single, "tampered": tamper, "raw": raw, "metafile": t["metafile"],
          "files": {"/".join(c) if c else "<the file itself>": len(d) for c, d in sorted(tree.items())}, "classes": list(pcl)}

    # ---- the search root: one slot directory per candidate, enumerated in slot order
    sroot = os.path.join(cdir, "s")
    os.makedirs(sroot)
    cands, total = [], 0
    for comps, data in sorted(tree.items()):
        nm = name if single else comps[-1]
        mine = []
        if rng.random() < 0.88:
            mine.append(("intact", data))
        budget = lambda n: total + sum(len(d) for _, d in mine) + n <= MAX_SEARCH_BYTES   # noqa: E731
        if rng.random() < 0.3:
            n = len(data)
            m = rng.choice([n + 1, max(n - 1, 0) if n > 1 else n + 2, 0 if n else 5, n + 100])
            if budget(m):
                mine.append(("other size", rng.randbytes(m)))
        if data and rng.random() < 0.3 and budget(len(data)):
            if len(data) > 1 and rng.random() < 0.4:
                d = bytearray(data)
                d[rng.randrange(len(d))] ^= 0x55
                mine.append(("same size, one byte off", bytes(d)))
            else:
                mine.append(("same size, every byte different", rc.wholly_different(data, rng.randrange(251))))
        if rng.random() < 0.3 and budget(len(data) + 40):
            mine.append(("longer, genuine bytes first", data + rng.choice([b"!", b"\x00", bytes(5), rng.randbytes(40)])))
        rng.shuffle(mine)
        for what, d in mine:
            cands.append((nm, what, d))
            total += len(d)
    rng.shuffle(cands)
    listed = []
    for slot, (nm, what, d) in enumerate(cands):
        depth = rng.choice([1, 1, 2, 3])
        sub = [f"{slot:02d}"] + [rng.choice(SUBDIRS) for _ in range(depth - 1)]
        if rng.random() < 0.08:
            sub.append(nm)                    # a directory called like the wanted file, holding the candidate
        _write(os.path.join(sroot, *sub, nm), d)
        listed.append(["/".join(sub + [nm]), what, len(d)])
        sc["classes"].append("decoy " + what if what != "intact" else "intact copy present")
    for _ in range(rng.randrange(0, 3)):
        _write(os.path.join(sroot, f"9{rng.randrange(10)}", rng.choice(["unrelated.txt", "README", "zz"])), rng.randbytes(rng.choice([0, 10, 300])))
    sc["candidates"] = listed

    # ---- the destination
    dest = os.path.join(cdir, "dest")
    rels = [(name,) if single else (name,) + c for c in sorted(tree)]
    datas = [tree[c] for c in sorted(tree)]
    r = rng.random()
    dstate = {}
    if r < 0.2:
        sc["destination"] = "missing"
    elif r < 0.4:
        os.makedirs(dest)
        sc["destination"] = "empty"
    elif r < 0.43:
        _write(dest, b"i am a file")
        sc["destination"] = "a file"
    else:
        os.makedirs(dest)
        sc["destination"] = "pre-populated"
        blocked = None
        dirs = sorted({rel[:i] for rel in rels for i in range(1, len(rel))})
        if dirs and rng.random() < 0.1:
            blocked = rng.choice(dirs)
            _write(os.path.join(dest, *blocked), rng.randbytes(rng.choice([0, 7])))
            dstate["/".join(blocked)] = "a file where a directory belongs"
        for rel, data in zip(rels, datas):
            if blocked is not None and rel[:len(blocked)] == blocked:
                continue
            p = os.path.join(dest, *rel)
            if os.path.lexists(p):
                continue
            what = rng.choice(["absent"] * 6 + ["correct file"] * 4 + ["shorter file"] * 3 + ["longer file"] * 3 +
                              ["same size, other bytes"] * 2 + ["a directory where a file belongs"])
            n = len(data)
            if what == "correct file":
                _write(p, data)
            elif what == "shorter file" and n > 0:
                _write(p, rng.choice([data[:n - 1], data[:n // 2], b"", rng.randbytes(n - 1)]))
            elif what == "longer file":
                _write(p, rng.choice([data + b"+", data + rng.randbytes(30), rng.randbytes(n + 1)]))
            elif what == "same size, other bytes" and n > 0:
                _write(p, rc.wholly_different(data, 3))
            elif what == "a directory where a file belongs":
                os.makedirs(p)
                if rng.random() < 0.5:
                    _write(os.path.join(p, rng.choice(["inner", rel[-1]])), rng.randbytes(3))
            else:
                what = "absent"
            dstate["/".join(rel)] = what
        if rng.random() < 0.35:
            q = os.path.join(dest, *rng.choice([("unrelated.txt",), (name + ".nfo",), ("other", "zz")]))
            if not os.path.lexists(q):
                _write(q, rng.randbytes(rng.choice([0, 20])))
                dstate["<unrelated file>"] = os.path.relpath(q, dest)
    sc["destination_files"] = dstate
    sc["classes"].append("destination " + sc["destination"])
    sc["classes"] += sorted({"destination: " + v for k, v in dstate.items() if k != "<unrelated file>"})
    if "<unrelated file>" in dstate:
        sc["classes"].append("destination: unrelated file")

    # ---- how the tool is addressed
    mode = rng.choice(["absolute", "absolute", "relative", "dot"])
    if mode == "dot" and not os.path.isdir(dest):
        mode = "absolute"
    sc["mode"] = mode
    if mode == "absolute":
        sc["cwd"], sc["search_arg"], sc["dest_arg"] = cdir, sroot, dest
    elif mode == "relative":
        sc["cwd"], sc["search_arg"], sc["dest_arg"] = cdir, "s", "dest"
    else:
        sc["cwd"], sc["search_arg"], sc["dest_arg"] = dest, sroot, "."
    sc["order"] = rng.choice(["sorted", "sorted", "reversed"])
    return sc


def _run_real(rb, sc):
    """the real side of one scenario; fills sc with tag, filemap field, fs field, queries, states after"""
    real_listdir = os.listdir
    home = os.getcwd()
    os.chdir(sc["cwd"])
    try:
        universe = set()
        for arg in (sc["search_arg"], sc["dest_arg"]):
            k = _key(arg)
            universe.update(k[:i] for i in range(1, len(k) + 1))          # the chain of ancestors
            universe.update(_key(p) for p in _walk(arg))
        try:
            m = rb.Metadata(sc["metafile"])
        except Exception as e:  # noqa  every exception is a refusal: no Metadata object
            m = None
            sc["exception"] = type(e).__name__
        fm = {}
        if m is not None:
            os.listdir = (lambda p=".": sorted(real_listdir(p), reverse=sc["order"] == "reversed"))
            try:
                fm = rb._index_contents([sc["search_arg"]], m.filenames)
            finally:
                os.listdir = real_listdir
            for e in m.files:           # every path the run could touch
                tk = _key(os.path.join(sc["dest_arg"], str(e["full"])))
                universe.update(tk[:i] for i in range(1, len(tk) + 1))
                universe.add(tk + (str(e["filename"]),))
        universe.discard(())
        before = {k: _state(k) for k in universe}
        sc["fm"] = ";".join(rc.hx(nm) + "=" + ",".join(rc.hx(loc) + ":" + oracle.read(loc).hex() for loc, _sz in cs)
                            for nm, cs in fm.items()) or "-"
        sc["fm_order"] = {nm: [os.path.relpath(loc, sc["search_arg"]) for loc, _ in cs] for nm, cs in fm.items()}
        sc["fs"] = ";".join(_enc(k) + "=" + v for k, v in sorted(before.items()) if v != "N") or "-"
        if m is None:
            sc["tag"] = "none"
        else:
            try:
                trees.quiet(m.rebuild, fm, sc["dest_arg"])
                sc["tag"] = "ok"
            except Exception as e:  # noqa  nothing in rebuild.py catches: the run ends here
                sc["tag"] = "raised"
                sc["exception"] = type(e).__name__
        for arg in (sc["search_arg"], sc["dest_arg"]):
            universe.update(_key(p) for p in _walk(arg))
        universe.discard(())
        sc["universe"] = sorted(universe)
        sc["before"] = before
        sc["after"] = [_state(k) for k in sc["universe"]]
    finally:
        os.listdir = real_listdir
        os.chdir(home)


def describe(sc):
    return {k: sc.get(k) for k in ("index", "kind", "tampered", "mode", "dest_arg", "order", "files", "candidates", "fm_order",
                                   "destination", "destination_files", "tag", "exception")}


def tie_rebuild_run(ctx, model_ok, n=None):
    """Metadata(metafile).rebuild(filemap, dest) on a real scratch directory vs the extracted rebuild_of_metafile"""
    core.use_repo_in_process()
    from torrentfile import rebuild as rb
    rng = ctx.rng
    if n is None:
        n = 40 if ctx.tier == "quick" else 500
    with core.Scratch("vcrp_") as tmp:
        tmp = os.path.realpath(tmp)
        os.makedirs(os.path.join(tmp, "probe"))
        dsize = os.path.getsize(os.path.join(tmp, "probe"))      # what os.path.getsize reports for a directory here
        for c0 in range(0, n, 50):
            batch = []
            for ci in range(c0, min(c0 + 50, n)):
                cdir = os.path.join(tmp, f"c{ci}")
                os.makedirs(cdir)
                try:
                    sc = _scenario(rng, ci, cdir)
                    _run_real(rb, sc)
                except Exception as e:  # noqa
                    ctx.broken.append(f"rebuild pipeline tie: scenario {ci} could not be built / run: {type(e).__name__}: {e}")
                    shutil.rmtree(cdir, ignore_errors=True)
                    continue
                shutil.rmtree(cdir, ignore_errors=True)
                changed = sum(1 for k, s in zip(sc["universe"], sc["after"]) if sc["before"].get(k, "N") != s)
                cl = ["rebuild pipeline", "rebuild pipeline: kind " + sc["kind"], "rebuild pipeline: " + sc["mode"] + " paths",
                      "returned" if sc["tag"] == "ok" else "raised" if sc["tag"] == "raised" else "no Metadata object",
                      "run changed the filesystem" if changed else "run changed nothing"]
                if sc["tampered"]:
                    cl.append("metafile tampered: " + sc["tampered"])
                cl += sorted(set(sc["classes"]))
                ctx.case(key=("rebuildrun", ci, sc["kind"], tuple(sc["files"].items()), sc["destination"],
                              tuple(sorted(sc["destination_files"].items())), sc["tag"], changed),
                         classes=cl, nontrivial=changed > 0 or sc["destination"] == "pre-populated",
                         sample=dict(describe(sc), paths_changed=changed) if ci == 3 else None)
                batch.append(sc)
            if not model_ok or not batch:
                continue
            lines = [(str(dsize), rc.hx(sc["dest_arg"]), sc["raw"].hex(), sc["fm"], sc["fs"],
                      ";".join(_enc(k) for k in sc["universe"])) for sc in batch]
            outs = modelrun.run("rebuildrun", lines)
            if outs is None:
                ctx.broken.append("extracted model driver (rebuildrun) failed to run")
                return
            for sc, o in zip(batch, outs):
                ctx.traces_validated += 1
                if o.startswith("ERROR"):
                    ctx.broken.append(f"rebuildrun driver: {o[:100]} on scenario {sc['index']}")
                    continue
                impl = sc["tag"] if sc["tag"] == "none" else sc["tag"] + "|" + ";".join(sc["after"])
                if o == impl:
                    continue
                mtag, _, mstates = o.partition("|")
                diffs = []
                if mtag in ("ok", "raised") and sc["tag"] != "none":
                    for k, ms, im in zip(sc["universe"], mstates.split(";"), sc["after"]):
                        if ms != im:
                            diffs.append({"path": "/".join(k[-4:]), "before": _short(sc["before"].get(k, "N")),
                                          "model": _short(ms), "impl": _short(im)})
                ctx.disagree("Model/RebuildRun.v rebuild_of_metafile (after pyloads) vs Metadata(metafile).rebuild(filemap, dest): "
                             "returned/raised and the state of every path",
                             describe(sc), {"result": mtag, "paths that differ": diffs[:6]},
                             {"result": sc["tag"], "exception": sc.get("exception")})


modelrun.register("rebuildrun", "rebuildrun")
