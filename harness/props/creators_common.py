"""
Shared machinery for everything that rests on Model/Creators.v (C01, C02, C03, C06, C08, C10):

* content trees WITH an explicit enumeration order (the `node` of the Coq model), their wire format, and a patch of
  os.listdir / os.scandir (Path.iterdir of Python 3.12 goes through os.listdir) that makes every registered directory
  enumerate in exactly that order -- "enumeration order" becomes a controlled input that model and code both receive;
* a patched clock (torrentfile.torrent.datetime) and block size (torrentfile.hasher.BLOCK_SIZE, cases marked
  patched_constant);
* the UNIT CORRESPONDENCE of the creators model: the six creator variants of /repo write a metafile, the extracted
  Coq functions create_v1 / create_v2_class / create_hybrid_class / create_assembler composed with Model/Bencode.v
  `encode` predict its BYTES (name and root derived with Spec/PathSem.v name_of / pathlib_str from the working directory
  and the path spelling the creator was given) -- compared byte for byte;
* the correspondence of Spec/PathSem.v with os.path / pathlib of the interpreter that runs /repo.

Symbolic links: the `node` of the model is a regular file or a directory -- the model has no notion of a link and PathSem is
lexical.  The trees and spellings of the unit correspondence are therefore link-free ON PURPOSE; payloads with symbolic links
(trees.add_links, the aimed sequences of C08 / C12) are judged end to end only, by the property's own reading (a reader that
follows links), never handed to the model.
"""
import os
import random
import pathlib
import posixpath
import itertools
import contextlib
import concurrent.futures

import core
import trees
import modelrun

B_REAL = 16384
KINDS = ["v1", "v1-align", "v2-class", "hybrid-class", "v2-asm", "hybrid-asm"]
CLASS_OF = {
    "v1": ("TorrentFile", {"align": False}),
    "v1-align": ("TorrentFile", {"align": True}),
    "v2-class": ("TorrentFileV2", {}),
    "hybrid-class": ("TorrentFileHybrid", {}),
    "v2-asm": ("TorrentAssembler", {"meta_version": "2"}),
    "hybrid-asm": ("TorrentAssembler", {"meta_version": "3"}),
}
# Appendix B, row "creators"
REQUIRED_CLASSES = ["single file", "flat", "nested", "full-path order != per-directory order",
                    "identical files (shared root)", ">= 2 multi-piece files whose roots sort against tree order",
                    "empty directory present"] + trees.NAME_CLASSES

# ------------------------------------------------------------------------------------------------ content trees
# node = ["F", size, salt] | ["D", [[name, node], ...]]     JSON-able; entries in ENUMERATION order.
# The bytes of a file are a pure function of (size, salt), so replays stay small.  salt "z" = zero bytes.
_DATA = {}


def data_of(size, salt):
    key = (size, salt)
    if key not in _DATA:
        if len(_DATA) > 400:
            _DATA.clear()
        _DATA[key] = bytes(size) if salt == "z" else random.Random(f"creators-data:{salt}").randbytes(size)
    return _DATA[key]


def F(size, salt):
    return ["F", int(size), salt]


def D(entries):
    return ["D", [[n, c] for n, c in entries]]


def is_file(node):
    return node[0] == "F"


def wire(node):
    if node[0] == "F":
        return "F" + data_of(node[1], node[2]).hex()
    return "D(" + ",".join(name.encode("utf-8").hex() + "=" + wire(c) for name, c in node[1]) + ")"


def write_node(path, node):
    if node[0] == "F":
        os.makedirs(os.path.dirname(path), exist_ok=True)
        with open(path, "wb") as fd:
            fd.write(data_of(node[1], node[2]))
        return
    os.makedirs(path, exist_ok=True)
    for name, c in node[1]:
        write_node(os.path.join(path, name), c)


def files_of(node, rel=()):
    """[(rel components, size, salt)] in enumeration order"""
    if node[0] == "F":
        return [(rel, node[1], node[2])]
    out = []
    for name, c in node[1]:
        out += files_of(c, rel + (name,))
    return out


def dirs_of(node, rel=()):
    """[(rel components, [names in enumeration order])] for every directory"""
    if node[0] == "F":
        return []
    out = [(rel, [n for n, _ in node[1]])]
    for name, c in node[1]:
        out += dirs_of(c, rel + (name,))
    return out


def total_size(node):
    return sum(s for _, s, _ in files_of(node))


def summary(node):
    """human readable: path -> size (directories end with /)"""
    if node[0] == "F":
        return {"<single>": node[1]}
    out = {}
    for rel, names in dirs_of(node):
        if not names and rel:
            out["/".join(rel) + "/"] = "empty dir"
    for rel, size, _ in files_of(node):
        out["/".join(rel)] = size
    return out


def sorted_node(node):
    """the same tree with every directory enumerated in ascending name order"""
    if node[0] == "F":
        return node
    return D(sorted(((n, sorted_node(c)) for n, c in node[1]), key=lambda e: e[0]))


def permuted(node, rng):
    """the same tree, every directory enumerated in a random order"""
    if node[0] == "F":
        return node
    es = [(n, permuted(c, rng)) for n, c in node[1]]
    rng.shuffle(es)
    return D(es)


def reorder_dir(node, rel, order):
    """the same tree with the directory at rel enumerated in the given order of names"""
    if not rel:
        d = dict((n, c) for n, c in node[1])
        return D([(n, d[n]) for n in order])
    return D([(n, reorder_dir(c, rel[1:], order) if n == rel[0] else c) for n, c in node[1]])


def all_orders(node, max_entries=4, cap=None):
    """every tree obtained by permuting ONE directory with <= max_entries entries (all its permutations), the other
       directories as they are -- plus, for a small tree, the full product over all directories when it is <= cap"""
    out = []
    ds = [(rel, names) for rel, names in dirs_of(node) if 2 <= len(names) <= max_entries]
    for rel, names in ds:
        for perm in itertools.permutations(names):
            if list(perm) != names:
                out.append(reorder_dir(node, rel, list(perm)))
    if cap:
        n = 1
        for _, names in ds:
            for k in range(2, len(names) + 1):
                n *= k
        if len(ds) >= 2 and n <= cap:
            out = []
            for combo in itertools.product(*[list(itertools.permutations(names)) for _, names in ds]):
                t = node
                for (rel, _), perm in zip(ds, combo):
                    t = reorder_dir(t, rel, list(perm))
                if t != node:
                    out.append(t)
    return out


def from_flat(tree, empty_dirs=(), rng=None):
    """trees.gen_tree style {components: bytes-or-(size, salt)} -> node (entries in insertion order, shuffled by rng)"""
    if list(tree) == [()]:
        v = tree[()]
        return F(*v)
    root = {}
    for comps, v in tree.items():
        d = root
        for c in comps[:-1]:
            d = d.setdefault(c, {})
        d[comps[-1]] = F(*v)
    for comps in empty_dirs:
        d = root
        for c in comps:
            d = d.setdefault(c, {})

    def conv(d):
        es = [(n, c if isinstance(c, list) else conv(c)) for n, c in d.items()]
        if rng is not None:
            rng.shuffle(es)
        return D(es)
    return conv(root)


# ------------------------------------------------------------------------------------------------ patches
class EnumOrder:
    """while active, os.listdir / os.scandir return the entries of the registered directories in the registered order
       (real path of the directory -> list of names); any other directory is enumerated as the OS does it"""

    def __init__(self, mapping=None):
        self.mapping = dict(mapping or {})
        self.problems = []
        self.hits = 0

    def set_tree(self, realroot, node):
        self.mapping = mapping_of(realroot, node)

    def _order(self, path, names):
        try:
            p = os.fspath(path)
        except TypeError:
            return None
        if isinstance(p, bytes):
            return None
        want = self.mapping.get(os.path.realpath(p))
        if want is None:
            return None
        if sorted(want) != sorted(names):
            self.problems.append(f"directory {p!r} holds {sorted(names)} but the case registered {sorted(want)}")
            return None
        self.hits += 1
        return want

    def __enter__(self):
        self._listdir, self._scandir = os.listdir, os.scandir
        outer = self

        def listdir(path="."):
            names = outer._listdir(path)
            want = outer._order(path, names)
            return list(want) if want is not None else names

        class scandir:  # noqa: N801
            def __init__(self, path="."):
                with outer._scandir(path) as it:
                    entries = list(it)
                want = outer._order(path, [e.name for e in entries]) if entries and isinstance(entries[0].name, str) else None
                if want is not None:
                    by = {e.name: e for e in entries}
                    entries = [by[n] for n in want]
                self._it = iter(entries)

            def __iter__(self):
                return self

            def __next__(self):
                return next(self._it)

            def __enter__(self):
                return self

            def __exit__(self, *_):
                return False

            def close(self):
                pass

        os.listdir, os.scandir = listdir, scandir
        return self

    def __exit__(self, *_):
        os.listdir, os.scandir = self._listdir, self._scandir
        return False


def mapping_of(realroot, node):
    realroot = os.path.realpath(realroot)
    return {os.path.join(realroot, *rel): names for rel, names in dirs_of(node)}


def created_by():
    core.use_repo_in_process()
    from torrentfile.version import __version__
    return f"torrentfile_v{__version__}"


@contextlib.contextmanager
def patched(cwd=None, clock=None, block=None):
    """run /repo in process with the working directory, the clock read by MetaFile.__init__ and BLOCK_SIZE set"""
    core.use_repo_in_process()
    from torrentfile import torrent, hasher, utils
    cache = getattr(utils.filelist_total, "cache", None)
    if cache is not None:
        cache.clear()
    old_cwd, old_dt, old_b = os.getcwd(), torrent.datetime, hasher.BLOCK_SIZE

    class FakeDatetime:
        @staticmethod
        def now(*_a, **_k):
            return FakeDatetime

        @staticmethod
        def timestamp(_x=None):
            return clock
    try:
        if clock is not None:
            torrent.datetime = FakeDatetime
        if block is not None and block != old_b:
            hasher.BLOCK_SIZE = block
        if cwd is not None:
            os.chdir(cwd)
        yield
    finally:
        os.chdir(old_cwd)
        torrent.datetime = old_dt
        hasher.BLOCK_SIZE = old_b


def run_class(kind, spelling, outfile, pl, opts, progress=0, reassemble=False):
    """construct the creator class on the path AS SPELLED and write(); returns the bytes of the written file.
       reassemble: the legacy pattern of the library -- write(), then the PUBLIC assemble() again on the same object, then the
       write() whose bytes are returned (the model is a function: one tree, one metafile, however often it is assembled)"""
    from torrentfile import torrent
    cls, kw = CLASS_OF[kind]
    kw = dict(kw)
    kw.update(opts)
    t = trees.quiet(getattr(torrent, cls), path=spelling, piece_length=pl, progress=progress, **kw)
    if reassemble:
        trees.quiet(t.write, outfile + ".first")
        trees.quiet(t.assemble)
    out, _ = trees.quiet(t.write, outfile)
    with open(out, "rb") as fd:
        return fd.read()


# ------------------------------------------------------------------------------------------------ the model
def _hx(s):
    return (s or "").encode("utf-8").hex() if isinstance(s, str) or s is None else bytes(s).hex()


def _lst(l):
    if not l:
        return "-"
    if isinstance(l, str):
        l = [l]
    return ",".join(x.encode("utf-8").hex() for x in l)


def model_line(kind, block, pl, cwd, spelling, cby, clock, opts, node_wire):
    return (kind, str(block), str(pl), _hx(cwd), _hx(spelling), _hx(cby), str(int(clock)),
            _lst(opts.get("announce")), _hx(opts.get("comment")), "1" if opts.get("private") else "0",
            _hx(opts.get("source")), _lst(opts.get("url_list")), _lst(opts.get("httpseeds")), node_wire)


def run_model(fn, lines, jobs=12):
    """modelrun.run in parallel chunks (contiguous, balanced by line length); None if a chunk failed"""
    if not lines:
        return []
    jobs = max(1, min(jobs, len(lines)))
    # greedy balance by cost (length of the line), keep order inside a chunk
    order = sorted(range(len(lines)), key=lambda i: -sum(len(f) for f in lines[i]))
    bins = [[] for _ in range(jobs)]
    load = [0] * jobs
    for i in order:
        j = load.index(min(load))
        bins[j].append(i)
        load[j] += sum(len(f) for f in lines[i]) + 2000
    bins = [sorted(b) for b in bins if b]
    with concurrent.futures.ThreadPoolExecutor(len(bins)) as ex:
        outs = list(ex.map(lambda b: modelrun.run(fn, [lines[i] for i in b]), bins))
    if any(o is None for o in outs):
        return None
    res = [None] * len(lines)
    for b, o in zip(bins, outs):
        for i, line in zip(b, o):
            res[i] = line
    return res


# ------------------------------------------------------------------------------------------------ case generation
FILE_NAMES = ["a", "a.txt", "a-b", "A", "b", "ab", "a b", "é", "z", "0", "_x", "a.d", "B.bin", "c+d", "日本", "readme",
              "README", "Readme", "a.TXT", "ä", "we\\ird.bin", "a\\b",       # a backslash is an ordinary character on POSIX
              "wait....bin", "..hidden", "a..", "x..y"]       # consecutive dots INSIDE a name: ordinary names, not the segment ".."
DIR_NAMES = ["a", "d", "a.d", "sub dir", "Z", "é", "a-b", "0", "Data", "data", "日本", "b\\s", "payload", "xpayload", "disc..2", "..d",
             "a.."]
PAYLOAD_NAMES = ["payload", "pay load", "päy.d", "日本", "P", "a.b-c", "payload.tar.gz"]
# names whose TEXT and BYTES readings differ (trees.py, round 7): decomposed (NFD) Unicode, glob metacharacters, mixed case.
# All of them are valid UTF-8 without '/', so they satisfy wf_node and go to the extracted model as well (it works on the UTF-8
# bytes; a Python str sorts by code point = UTF-8 byte order)
FILE_NAMES += trees.NFD_NAMES[:5] + trees.GLOB_NAMES[:6] + ["README.txt", "data.bin"]
DIR_NAMES += trees.NFD_DIRS + trees.GLOB_DIRS[:4] + ["B"]
PAYLOAD_NAMES += ["Album [FLAC]", "cafe\u0301", "pay*load?", "A\u030a.d"]
OPTION_KEYS = ["announce", "comment", "private", "source", "url_list", "httpseeds"]
OPTION_VALUES = {
    "announce": [["http://t.example/announce"], ["http://t.example/a", "udp://u.example:6969/x"], "http://str.example/ann",
                 ["http://é.example/ä", "http://b/", "http://c/"]],
    "comment": ["a comment", "c d é", "日本語"],
    "private": [True],
    "source": ["SRC", "x y", "ſource"],
    "url_list": [["http://w.example/a"], ["http://w.example/a", "http://w.example/b c"]],
    "httpseeds": [["http://h.example/s"], ["http://h.example/s", "http://h2.example/é"]],
}


def options_of(mask, rng):
    """the option subset with the given 6-bit mask (bit i = OPTION_KEYS[i] present)"""
    return {k: rng.choice(OPTION_VALUES[k]) for i, k in enumerate(OPTION_KEYS) if mask >> i & 1}


def size_pool(pl, block=B_REAL):
    return sorted({0, 1, 2, 100, block - 1, block, block + 1, 2 * block - 1, pl // 2, pl - 1, pl, pl + 1, pl + block,
                   2 * pl - 1, 2 * pl, 2 * pl + 1, 3 * pl, 3 * pl + block + 7, 4 * pl, 5 * pl - block})


def dedupe(node):
    """drop later entries whose name repeats in a directory (generator hygiene: wf_node needs distinct names)"""
    if node[0] == "F":
        return node
    seen, es = set(), []
    for n, c in node[1]:
        if n not in seen:
            seen.add(n)
            es.append((n, dedupe(c)))
    return D(es)


def gen_node(rng, pl, flavour, budget, block=B_REAL):
    """a content tree of the given flavour with about budget bytes at most (distinct names per directory, >= 1 file)"""
    node = dedupe(_gen_node(rng, pl, flavour, budget, block))
    if not files_of(node):
        node = D(node[1] + [["a", F(1, "only")]])
    return node


def _gen_node(rng, pl, flavour, budget, block=B_REAL):
    pool = [s for s in size_pool(pl, block) if s <= budget]
    salt_n = [0]

    def salt():
        salt_n[0] += 1
        return f"{rng.randrange(10 ** 9)}-{salt_n[0]}"
    left = [budget]

    def fsize(nonzero=False, multi=False):
        cand = [s for s in pool if s <= left[0] and (not nonzero or s > 0) and (not multi or s > pl)]
        if not cand:
            cand = [s for s in pool if s <= left[0] and (not nonzero or s > 0)] or [1 if nonzero else 0]
        s = rng.choice(cand) if rng.random() < 0.8 else rng.randrange(1 if nonzero else 0, max(2, min(left[0], 3 * pl)))
        s = min(s, max(left[0], 1 if nonzero else 0))
        left[0] -= s
        return s

    def fnode(**k):
        s = fsize(**k)
        return F(s, "z" if rng.random() < 0.06 else salt())

    def names(pool_, k):
        return rng.sample(pool_, min(k, len(pool_)))

    if flavour == "single":
        return F(fsize(nonzero=True), salt())
    if flavour == "flat":
        return D([(n, fnode()) for n in names(FILE_NAMES, rng.randrange(1, 7))])
    if flavour == "order":
        # a directory next to a sibling whose name is the directory's name plus a character below "/" (0x2f): the order of
        # whole path strings (filelist_total) then differs from the order per directory (the _traverse methods)
        d = rng.choice(["a", "d", "Show", "é"])
        sib = d + rng.choice([".txt", "-b", " 2", "+x", ".d", "!", ",v", "-"])
        es = [(d, D([(n, fnode()) for n in names(FILE_NAMES, rng.randrange(1, 3))])), (sib, fnode())]
        if rng.random() < 0.5:
            es.append((rng.choice(["A", "b", "0", "z"]), fnode()))
        if rng.random() < 0.4:       # the same one level down
            es[0][1][1].append([d + "x", D([("k", fnode(nonzero=True))])])
            es[0][1][1].append([d + "x.y", fnode()])
        rng.shuffle(es)
        return D(es)
    if flavour == "identical":
        s = rng.choice([x for x in pool if 0 < x <= budget // 3] or [5])
        sa = salt()
        left[0] -= 2 * s
        es = [("dup1.bin", F(s, sa)), ("sub", D([("dup2.bin", F(s, sa)), ("other", fnode())]))]
        if rng.random() < 0.5:
            es.append(("dup3", F(s, sa)))
            left[0] -= s
        es.append((rng.choice(["a", "z"]), fnode()))
        rng.shuffle(es)
        return D(es)
    if flavour == "multi":
        k = rng.choice([2, 2, 3])
        es = []
        for n in names(["m1.bin", "m2.bin", "m3.bin", "A.bin", "z"], k):
            s = rng.choice([x for x in (pl + 1, 2 * pl, 2 * pl + 1, 3 * pl - 1, pl + block + 7, 2 * pl + block) if x <= left[0]] or [pl + 1])
            left[0] -= s
            es.append((n, F(s, salt())))
        sub = [es.pop()] if rng.random() < 0.6 else []
        if sub:
            sub.append(("tiny", fnode()))
            es.append((rng.choice(["mdir", "0dir", "zdir"]), D(sub)))
        es.append(("small", fnode()))
        rng.shuffle(es)
        return D(es)
    if flavour == "emptydir":
        es = [(n, fnode()) for n in names(FILE_NAMES, rng.randrange(1, 4))]
        es.append(("empty dir", D([])))
        if rng.random() < 0.6:
            es.append(("d", D([("e", D([])), ("f", fnode())] if rng.random() < 0.7 else [("e", D([("ee", D([]))]))])))
        if rng.random() < 0.3:
            es.append(("0", D([])))
        rng.shuffle(es)
        return D(es)
    if flavour == "names":
        # the aimed name groups of trees.add_aimed_names (decomposed Unicode next to a sibling that sorts between the decomposed
        # and the composed spelling, glob metacharacters in directory and file names, mixed-case siblings) on top of a few files
        flat = {(n,): None for n in names(FILE_NAMES, rng.randrange(0, 3))}
        if rng.random() < 0.4:
            comps = (rng.choice(DIR_NAMES), rng.choice(FILE_NAMES))
            if trees._free(flat, comps):         # the pools overlap: a directory may not take the name of a file
                flat[comps] = None
        groups = list(trees.NAME_GROUPS) if rng.random() < 0.5 else \
            ([g for g in trees.NAME_GROUPS if rng.random() < 0.6] or [rng.choice(trees.NAME_GROUPS)])
        trees.add_aimed_names(rng, flat, pl, groups, budget=0)        # only the names are taken: the sizes are drawn below
        if not flat:
            flat[("a",)] = None
        root = {}
        for comps in flat:
            d = root
            for c in comps[:-1]:
                d = d.setdefault(c, {})
            d[comps[-1]] = fnode()

        def conv_(d):
            es = [(n, c if isinstance(c, list) else conv_(c)) for n, c in d.items()]
            rng.shuffle(es)
            return D(es)
        return conv_(root)
    if flavour == "case":
        # names that differ only in letter case (legal on a case-sensitive filesystem)
        es = [(n, fnode()) for n in names(["readme", "README", "Readme", "ReadMe"], rng.randrange(2, 5))]
        es.append(("Data", D([("blob", fnode()), ("x", fnode())])))
        es.append(("data", D([("blob", fnode())])))
        rng.shuffle(es)
        return D(es)
    # nested: 1..6 files, depth <= 3
    root = {}
    for _ in range(rng.randrange(1, 7)):
        depth = rng.choice([0, 1, 1, 2, 3])
        comps = [rng.choice(DIR_NAMES) for _ in range(depth)] + [rng.choice(FILE_NAMES)]
        d, ok = root, True
        for c in comps[:-1]:
            if isinstance(d.get(c, {}), list):
                ok = False
                break
            d = d.setdefault(c, {})
        if ok and comps[-1] not in d:
            d[comps[-1]] = fnode()
    if not files_of_dict(root):
        root["a"] = fnode(nonzero=True)

    def conv(d):
        es = [(n, c if isinstance(c, list) else conv(c)) for n, c in d.items()]
        rng.shuffle(es)
        return D(es)
    return conv(root)


def files_of_dict(d):
    return [1 for v in d.values() if isinstance(v, list)] + [x for v in d.values() if isinstance(v, dict) for x in files_of_dict(v)]


FLAVOURS = ["single", "flat", "nested", "order", "identical", "multi", "emptydir", "case", "nested", "names"]

_ROOTS = {}


def _root_of(data, block):
    from ref import oracle
    key = (data, block)
    if key not in _ROOTS:
        if len(_ROOTS) > 300:
            _ROOTS.clear()
        old = oracle.BLOCK
        oracle.BLOCK = block
        try:
            _ROOTS[key] = oracle.pieces_root(data)
        finally:
            oracle.BLOCK = old
    return _ROOTS[key]


def classify(node, pl, block=B_REAL):
    """Appendix B "creators" classes (plus a few boundaries of the dictionaries) of one case"""
    cl = set()
    if is_file(node):
        cl.add("single file")
        return cl
    fl = files_of(node)
    dl = dirs_of(node)
    cl.add("nested" if any(len(rel) > 1 for rel, _, _ in fl) or any(len(rel) >= 1 for rel, _ in dl) else "flat")
    if any(not names and rel for rel, names in dl):
        cl.add("empty directory present")
    # tree order = per-directory sorted traversal; list order = sorted whole path strings
    tree_order = [rel for rel, _, _ in files_of(sorted_node(node))]
    list_order = sorted((rel for rel, _, _ in fl), key=lambda r: "/".join(r).encode("utf-8"))
    if tree_order != list_order:
        cl.add("full-path order != per-directory order")
    nonempty = [(s, sa) for _, s, sa in fl if s]
    if len(set(nonempty)) < len(nonempty):
        cl.add("identical files (shared root)")
    by_rel = {rel: (s, sa) for rel, s, sa in fl}
    multi = [by_rel[r] for r in tree_order if by_rel[r][0] > pl]
    if len(set(multi)) < len(multi):
        cl.add("identical multi-piece files (one piece-layers entry)")
    if len(set(multi)) >= 2:
        cl.add(">= 2 multi-piece files")
        roots = [_root_of(data_of(*m), block) for m in multi]
        if roots != sorted(roots):
            cl.add(">= 2 multi-piece files whose roots sort against tree order")
    sizes = [s for _, s, _ in fl]
    if 0 in sizes:
        cl.add("empty file")
    if not multi:
        cl.add("no multi-piece file (empty piece layers)")
    if any(s and s % pl == 0 for s in sizes):
        cl.add("file size = k*pl (no padding entry)")
    if pl in sizes:
        cl.add("file size = pl (no piece-layers entry)")
    lowered = {}
    for rel, names in dl:
        for n in names:
            lowered.setdefault((rel, n.lower()), set()).add(n)
    if any(len(v) > 1 for v in lowered.values()):
        cl.add("names differing only in case")
    if any(any(ord(ch) > 127 for ch in n) for _, names in dl for n in names):
        cl.add("non-ASCII name")
    if fl and tree_order and by_rel[tree_order[-1]][0] == 0:
        cl.add("empty file last")
    cl |= trees.classify_names({rel: None for rel, _, _ in fl})       # decomposed names, glob metacharacters, case / NFC order
    return cl


# spellings of the payload path: (label, cwd relative to the case directory, spelling builder)
# layout of a case directory:   <case>/w/<payload>   <case>/w/sib/   <case>/else/
def spellings(case_dir, payload_name, node, rng, want=None):
    """[(label, cwd, spelling)] -- spellings of <case>/w/<payload> that the OS resolves to the payload"""
    w = os.path.join(case_dir, "w")
    absolute = os.path.join(w, payload_name)
    single = is_file(node)
    out = [("absolute", os.path.join(case_dir, "else"), absolute),
           ("relative", w, payload_name),
           ("relative from the grandparent", case_dir, "w/" + payload_name),
           ("dot prefix", w, "./" + payload_name),
           ("dot segment inside", case_dir, "w/./" + payload_name),
           ("doubled separator", case_dir, "w//" + payload_name),
           ("doubled separators and dots", w, ".//.//" + payload_name),
           ("detour x/..", w, "sib/../" + payload_name),
           ("detour through the parent", w, "../w/" + payload_name),
           ("absolute with dot segments", os.path.join(case_dir, "else"), w + "/./sib/..//" + payload_name),
           ("absolute, two leading slashes", os.path.join(case_dir, "else"), "/" + absolute),
           ("absolute, three leading slashes", os.path.join(case_dir, "else"), "//" + absolute),
           ("relative from a sibling", os.path.join(w, "sib"), "../" + payload_name)]
    if not single:
        out += [("trailing separator", w, payload_name + "/"),
                ("trailing dot segment", w, payload_name + "/."),
                ("trailing separator twice", w, payload_name + "//"),
                ("trailing /./", w, payload_name + "/./"),
                ("absolute trailing separator", os.path.join(case_dir, "else"), absolute + "/"),
                ("absolute trailing dot", os.path.join(case_dir, "else"), absolute + "/."),
                ("through the payload and back", w, payload_name + "/../" + payload_name),
                ("from inside: .", absolute, "."),
                ("from inside: ./", absolute, "./"),
                ("from inside: ../name", absolute, "../" + payload_name)]
        subdirs = [rel for rel, _ in dirs_of(node) if rel]
        if subdirs:
            rel = subdirs[0]
            out += [("from a subdirectory: ..", os.path.join(absolute, *rel), "/".join([".."] * len(rel))),
                    ("via a child: sub/..", absolute, "/".join(rel) + "/" + "/".join([".."] * len(rel)))]
    if want is not None:
        out = [o for o in out if o[0] in want]
    return out


def make_case_dir(case_dir, payload_name, node):
    os.makedirs(os.path.join(case_dir, "w", "sib"), exist_ok=True)
    os.makedirs(os.path.join(case_dir, "else"), exist_ok=True)
    os.makedirs(os.path.join(case_dir, "out"), exist_ok=True)
    write_node(os.path.join(case_dir, "w", payload_name), node)
    return os.path.join(case_dir, "w", payload_name)


def gen_unit_cases(ctx, n, budget):
    """n cases: dict(node, pl, block, opts, payload, flavour, mask)"""
    rng = ctx.rng
    cases = []
    for i in range(n):
        flavour = FLAVOURS[i % len(FLAVOURS)]
        patched_b = (i % 7 == 5)
        block = rng.choice([4096, 8192]) if patched_b else B_REAL
        pl = rng.choice([16384, 16384, 32768] + ([65536] if budget >= 200000 else []))
        node = gen_node(rng, pl, flavour, budget, block)
        mask = i % 64
        cases.append({"node": node, "pl": pl, "block": block, "opts": options_of(mask, rng), "mask": mask,
                      "payload": rng.choice(PAYLOAD_NAMES) + (".bin" if is_file(node) and rng.random() < 0.5 else ""),
                      "flavour": flavour, "clock": rng.choice([0, 1, 1700000000, 2 ** 31, 2 ** 40 + 7, 1234567890]),
                      "index": i})
    return cases


def unit(ctx, model_ok, n=None, budget=None, kinds_per_case=None, only_kinds=None):
    """the unit correspondence of Model/Creators.v: every case is written by the real creators (enumeration order and clock
       controlled) under one spelling of its path and compared byte for byte with the extracted model's prediction
       (only_kinds: restrict the creator variants to this subset of KINDS; kinds_per_case then samples from it)"""
    pool = [k for k in KINDS if k in only_kinds] if only_kinds else KINDS
    quick = ctx.tier == "quick"
    n = n or (54 if quick else 640)
    budget = budget or (90000 if quick else 300000)
    cases = gen_unit_cases(ctx, n, budget)
    cby = created_by()
    lines, impl, inputs = [], [], []
    flt_lines, flt_impl, flt_inputs = [], [], []
    with core.Scratch("vcru_") as tmp:
        tmp = os.path.realpath(tmp)
        for case in cases:
            i, node, pl = case["index"], case["node"], case["pl"]
            case_dir = os.path.join(tmp, f"u{i}")
            absolute = make_case_dir(case_dir, case["payload"], node)
            sp = spellings(case_dir, case["payload"], node, ctx.rng)
            label, cwd, spelling = sp[0] if i % 3 == 0 else ctx.rng.choice(sp)
            kinds = pool if (kinds_per_case is None or not quick) else ctx.rng.sample(pool, min(kinds_per_case, len(pool)))
            w = wire(node)
            cl = classify(node, pl, case["block"])
            cl.add("spelling: " + label)
            if case["block"] != B_REAL:
                cl = {"patched_constant"} | {f"patched_constant B={case['block']}: " + c for c in cl}
            en = EnumOrder(mapping_of(absolute, node))
            # utils.filelist_total on its own: total size and the ORDER of the listed files
            try:
                with patched(cwd=cwd), en:
                    from torrentfile import utils
                    total, flist = utils.filelist_total(spelling)
                    rels = [os.path.relpath(p, spelling) for p in flist] if not is_file(node) else \
                        ["" if os.path.samefile(p, spelling) else p for p in flist]    # the model's relative path of the root is []
                flt_lines.append((_hx(str(pathlib.PurePosixPath(spelling))), w))
                flt_impl.append(f"{total}|" + _lst(rels))
                flt_inputs.append({"kind": "filelist_total", "tree": node, "summary": summary(node), "spelling": spelling,
                                   "cwd_rel": os.path.relpath(cwd, case_dir), "payload_name": case["payload"]})
                ctx.case(key=("flt", i, repr(node), label), classes=["filelist_total vs model"])
            except Exception as e:  # noqa
                ctx.disagree("Model/Creators.v filelist_total vs utils.filelist_total: raised", {"summary": summary(node)},
                             "a list", f"{type(e).__name__}: {e}")
            for kind in kinds:
                out = os.path.join(case_dir, "out", kind + ".torrent")
                inp = {"kind": "unit", "creator": kind, "tree": node, "summary": summary(node), "piece_length": pl,
                       "options": case["opts"], "payload_name": case["payload"], "spelling": spelling, "spelling_label": label,
                       "cwd_rel": os.path.relpath(cwd, case_dir), "clock": case["clock"], "block": case["block"],
                       "patched_constant": case["block"] != B_REAL, "reassemble": i % 3 == 1}
                try:
                    with patched(cwd=cwd, clock=case["clock"], block=case["block"]), en:
                        raw = run_class(kind, spelling, out, pl, case["opts"], reassemble=inp["reassemble"])
                except Exception as e:  # noqa
                    ctx.disagree("Model/Creators.v vs torrent.py: the creator raised", inp, "a metafile", f"{type(e).__name__}: {e}")
                    continue
                lines.append(model_line(kind, case["block"], pl, cwd, spelling, cby, case["clock"], case["opts"], w))
                impl.append(raw)
                inputs.append(inp)
                ctx.case(key=("unit", i, kind, repr(node), pl, case["mask"], label),
                         classes=sorted(cl) + [f"creator {kind}", f"options mask {case['mask']:02d}"], nontrivial=True,
                         sample={"creator": kind, "tree": summary(node), "pl": pl, "options": case["opts"], "spelling": spelling}
                         if len(lines) == 5 else None)
            if en.problems:
                ctx.broken.append("enumeration patch: " + en.problems[0])
            if not is_file(node) and any(n for _, n in dirs_of(node)) and not en.hits:
                ctx.broken.append("enumeration patch was never consulted for " + absolute)
    if not model_ok:
        return
    outs = run_model("create", lines)
    if outs is None:
        ctx.broken.append("extracted model driver (creators) failed to run")
        return
    fouts = run_model("flt", flt_lines)
    wouts = run_model("wf", [(l[1],) for l in flt_lines])
    if fouts is None or wouts is None:
        ctx.broken.append("extracted model driver (creators: filelist_total / wf_nodeb) failed to run")
    else:
        for o, im, wfo, inp in zip(fouts, flt_impl, wouts, flt_inputs):
            ctx.traces_validated += 1
            if wfo != "1":
                ctx.broken.append(f"harness: generated tree is not wf_node (the theorems' hypothesis): {inp['summary']}")
            if o != im:
                ctx.disagree("Model/Creators.v filelist_total vs utils.filelist_total (total | relative paths in list order)",
                             inp, o[:400], im[:400])
    for l, o, raw, inp in zip(lines, outs, impl, inputs):
        ctx.traces_validated += 1
        if o != raw.hex():
            ctx.disagree(f"Model/Creators.v + Bencode.encode vs torrent.{CLASS_OF[inp['creator']][0]} (bytes of the metafile)",
                         inp, _diff(o, raw), "see model field")


def _diff(model_hex, raw):
    """first difference between the model's bytes and the file, with context"""
    if model_hex.startswith("ERROR"):
        return model_hex[:200]
    try:
        m = bytes.fromhex(model_hex)
    except ValueError:
        return "unparsable model output " + model_hex[:80]
    k = 0
    while k < min(len(m), len(raw)) and m[k] == raw[k]:
        k += 1
    return {"first_difference_at": k, "model_len": len(m), "impl_len": len(raw),
            "model": repr(m[max(0, k - 60):k + 60]), "impl": repr(raw[max(0, k - 60):k + 60])}


def require_classes(ctx, required=REQUIRED_CLASSES, minimum=2):
    for c in required:
        if ctx.classes.get(c, 0) < minimum:
            ctx.broken.append(f"boundary class '{c}' was hit {ctx.classes.get(c, 0)} times (< {minimum}): the run is not accepted")


def unit_for(ctx, model_ok, only_kinds, n, budget, required, kinds_per_case=None, rounds=3):
    """the unit correspondence restricted to the creator variants a property's theorems speak about: runs unit() (again with
       fresh cases, at most `rounds` times) until every class of `required` was hit by a real-BLOCK_SIZE case of THIS
       correspondence (classes counted before the call, e.g. by an end-to-end generator, do not count), then demands it"""
    base, nd, nb = dict(ctx.classes), len(ctx.disagreements), len(ctx.broken)

    def hits(c):
        return ctx.classes.get(c, 0) - base.get(c, 0)
    for _ in range(rounds):
        unit(ctx, model_ok, n=n, budget=budget, kinds_per_case=kinds_per_case, only_kinds=only_kinds)
        if all(hits(c) >= 1 for c in required) or len(ctx.disagreements) > nd or len(ctx.broken) > nb:
            break
    for c in list(required) + [f"creator {k}" for k in (only_kinds or KINDS)]:
        if hits(c) < 1:
            ctx.broken.append(f"creators unit correspondence: class '{c}' was never hit: the run is not accepted")


def replay_disagreements(ctx, data, tag):
    """replay of a proof-or-correspondence-broken file: re-runs its unit correspondence cases (model vs implementation, byte
       for byte), prints the other disagreements and the broken obligations; returns 1 when something is still wrong"""
    import json
    dis = data.get("disagreements") or ([data] if "what" in data else [])
    rc = 0
    for d in dis[:5]:
        inp = d.get("input") or {}
        if not (isinstance(inp, dict) and inp.get("kind") == "unit" and "creator" in inp):
            print(f"[{tag} replay] correspondence case:", json.dumps(d, ensure_ascii=False)[:1500])
            rc = 1
            continue
        model, raw = replay_unit(ctx, inp)
        same = isinstance(raw, bytes) and model == raw
        print(f"[{tag} replay] unit correspondence {inp['creator']} on {inp['summary']} spelled {inp['spelling']!r}: "
              + ("model and implementation agree now" if same else "model and implementation DISAGREE"))
        if not same:
            rc = 1
            print("   ", _diff(model.hex() if model is not None else "ERROR no model output", raw if isinstance(raw, bytes) else b""),
                  "" if isinstance(raw, bytes) else f"impl raised {raw!r}")
    for b in data.get("broken") or []:
        print(f"[{tag} replay] broken obligation:", b[:500])
        rc = 1
    return rc


def replay_unit(ctx, inp):
    """re-run one unit correspondence case from its replay input; returns (model bytes | None, impl bytes | exception)"""
    node, pl = inp["tree"], inp["piece_length"]
    with core.Scratch("vcrr_") as tmp:
        tmp = os.path.realpath(tmp)
        absolute = make_case_dir(tmp, inp["payload_name"], node)
        cwd = os.path.normpath(os.path.join(tmp, inp["cwd_rel"]))
        spelling = inp["spelling"]
        if os.path.isabs(spelling):      # an absolute spelling names the scratch directory of the original run
            for _, c, s in spellings(tmp, inp["payload_name"], node, ctx.rng, want=[inp.get("spelling_label")]):
                cwd, spelling = c, s
        en = EnumOrder(mapping_of(absolute, node))
        try:
            with patched(cwd=cwd, clock=inp["clock"], block=inp["block"]), en:
                raw = run_class(inp["creator"], spelling, os.path.join(tmp, "out", "r.torrent"), pl, inp["options"],
                                reassemble=bool(inp.get("reassemble")))
        except Exception as e:  # noqa
            raw = e
        outs = run_model("create", [model_line(inp["creator"], inp["block"], pl, cwd, spelling, created_by(), inp["clock"],
                                               inp["options"], wire(node))])
    model = None
    if outs and not outs[0].startswith("ERROR"):
        model = bytes.fromhex(outs[0])
    return model, raw


# ------------------------------------------------------------------------------------------------ Spec/PathSem.v
COMPONENTS = ["a", "b", "c", "dir", "a.b", ".", "..", "", "é", "日本", "a b", "...", ".a", "a.", "-", "x" * 12]


def gen_path(rng, max_comps=6):
    k = rng.randrange(0, max_comps + 1)
    comps = [rng.choice(COMPONENTS) for _ in range(k)]
    s = "/".join(comps)
    r = rng.random()
    if r < 0.3:
        s = "/" + s
    elif r < 0.36:
        s = "//" + s
    elif r < 0.42:
        s = "///" + s
    if rng.random() < 0.2:
        s += "/"
    if rng.random() < 0.08:
        s += "/."
    return s


def gen_abs(rng, max_comps=4):
    """a normalised absolute path (a working directory)"""
    comps = [rng.choice(["a", "b", "c", "dir", "é", "日本", "a b", "home"]) for _ in range(rng.randrange(0, max_comps + 1))]
    return "/" + "/".join(comps)


def py_path_row(cwd, p, start, q):
    """what CPython computes, in the column order of the driver's `path` request (os.getcwd() replaced by cwd)"""
    import pathlib

    def abspath(x):
        return posixpath.normpath(x if posixpath.isabs(x) else posixpath.join(cwd, x))

    def relpath(x, st):
        # posixpath.relpath with os.getcwd() = cwd (same statements as CPython 3.12)
        start_list = [c for c in abspath(st).split("/") if c]
        path_list = [c for c in abspath(x).split("/") if c]
        i = len(posixpath.commonprefix([start_list, path_list]))
        rel_list = [".."] * (len(start_list) - i) + path_list[i:]
        if not rel_list:
            return "."
        return posixpath.join(*rel_list)
    hd, tl = posixpath.split(p)
    parent, old = posixpath.split(p)
    if not old:
        old = posixpath.basename(parent)
    return [posixpath.normpath(p), abspath(p), relpath(p, start), posixpath.basename(p), hd, tl, posixpath.join(p, q),
            posixpath.basename(abspath(p)), relpath(p, start).split("/"), str(pathlib.PurePosixPath(p)), old,
            posixpath.basename(p), p.split("/"), "1" if posixpath.isabs(p) else "0"]


def _enc_row(row):
    out = []
    for x in row[:-1]:
        if isinstance(x, list):
            out.append("-" if not x else ",".join(c.encode("utf-8").hex() for c in x))
        else:
            out.append(x.encode("utf-8").hex())
    return "|".join(out + [row[-1]])       # the last column (is_abs) is a flag, not a string


def pathsem(ctx, model_ok, n=None):
    """Spec/PathSem.v vs os.path / pathlib: generated strings, and real chdir + os.path on a sample to tie the cwd parameter"""
    n = n or (1500 if ctx.tier == "quick" else 20000)
    rng = ctx.rng
    lines, want, inputs = [], [], []
    fixed = ["", ".", "..", "/", "//", "///", "a", "a/", "a/.", "a/..", "./a", "a//b", "/a/../..", "../a", "a/./b/../c/",
             "//a", "///a", "/.", "/..", "a/b/../../..", "./", ".//", "é/日本/.", "dir/./", "..//..", "/a/b/", "a/b//", ".a/..b"]
    for i in range(n):
        p = fixed[i] if i < len(fixed) else gen_path(rng)
        cwd = gen_abs(rng)
        r = rng.random()
        if r < 0.35:
            start = p                                     # relpath(self.path, self.path)
        elif r < 0.75 and p:
            # start is a prefix spelling of p: the creators' use (path below self.path)
            start = p
            p = p + ("" if p.endswith("/") else "/") + "/".join(rng.choice(["a", "b", "é", "a.txt"]) for _ in range(rng.randrange(1, 4)))
        else:
            start = gen_path(rng) or "."
        if not start:
            start = "."
        q = gen_path(rng, 3)
        row = py_path_row(cwd, p, start, q)
        lines.append((_hx(cwd), _hx(p), _hx(start), _hx(q)))
        want.append(_enc_row(row))
        inputs.append({"cwd": cwd, "p": p, "start": start, "q": q})
        cl = []
        if "//" in p:
            cl.append("path: doubled separator")
        if p.endswith("/"):
            cl.append("path: trailing separator")
        if "/./" in p or p.startswith("./") or p.endswith("/."):
            cl.append("path: dot segment")
        if ".." in p.split("/"):
            cl.append("path: dotdot segment")
        cl.append("path: absolute" if p.startswith("/") else "path: relative")
        if any(ord(c) > 127 for c in p):
            cl.append("path: non-ASCII")
        ctx.case(key=("path", cwd, p, start, q), classes=cl, nontrivial=True)
    # the cwd parameter against the real os.getcwd(): real directories, real os.path.abspath / relpath
    real = []
    with core.Scratch("vcps_") as tmp:
        tmp = os.path.realpath(tmp)
        old = os.getcwd()
        try:
            for i in range(40 if ctx.tier == "quick" else 400):
                cwd = os.path.join(tmp, *[rng.choice(["a", "é", "b c"]) for _ in range(rng.randrange(0, 3))])
                os.makedirs(cwd, exist_ok=True)
                os.chdir(cwd)
                p, start = gen_path(rng), gen_path(rng) or "."
                if not p:
                    p = "."
                got = [os.path.abspath(p), os.path.relpath(p, start), os.path.basename(os.path.abspath(p)),
                       os.path.relpath(p, start).split(os.sep)]
                real.append((cwd, p, start, got))
                ctx.case(key=("path-real-cwd", os.path.relpath(cwd, tmp), p, start), classes=["path: real os.getcwd()"])
        finally:
            os.chdir(old)
    for cwd, p, start, got in real:
        row = py_path_row(cwd, p, start, "")
        if [row[1], row[2], row[7], row[8]] != got:
            ctx.broken.append(f"harness: os.path with a real working directory differs from the cwd-parameterised reading: {cwd!r} {p!r} {start!r}")
    # descend: the strings _filelist_total and _traverse build, and the relative components recovered from them
    dlines, dwant, dinputs = [], [], []
    import pathlib
    for i in range(n // 3):
        cwd = gen_abs(rng)
        s = gen_path(rng, 4) or "."
        names = [rng.choice(["a", "b", "é", "a.txt", "日本", "a b", "x.y"]) for _ in range(rng.randrange(0, 4))]
        pp = pathlib.PurePosixPath(s)
        for nm in names:          # Path.iterdir -> _make_child_relpath -> Path(str) again in filelist_total
            pp = pathlib.PurePosixPath(_child_str(pp, nm))
        a = str(pp)
        c = s
        for nm in names:
            c = posixpath.join(c, nm)
        ra = py_path_row(cwd, a, s, "")[8]
        rc = py_path_row(cwd, c, s, "")[8]
        dlines.append((_hx(cwd), _hx(s), _lst(names)))
        dwant.append("|".join([_hx(a), _hx(c), _lst(ra) if ra != [""] else "", _lst(rc) if rc != [""] else ""]))
        dinputs.append({"cwd": cwd, "s": s, "names": names})
        ctx.case(key=("descend", cwd, s, tuple(names)), classes=["path: descend depth %d" % len(names)])
    if not model_ok:
        return
    outs = run_model("path", lines)
    douts = run_model("descend", dlines)
    if outs is None or douts is None:
        ctx.broken.append("extracted model driver (creators: PathSem) failed to run")
        return
    cols = ["normpath", "abspath", "relpath", "basename", "os_split.head", "os_split.tail", "join", "name_of", "rel_components",
            "pathlib_str", "old_name", "old_name_v2", "split_path", "is_abs"]
    for o, w, inp in zip(outs, want, inputs):
        ctx.traces_validated += 1
        if o != w:
            of, wf = o.split("|"), w.split("|")
            bad = [c for c, x, y in zip(cols, of, wf) if x != y] if len(of) == len(wf) else ["(shape)"]
            ctx.disagree("Spec/PathSem.v vs posixpath/pathlib: " + ",".join(bad), inp, _dec_fields(of, cols), _dec_fields(wf, cols))
    dcols = ["pathlib_descend", "child_path", "rel_components(pathlib_descend)", "rel_components(child_path)"]
    for o, w, inp in zip(douts, dwant, dinputs):
        ctx.traces_validated += 1
        if o != w:
            ctx.disagree("Spec/PathSem.v descend vs pathlib/os.path.join", inp, _dec_fields(o.split("|"), dcols),
                         _dec_fields(w.split("|"), dcols))


def _child_str(pp, name):
    """pathlib.Path._make_child_relpath of CPython 3.12 on a pure path"""
    path_str = str(pp)
    tail = pp.parts[1:] if pp.root else pp.parts
    if tail:
        return f"{path_str}/{name}"
    if path_str != ".":
        return f"{path_str}{name}"
    return name


def _dec_fields(fields, cols):
    out = {}
    for c, f in zip(cols, fields):
        try:
            if "," in f:
                out[c] = [bytes.fromhex(x).decode("utf-8", "replace") for x in f.split(",")]
            elif f == "-":
                out[c] = []
            elif c == "is_abs":
                out[c] = f
            else:
                out[c] = bytes.fromhex(f).decode("utf-8", "replace")
        except ValueError:
            out[c] = f
    return out
