"""C02 -- v2 file tree, pieces roots and piece layers follow BEP 52 exactly."""
from props import v2_common as V

GEN_FILES = []
EXTRA_TARGETS = ["Extract/ExtractV2.vo"]
AREAS = ["v2"]
RULE = ("model tie: the extracted Coq models of HasherV2, HasherHybrid (padding on/off) and FileHasher (hybrid x padding, iterated "
        "to exhaustion as TorrentAssembler does) vs the real classes on one file per case -- root, piece layer and the yielded "
        "layer hashes are compared (C03 compares the v1 side); cases: every size of the boundary set {< B, k*B+-1, = pl, "
        "k*pl+-1, k*pl+-B, piece counts 1,2,3,4,5,8,9} x pl/B in {1,2,4,8} with the real BLOCK_SIZE (files <= 600 KB), and, "
        "marked patched_constant, sizes 0..160 x pl in {4,8,16,32,64} with torrentfile.hasher.BLOCK_SIZE patched to 4 (exhaustive in "
        "the thorough tier, together with B=1 and B=3 scopes (sizes 0..59, pl/B in {1,2,4,8}) and 400 random real-B sizes; a sample "
        "of 120 in quick; the quick tier runs the exhaustive scopes too when the source of a modelled function changed); merkle_root on "
        "lists of 0..33 hashes and next_power_2 on 0..1000 vs their models; Spec/Bep52.v vs the reference oracle on the same "
        "inputs.  Every real hasher is also compared with the reference oracle directly (root for size > 0, layer for size > pl). "
        "End to end: TorrentFileV2, TorrentFileHybrid, TorrentAssembler (meta version 2 and 3) and `create --meta-version 2|3` on "
        "generated trees (single files, flat and nested directories, empty files, identical files, >= 2 multi-piece files, sizes "
        "pl / pl+1, empty directories); the written metafile is decoded by the reference strict decoder and file tree, pieces "
        "roots (two reference formulations) and the piece-layers dictionary are compared with the tree as it is on disk.  "
        "A case is non-trivial when it is distinct and hits at least one boundary class.")
TRUSTED_BASE = V.TRUSTED_BASE
ASSUMPTIONS = V.ASSUMPTIONS


def run(ctx, model_ok):
    V.record_ast(ctx)
    V.small_functions(ctx, model_ok)
    V.unit(ctx, "C02", model_ok)
    V.e2e(ctx, "C02")
    if ctx.tier == "thorough":
        ctx.exhaustive = True       # the patched small scopes are enumerated completely
    V.require_classes(ctx, V.REQUIRED_V2 + V.REQUIRED_CREATORS)


def replay(ctx, data):
    return V.replay_case(ctx, data, "C02")
