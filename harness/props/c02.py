"""C02 -- v2 file tree, pieces roots and piece layers follow BEP 52 exactly."""
from props import v2_common as V
from props import creators_common as cc

GEN_FILES = ["GenTraverse.v"]
EXTRA_TARGETS = ["Extract/ExtractV2.vo", "Extract/ExtractCreators.vo"]
AREAS = ["v2", "creators"]
CREATOR_KINDS = ["v2-class", "v2-asm", "hybrid-class", "hybrid-asm"]      # v2_capable_output of the theorems
RULE = ("model tie: the extracted Coq models of HasherV2, HasherHybrid (padding on/off) and FileHasher (hybrid x padding, iterated "
        "to exhaustion as TorrentAssembler does) vs the real classes on one file per case -- root, piece layer and the yielded "
        "layer hashes are compared (C03 compares the v1 side); cases: every size of the boundary set {< B, k*B+-1, = pl, "
        "k*pl+-1, k*pl+-B, piece counts 1,2,3,4,5,8,9} x pl/B in {1,2,4,8} with the real BLOCK_SIZE (files <= 600 KB), and, "
        "marked patched_constant, sizes 0..160 x pl in {4,8,16,32,64} with torrentfile.hasher.BLOCK_SIZE patched to 4 "
        "(exhaustive in "
        "the thorough tier, together with B=1 and B=3 scopes (sizes 0..59, pl/B in {1,2,4,8}) and 400 random real-B sizes; a "
        "sample "
        "of 120 in quick; the quick tier runs the exhaustive scopes too when the source of a modelled function changed); "
        "merkle_root on "
        "lists of 0..33 hashes and next_power_2 on 0..1000 vs their models; Spec/Bep52.v vs the reference oracle on the same "
        "inputs.  Every real hasher is also compared with the reference oracle directly (root for size > 0, layer for size > pl). "
        "End to end: TorrentFileV2, TorrentFileHybrid, TorrentAssembler (meta version 2 and 3) and `create --meta-version 2|3` on "
        "generated trees (single files, flat and nested directories, empty files, identical files, >= 2 multi-piece files, sizes "
        "pl / pl+1, empty directories); the written metafile is decoded by the reference strict decoder and file tree, pieces "
        "roots (two reference formulations) and the piece-layers dictionary are compared with the tree as it is on disk.  "
        "Unit correspondence of Model/Creators.v (the creator-level theorems rest on it): TorrentFileV2, "
        "TorrentAssembler (meta version 2 and 3) and TorrentFileHybrid (two of the four per tree in the quick tier) "
        "write a metafile for generated content trees (single file / flat / nested to depth 3 / a directory next to a "
        "sibling whose name sorts between it and its children / identical files / >= 2 multi-piece files / empty "
        "directories / names differing only in case / non-ASCII names; sizes from {0,1,B+-1,B,pl+-1,pl,2pl+-1,...}), an "
        "option subset, one of 25 spellings of the path, a patched clock and the enumeration order of every directory "
        "fixed by a runner-side patch of os.listdir/os.scandir and handed to the model as the order of its entry lists; "
        "the extracted creator composed with Model/Bencode.v encode predicts the BYTES of the written file -- compared "
        "byte for byte.  "
        "A case is non-trivial when it is distinct and hits at least one boundary class.")
RULE += V.RULE_SCALE
TRUSTED_BASE = V.TRUSTED_BASE + [
    "hand-written models Model/Creators.v (the _traverse / assemble methods of TorrentFileV2, TorrentFileHybrid and "
    "TorrentAssembler, MetaFile.__init__, sort_meta), Model/Bencode.v (pyben's encoder) and Spec/PathSem.v (name and path "
    "components from the path string) tied to torrent.py by differential execution: extracted OCaml vs the BYTES the creator "
    "writes, under a controlled enumeration order (runner-side patch of os.listdir/os.scandir; Path.iterdir of CPython 3.12 calls "
    "os.listdir), a patched clock (torrentfile.torrent.datetime) and, for cases marked patched_constant, a patched "
    "torrentfile.hasher.BLOCK_SIZE",
]
ASSUMPTIONS = [a for a in V.ASSUMPTIONS if not a.startswith("creator-level statements")] + [
    "creator-level theorems (Props file, from Proofs/CreatorsProofs*.v) are about Model/Creators.v, which the unit correspondence "
    "ties to torrent.py byte for byte; the same statements are also checked end to end against the reference oracle",
    "file names are valid UTF-8 without '/', distinct per directory (wf_node); the payload contains at least one file",
]

UNIT_N = (72, 600)          # content trees of the creators unit correspondence (quick, thorough)


def run(ctx, model_ok):
    V.record_ast(ctx)
    V.small_functions(ctx, model_ok)
    V.unit(ctx, "C02", model_ok)
    V.e2e(ctx, "C02")
    if ctx.tier == "thorough":
        ctx.exhaustive = True       # the patched small scopes are enumerated completely
    V.require_classes(ctx, V.REQUIRED_V2 + V.REQUIRED_CREATORS)
    V.require_classes(ctx, V.REQUIRED_SCALE, minimum=1)      # the payloads at scale (piece lengths 2 .. 32 MiB) were reached
    # the creators unit correspondence counts its own boundary classes (after the end-to-end requirement above)
    quick = ctx.tier == "quick"
    cc.unit_for(ctx, model_ok, CREATOR_KINDS, n=UNIT_N[0] if quick else UNIT_N[1], budget=90000 if quick else 300000,
                required=cc.REQUIRED_CLASSES, kinds_per_case=2)


def replay(ctx, data):
    return V.replay_case(ctx, data, "C02")     # failures, disagreements, broken obligations and pinned reproducers alike
