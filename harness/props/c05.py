"""C05 -- recheck reports exactly 100% for intact content of any well-formed metafile."""
from props import recheck_common as rc

GEN_FILES = rc.GEN_FILES
EXTRA_TARGETS = rc.EXTRA_TARGETS
AREAS = rc.AREAS
RULE = ("model tie as C16 (same models, whole traces) on INTACT disk states: every layout of 1..4 files, sizes 0..5, piece length "
        "1..4 with reference-encoded v1 metafiles (complete in the thorough tier), real-granularity v1 and v2/hybrid cases from "
        "creators and reference encoder.  End to end: generated trees (1..6 files, depth <= 3, empty files, boundary sizes, single "
        "file) with non-empty payload x every metafile kind (v1, v1-align, v2-class, v2-asm, hybrid-class, hybrid-asm, reference v1, "
        "reference v2 incl. single file WITHOUT info.length, reference hybrid WITHOUT trailing pad entry): Checker(...).results() "
        "== 100 and is a float, through the payload root AND through its parent directory (same verdict), a part through cli.execute "
        "and `python -m torrentfile recheck`.  Every 9th tree is placed in a parent directory named like the payload on purpose "
        "(known finding D33, routed through classify).  Aimed class: recorded digest valid UTF-8 (D37).  REUSED OBJECTS: per tree and "
        "metafile kind three Checker objects are created on a DAMAGED / partly or wholly MISSING tree and asked once (results(); "
        "iter_hashes() run to its end then _result; alternating); the intact content is put back and each is asked again: exactly "
        "100.0.  AIMED layouts (model tie with the extracted FileHasher model and end to end over v2-class, v2-asm, hybrid-class, "
        "hybrid-asm, reference v2, reference hybrid, also single file): piece lengths 64 KiB and 128 KiB (4 / 8 blocks per piece) with "
        "files of 3, 5, 6, 7 blocks below one piece (exact, one byte less, one byte into the last block) and multi-piece files whose "
        "LAST piece has such a block count (the merkle padding of a partial piece).  Non-trivial = distinct and "
        "hits a boundary class (Appendix B, recheck row)."
        "  METAFILES OF ANOTHER ENCODER WITH BEP 47 ATTRIBUTES (kinds ref-v1-attr, ref-v1-attr-pad): reference-encoded v1 multi-file "
        "metafiles whose ORDINARY files carry attr x / h / xh (cycling, at least one non-empty file) -- plain, and with pad entries "
        "(attr p, .pad/<n>) between the files -- take part like every other kind in the small scope (a part of the multi-file "
        "layouts), the real-granularity model tie, the Checker.__init__ tie (fi_attr / fi_padding), the whole-run tie (recheck_model) "
        "and the end-to-end trees, plus aimed end-to-end layouts over these kinds and v1-align: only an attr containing p marks "
        "padding, every other entry is read from disk.  A DIRECTORY WHOSE ONLY FILE IS NAMED LIKE IT (data/data, and data/data/data): "
        "Checker.__init__ tie, whole-run tie and aimed end-to-end layouts over every v2-view kind (incl. reference v2, whose file tree "
        "then has the shape of a single-file metafile without info.length) + v1 / reference v1, through the payload root AND the "
        "parent directory." + rc.TEXT_RULE + rc.PATHS_RULE + rc.SCALE_RULE)
TRUSTED_BASE = rc.TRUSTED_BASE
ASSUMPTIONS = rc.ASSUMPTIONS


def run(ctx, model_ok):
    rc.run(ctx, "C05", model_ok)


def replay(ctx, data):
    return rc.replay(ctx, "C05", data)


classify = rc.classify_failure
