"""C04 -- recheck never reports 100% for damaged or incomplete content."""
from props import recheck_common as rc

GEN_FILES = rc.GEN_FILES
EXTRA_TARGETS = rc.EXTRA_TARGETS
AREAS = rc.AREAS
RULE = ("model tie as C16 (same models, whole traces) restricted to DAMAGED disk states: small scope = every single damage (each "
        "truncation length, each removal, a flip at each offset) of every layout of 1..4 files, sizes 0..5, piece length 1..4 "
        "(complete in the thorough tier, sampled in quick), real-granularity v1 and v2/hybrid cases with 1..3 damages.  End to end: "
        "generated trees x every metafile kind (6 creators + 3 reference encodings) x damage sets of 1..4 damages on distinct files "
        "(flip at boundary/random offsets, truncate to boundary/random lengths incl. 0, remove): Checker(...).results() must be < 100 "
        "(content path = root, for the first set of each tree also = parent directory, a part through the CLI).  A damage set counts "
        "only if every truncated/removed region has described bytes that are not all zero (guard kept although the data is random); "
        "the reference verifier must then find a failing piece (checked).  REUSED OBJECTS: per tree and metafile kind three Checker "
        "objects are created on the INTACT tree and asked once (results(); iter_hashes() run to its end then _result; alternating), "
        "then asked again after every damage set: each answer must be < 100 when the set qualifies.  AIMED layouts (model tie, all "
        "modes' judgement, and end to end over every v2-view kind + v1): an ABSENT zero-length file that is not the first file with "
        "the damage in a file sorting after it ([100,0,100] rm 1 + flip 2; [pl+1,0,0,5] rm 1, rm 2, trunc 3; an absent empty file "
        "between two multi-piece files with the last one truncated; ...), and piece lengths 64/128 KiB with files of 3/5/6/7 blocks "
        "below one piece (exact, -1, +1 byte) or in the last piece of a multi-piece file, flipped / truncated.  Non-trivial = distinct and hits a boundary class "
        "(Appendix B, recheck row)."
        "  METAFILES OF ANOTHER ENCODER WITH BEP 47 ATTRIBUTES (kinds ref-v1-attr, ref-v1-attr-pad): reference-encoded v1 multi-file "
        "metafiles whose ORDINARY files carry attr x / h / xh (cycling, at least one non-empty file) -- plain, and with pad entries "
        "(attr p, .pad/<n>) between the files -- take part like every other kind in the small scope (a part of the multi-file "
        "layouts), the real-granularity model tie, the Checker.__init__ tie (fi_attr / fi_padding), the whole-run tie (recheck_model) "
        "and the end-to-end trees, plus aimed end-to-end layouts over these kinds and v1-align: only an attr containing p marks "
        "padding, every other entry is read from disk.  A DIRECTORY WHOSE ONLY FILE IS NAMED LIKE IT (data/data, and data/data/data): "
        "Checker.__init__ tie, whole-run tie and aimed end-to-end layouts over every v2-view kind (incl. reference v2, whose file tree "
        "then has the shape of a single-file metafile without info.length) + v1 / reference v1, through the payload root AND the "
        "parent directory." + rc.TEXT_RULE + rc.PATHS_RULE + rc.SCALE_RULE)
TRUSTED_BASE = rc.TRUSTED_BASE
ASSUMPTIONS = rc.ASSUMPTIONS


def run(ctx, model_ok):
    rc.run(ctx, "C04", model_ok)


def replay(ctx, data):
    return rc.replay(ctx, "C04", data)


classify = rc.classify_failure
