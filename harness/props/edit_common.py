"""Shared enumeration of edit requests over base metafiles (used by C06 and C07)."""
import os
import itertools

import core
import trees
from ref import oracle

FIELDS = ["comment", "source", "private", "announce", "url-list", "httpseeds"]
CLI_FLAG = {"comment": "--comment", "source": "--source", "announce": "--tracker", "url-list": "--web-seed",
            "httpseeds": "--http-seed", "private": "--private"}


def base_metafiles(tmp, rng, extra=False):
    """extra=True (C07): 6 more, see extra_metafiles.  19 base metafiles: v1/v2/hybrid x {all optional fields, none, tracker+source} by the tool's creators; reference-encoded ones
       with foreign extra keys, with several tracker tiers, with UNSORTED keys, and with an explicit `private: 0` in info.
       returns list of (label, path)"""
    out = []
    pl = 16384
    tree = {("a",): rng.randbytes(pl + 7), ("d", "b"): rng.randbytes(2 * pl + 1), ("d", "e"): b""}
    payload = os.path.join(tmp, "base", "payload")
    trees.write_tree(payload, tree)
    full = dict(announce=["http://t/a", "http://t/b"], url_list=["http://w/1"], httpseeds=["http://h/1"],
                comment="orig comment", source="SRC", private=True)
    some = dict(announce=["http://t/a"], source="SRC")
    for kind in ("v1", "v2-asm", "hybrid-asm"):
        for label, opts in (("all-fields", full), ("no-fields", {}), ("tracker+source", some)):
            mf = os.path.join(tmp, "base", f"{kind}-{label}.torrent")
            trees.create(kind, payload, mf, pl, **opts)
            out.append((f"{kind}/{label}", mf))
    files = [(k, v) for k, v in sorted(tree.items())]
    for ver in (1, 2, 3):
        mf = os.path.join(tmp, "base", f"ref-v{ver}.torrent")
        extra_top = {b"announce": b"http://ref/a", b"created by": b"ref", b"zz-extra": [1, b"x"], b"comment": None}
        extra_top.pop(b"comment")
        with open(mf, "wb") as fd:
            fd.write(oracle.ref_metafile("payload", files, pl, ver, extra_top=extra_top,
                                         extra_info={b"source": b"refsrc", b"x-unknown": {b"k": 1}}))
        out.append((f"ref-v{ver}", mf))
    # BEP 12 tiers: an announce-list of several tiers (the creators only ever write one); a tracker edit replaces the whole list
    for ver in (3,):
        mf = os.path.join(tmp, "base", f"tiers-v{ver}.torrent")
        with open(mf, "wb") as fd:
            fd.write(oracle.ref_metafile("payload", files, pl, ver, extra_top={
                b"announce": b"http://t1/a", b"announce-list": [[b"http://t1/a"], [b"http://b1/a", b"http://b2/a"], [b"http://c/a"]],
                b"url-list": b"http://single/string"}, extra_info={b"private": 1}))
        out.append((f"ref-v{ver}-tiers", mf))
    # foreign key ORDER (as a number of third-party tools write it): the top level and the info dictionary are not sorted; the
    # info-hash is over the bytes as they are in the file, so an edit that names no info field must leave the span alone
    for ver in (1, 2, 3):
        raw = oracle.ref_metafile("payload", files, pl, ver, extra_top={b"announce": b"http://ref/u", b"url-list": [b"http://ref/w"]},
                                  extra_info={b"source": b"unsorted-src", b"x-unknown": {b"k": 1}})
        top = oracle.bdecode_lenient(raw)
        shuffled = oracle.OrderedPairs()
        for k, v in reversed(top):
            if k == b"info":
                v = oracle.OrderedPairs(list(v)[1::2] + list(v)[0::2])
            shuffled.append((k, v))
        mf = os.path.join(tmp, "base", f"unsorted-v{ver}.torrent")
        with open(mf, "wb") as fd:
            fd.write(oracle.bencode_ordered(shuffled))
        out.append((f"unsorted-v{ver}", mf))
    # info states `private: 0` EXPLICITLY (several tools always write the key): Set private must overwrite it with 1, a request that
    # does not name private must keep the 0; label "ref-vN/..." = reference-encoded metafile of version N (C06 reads the version there)
    for ver in (1, 2, 3):
        mf = os.path.join(tmp, "base", f"private0-v{ver}.torrent")
        with open(mf, "wb") as fd:
            fd.write(oracle.ref_metafile("payload", files, pl, ver, extra_top={b"announce": b"http://ref/p", b"created by": b"ref"},
                                         extra_info={b"private": 0, b"source": b"p0src"}))
        out.append((f"ref-v{ver}/private0", mf))
    if extra:
        out += extra_metafiles(tmp, files, pl)
    return out


# text whose bytes differ between Unicode normalisation forms (NFD e + combining acute, the ANGSTROM SIGN, a ligature, a
# full-width letter): an edit must store exactly the bytes it was given and keep exactly the bytes that were there
NFD_TEXT = "cafe\u0301 \u212b \ufb01 \uff21"


def extra_metafiles(tmp, files, pl):
    """reference-encoded v1 / v2 / hybrid metafiles whose optional fields are
       FALSY: url-list and httpseeds are empty lists, comment / source / created-by empty strings, private is 0 -- present keys all
         the same: a Clear must remove them, a request that does not name them must keep them;
       TEXT THAT IS NOT WHAT A DECODER EXPECTS: comment holds bytes that are not UTF-8 (Latin-1), source and created-by hold NFD /
         compatibility characters, a web seed holds non-UTF-8 bytes, and one top-level and one info key are themselves not UTF-8
         (pyben hands such strings back as bytes, the others as str): unnamed fields must survive byte for byte"""
    out = []
    for ver in (1, 2, 3):
        mf = os.path.join(tmp, "base", f"falsy-v{ver}.torrent")
        with open(mf, "wb") as fd:
            fd.write(oracle.ref_metafile("payload", files, pl, ver,
                                         extra_top={b"announce": b"http://ref/f", b"url-list": [], b"httpseeds": [], b"created by": b""},
                                         extra_info={b"private": 0, b"source": b"", b"comment": b""}))
        out.append((f"ref-v{ver}/falsy", mf))
        mf = os.path.join(tmp, "base", f"textbytes-v{ver}.torrent")
        with open(mf, "wb") as fd:
            fd.write(oracle.ref_metafile("payload", files, pl, ver,
                                         extra_top={b"announce": b"http://ref/t", b"created by": ("Cre\u0301ateur " + NFD_TEXT).encode(),
                                                    b"url-list": [b"http://w/\xe9\xff", b"http://w/ok"], b"x-\xff": 1},
                                         extra_info={b"comment": b"caf\xe9 \xff\xfe", b"source": NFD_TEXT.encode(), b"y-\xfe\xe9": b"v"}))
        out.append((f"ref-v{ver}/textbytes", mf))
    return out


def value_for(field, shape, rng, uni=False):
    if field == "private":
        return rng.choice(["1", True, 1])       # the command line passes True
    if uni:                                     # not NFC, not ASCII (no Unicode white space: str.split is modelled on ASCII)
        if shape == "str":
            return {"comment": NFD_TEXT + " comment", "source": "S\u0327 \u65e5\u672c", "announce": "http://n/e\u0301 http://n/2",
                    "url-list": "http://nw/\u212b  http://nw/2", "httpseeds": "http://nh/\ufb01"}[field]
        return {"comment": "c\u0301", "source": "\uff33", "announce": ["http://l/\u00e9", "http://l/e\u0301"],
                "url-list": ["http://lw/\u212b"], "httpseeds": ["http://lh/1", "http://lh/\u00c5"]}[field]
    if shape == "str":
        return {"comment": "new comment text", "source": "NEWSRC", "announce": "http://n/1 http://n/2",
                "url-list": "http://nw/1  http://nw/2", "httpseeds": "http://nh/1"}[field]
    return {"comment": "c2", "source": "s2", "announce": ["http://l/1", "http://l/2"],
            "url-list": ["http://lw/1"], "httpseeds": ["http://lh/1", "http://lh/2"]}[field]


def all_requests(tier, rng, uni=False):
    """every assignment of Keep / Clear / Set to the six fields (3^6 = 729); the value shape (str or list) alternates; uni=True
       (C07): every fourth request sets values that are not ASCII and not NFC"""
    reqs = []
    for n, combo in enumerate(itertools.product(("keep", "clear", "set"), repeat=6)):
        req = {}
        for f, c in zip(FIELDS, combo):
            if c == "clear":
                req[f] = ""
            elif c == "set":
                req[f] = value_for(f, "str" if (n + len(f)) % 2 else "list", rng, uni=uni and n % 4 == 1)
            elif (n + len(f)) % 3 == 0:
                req[f] = None          # an explicit None is the same as an absent key
        reqs.append((combo, req))
    return reqs


def cli_argv(mf, req):
    """argv of `torrentfile edit` for a request, or None when the CLI cannot express it"""
    argv = ["edit", mf]
    for f in FIELDS:
        if f not in req or req[f] is None:
            continue
        v = req[f]
        if f == "private":
            if v == "":
                return None
            argv.append("--private")
        elif f in ("comment", "source"):
            if isinstance(v, list):
                return None
            argv += [CLI_FLAG[f], v]
        else:
            if v == "":
                return None
            argv += [CLI_FLAG[f]] + (v if isinstance(v, list) else v.split())
    return argv


# ---------------------------------------------------------------------------- command-line spellings (C07)
# What a user can type after `torrentfile edit`: a flag more than once (argparse `store`: the LAST occurrence is the request), the
# option=value spelling, values that a shell / a formatter / an option parser would treat specially ('~', '~/x', '~user', '$HOME',
# '%s', a leading dash, '.', '..', blank padding) and the metafile itself spelled relative to the working directory.  The
# request a command line MEANS is read off the structure below (never by parsing), the judge is C07's frame judge.
VERBATIM = ["~", "~/x", "~root", "~/", "$HOME", "${HOME}/c", "%s", "%(prog)s", "%d%%", "-x", "-", ".", "..", "./x", "a/../b",
            "@args", " padded ", " ", "{0}", "\\~", "~nosuchuser/x", "C:\\x", "x~", "a=b", "=", "\"q\"", "--"]
# The value '--' alone IS in the pool and is the known finding D42 (classified by c07.classify):  On the unchanged tree under CPython 3.12.1
# `torrentfile edit m.torrent --comment=--` (same for --source=--) writes info.comment = [] (an empty LIST): argparse removes a '--'
# option argument before the tool sees it and hands over [], which edit_torrent stores.
VERBATIM_EATEN_BY_ARGPARSE = ["--"]
VERBATIM_URLS = ["~/t", "~", "$HOME/a", "http://t/%s", "http://t/~u/a", "./a", "../a", "http://t/a=b", "%41"]
MF_SPELLINGS = ["absolute", "relative", "./relative", "dir/../relative", "absolute with //", "absolute with /./"]


def spell_metafile(tmp, name, spelling):
    """the metafile <tmp>/<name> as the user spells it from the working directory <tmp> (which holds a directory `sub`)"""
    return {"absolute": os.path.join(tmp, name), "relative": name, "./relative": "./" + name, "dir/../relative": "sub/../" + name,
            "absolute with //": tmp + "//" + name, "absolute with /./": tmp + "/./" + name}[spelling]


def cli_spelling_cases(rng, tier):
    """[(class names, argv tail with '<metafile>' where the metafile goes, request it means, metafile spelling)]"""
    out = []
    scalar = ("comment", "source")
    lists = ("announce", "url-list", "httpseeds")

    def emit(classes, items, at_end=False, spelling=None):
        """items: [(field, values, 'sep' | 'eq')] in command-line order; the request = the last item of every field"""
        req, toks = {}, []
        for f, vals, how in items:
            if f == "private":
                toks.append("--private")
                req[f] = True
            elif f in scalar:
                toks += [CLI_FLAG[f] + "=" + vals[0]] if how == "eq" else [CLI_FLAG[f], vals[0]]
                req[f] = vals[0]
            else:
                if how == "eq":
                    vals = vals[:1]             # option=value carries exactly one value (argparse takes no further ones)
                toks += [CLI_FLAG[f] + "=" + vals[0]] if how == "eq" else [CLI_FLAG[f]] + list(vals)
                req[f] = list(vals)
        # the metafile: first, or last when the last item cannot swallow it (a scalar or --private)
        argv = toks + ["<metafile>"] if at_end and items and items[-1][0] in scalar + ("private",) else ["<metafile>"] + toks
        out.append((classes, argv, req, spelling or MF_SPELLINGS[len(out) % len(MF_SPELLINGS)]))

    def dashy(v):
        return v.startswith("-")

    # (1) the same flag twice or three times on one command line, other flags in between, both spellings
    urls = lambda tag, k: [f"http://{tag}{k}/{j}" for j in range(rng.randrange(1, 4))]  # noqa
    emit(["repeated flag: tracker and web-seed twice, interleaved"],
         [("announce", ["http://A/1"], "sep"), ("url-list", ["http://W1/1"], "sep"), ("announce", ["http://B/1"], "sep"),
          ("url-list", ["http://W2/1"], "sep")])
    emit(["repeated flag: http-seed twice, more values first"],
         [("httpseeds", ["http://H/1", "http://H/2"], "sep"), ("comment", ["between"], "sep"), ("httpseeds", ["http://H/3"], "sep")], at_end=False)
    emit(["repeated flag: comment and source twice"],
         [("comment", ["first comment"], "sep"), ("source", ["S1"], "eq"), ("comment", ["second comment"], "eq"), ("source", ["S2"], "sep")],
         at_end=True)
    emit(["repeated flag: private twice"], [("private", [], "sep"), ("announce", ["http://P/1"], "sep"), ("private", [], "sep")], at_end=True)
    for i in range(6 if tier == "quick" else 120):
        fields = rng.sample(list(FIELDS), rng.randrange(1, 4))
        items = []
        for f in fields:
            for k in range(rng.choice([2, 2, 3])):
                how = rng.choice(["sep", "eq"])
                if f == "private":
                    items.append((f, [], "sep"))
                elif f in scalar:
                    items.append((f, [f"{f} number {k} of case {i}"], how))
                else:
                    items.append((f, urls(f[0], k), how))
        rng.shuffle(items)
        emit(["repeated flag: random"] + [f"repeated flag: {f}" for f in sorted(fields)], items, at_end=rng.random() < 0.5)
    # (2) values that must be written verbatim
    vals = list(VERBATIM) if tier != "quick" else VERBATIM[:8] + rng.sample(VERBATIM[8:], 6)
    for i, v in enumerate(vals):
        f, g = (scalar[i % 2], scalar[(i + 1) % 2])
        how = "eq" if dashy(v) or i % 3 == 0 else "sep"
        items = [(f, [v], how)]
        if i % 2:
            items.append((g, [vals[(i + 3) % len(vals)]], "eq"))
        emit(["verbatim value: " + f, "verbatim value " + ("option=value" if how == "eq" else "option value"),
              "verbatim value: " + ("tilde" if "~" in v else "dollar / percent / brace" if any(c in v for c in "$%{") else
                                    "leading dash" if dashy(v) else "dots / blanks / other")], items, at_end=i % 4 == 1)
    uvals = list(VERBATIM_URLS) if tier != "quick" else VERBATIM_URLS[:3] + rng.sample(VERBATIM_URLS[3:], 2)
    for i, v in enumerate(uvals):
        f = lists[i % 3]
        items = [(f, [v, "http://plain/1"] if i % 2 else [v], "eq" if i % 3 == 1 else "sep")]
        if i % 2 == 0:
            items.append(("comment", ["~/with " + f], "sep"))
        emit(["verbatim value: " + f, "verbatim value: in a list flag"], items, at_end=False)
    return out


def enumerate_edits(ctx, visit, want_cli=True, skip=None, extra=False):
    """visit(label, request, via, before_raw, after_raw or None, exception or None); extra=True (C07): the falsy / text-bytes bases
       and the non-ASCII values as well"""
    core.use_repo_in_process()
    from torrentfile.edit import edit_torrent
    from torrentfile.cli import execute
    import shutil
    with core.Scratch("vedit_") as tmp:
        os.environ["HOME"] = tmp
        bases = base_metafiles(tmp, ctx.rng, extra=extra)
        reqs = all_requests(ctx.tier, ctx.rng, uni=extra)
        work = os.path.join(tmp, "w.torrent")
        sampled = False
        for label, mf in bases:
            if skip and skip(label):
                continue
            before = oracle.read(mf)
            for n, (combo, req) in enumerate(reqs):
                # quick tier: the private=0 bases differ from ref-vN only in that key: every request that Sets private, a fixed third of the rest
                if ctx.tier == "quick" and label.endswith("/private0") and combo[2] != "set" and n % 3:
                    sampled = True
                    continue
                # quick tier, falsy / text-bytes bases: every request that names exactly one field, a fixed fifth of the others
                if ctx.tier == "quick" and label.endswith(("/falsy", "/textbytes")) and n % 5 and sum(c != "keep" for c in combo) != 1:
                    sampled = True
                    continue
                for via in (("lib", "cli") if want_cli else ("lib",)):
                    if via == "cli":
                        argv = cli_argv(work, req)
                        if argv is None:
                            continue
                        # the CLI space is large only through values; sample it in the quick tier
                        if ctx.tier == "quick" and (hash((label, combo)) % 4):
                            sampled = True
                            continue
                    shutil.copyfile(mf, work)
                    exc = None
                    try:
                        if via == "cli":
                            trees.quiet(execute, argv)
                        else:
                            trees.quiet(edit_torrent, work, dict(req))
                    except Exception as e:  # noqa
                        exc = e
                    after = oracle.read(work) if os.path.isfile(work) else None
                    visit(label, combo, req, via, before, after, exc)
                    for leftover in os.listdir(tmp):
                        if leftover.startswith("w.torrent.") :
                            os.remove(os.path.join(tmp, leftover))
        ctx.exhaustive = not sampled
