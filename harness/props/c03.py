"""C03 -- hybrid metafile: the v1 view and the v2 view describe the same payload."""
from props import v2_common as V
from props import creators_common as cc

GEN_FILES = []
EXTRA_TARGETS = ["Extract/ExtractV2.vo", "Extract/ExtractCreators.vo"]
AREAS = ["v2", "creators"]
CREATOR_KINDS = ["hybrid-class", "hybrid-asm"]      # hybrid_output of the theorems
# Appendix B "creators" classes plus the padding boundaries of the hybrid files list
CREATOR_CLASSES = cc.REQUIRED_CLASSES + ["file size = k*pl (no padding entry)", "empty file", "empty file last"]
RULE = ("model tie: the extracted Coq models of HasherHybrid (padding on/off) and FileHasher (hybrid x padding, iterated to "
        "exhaustion) vs the real classes on one file per case -- v1 piece digests (the model returns the SHA-1 inputs, the driver "
        "hashes them), padding_file and the yielded pieces are compared (C02 compares root and layer); same cases as C02: the "
        "boundary set with the real BLOCK_SIZE, and the patched_constant small scope (exhaustive in the thorough tier).  Every "
        "real hybrid hasher is also compared with reference SHA-1 piece hashing of the file (padding off) or of the file followed "
        "by zeros up to the piece boundary (padding on) and with the expected pad length.  End to end: TorrentFileHybrid, "
        "TorrentAssembler (meta version 3) and `create --meta-version 3` on generated trees; the written metafile is decoded by"
        " the "
        "reference strict decoder: non-padding entries of info.files = file-tree leaves (order, lengths) = disk, every non-padding "
        "entry starts on a piece boundary of the listed stream, padding entries have attr p and path [.pad, <len>], info.pieces = "
        "reference SHA-1 piece hashing of that stream with padding as zeros; single file: info.length = size, no files list, "
        "pieces "
        "= hashing of the file alone.  Every class-based creator runs on every tree plain, with align=True (an option of v1 metafiles "
        "that every creator accepts) and with the public assemble() called again before write(); on a copy of the payload the "
        "creators are constructed, one file grows / shrinks / is added / is removed, assemble() is called again and the metafile "
        "is judged against the copy as it is then; the command line (a third of the trees and single files) also with --align and "
        "with `align = true` in a configuration file.  A quarter of the directories contain symbolic links to files of the payload "
        "(to a sibling, into a sub-directory, from a sub-directory upwards, now and then to another link): the creators follow them, "
        "so both views must list a file named like the LINK with the target's length and bytes.  A case is non-trivial when it is distinct and hits at least one boundary class.")
RULE += ("  Unit correspondence of Model/Creators.v (the creator-level theorems rest on it): TorrentFileHybrid and "
         "TorrentAssembler (meta version 3), both on every tree, write a metafile for "
         "generated content trees (single file / flat / nested to depth 3 / a directory next to a sibling whose name sorts between "
         "it and its children / identical files / >= 2 multi-piece files / empty directories / names differing only in case / "
         "non-ASCII names; sizes from {0,1,B+-1,B,pl+-1,pl,2pl+-1,...}), an option subset, one of 25 spellings of the path, a "
         "patched "
         "clock and the enumeration order of every directory fixed by a runner-side patch of os.listdir/os.scandir and handed to "
         "the model as the order of its entry lists; the extracted creator composed with Model/Bencode.v encode predicts the BYTES "
         "of the written file -- compared byte for byte.")
RULE += V.RULE_SCALE
TRUSTED_BASE = V.TRUSTED_BASE + [
    "hand-written models Model/Creators.v (the _traverse / assemble methods of TorrentFileHybrid and TorrentAssembler, "
    "MetaFile.__init__, sort_meta), Model/Bencode.v (pyben's encoder) and Spec/PathSem.v (name and path "
    "components from the path string) tied to torrent.py by differential execution: extracted OCaml vs the BYTES the creator "
    "writes, under a controlled enumeration order (runner-side patch of os.listdir/os.scandir; Path.iterdir of CPython 3.12 calls "
    "os.listdir), a patched clock (torrentfile.torrent.datetime) and, for cases marked patched_constant, a patched "
    "torrentfile.hasher.BLOCK_SIZE",
]
ASSUMPTIONS = [a for a in V.ASSUMPTIONS if not a.startswith("creator-level statements")] + [
    "creator-level theorems (Props file, from Proofs/CreatorsProofs*.v) are about Model/Creators.v, which the unit correspondence "
    "ties to torrent.py byte for byte; the same statements are also checked end to end against the reference oracle",
    "file names are valid UTF-8 without '/', distinct per directory (wf_node); the payload contains at least one file",
]

UNIT_N = (72, 600)          # content trees of the creators unit correspondence (quick, thorough)


def run(ctx, model_ok):
    V.record_ast(ctx)
    V.unit(ctx, "C03", model_ok)
    V.e2e(ctx, "C03")
    if ctx.tier == "thorough":
        ctx.exhaustive = True
    V.require_classes(ctx, V.REQUIRED_V2 + V.REQUIRED_CREATORS)
    V.require_classes(ctx, V.REQUIRED_SCALE, minimum=1)      # the payloads at scale (piece lengths 2 .. 32 MiB) were reached
    # the creators unit correspondence counts its own boundary classes (after the end-to-end requirement above)
    quick = ctx.tier == "quick"
    cc.unit_for(ctx, model_ok, CREATOR_KINDS, n=UNIT_N[0] if quick else UNIT_N[1], budget=90000 if quick else 300000,
                required=CREATOR_CLASSES)


def replay(ctx, data):
    return V.replay_case(ctx, data, "C03")     # failures, disagreements, broken obligations and pinned reproducers alike
