"""C03 -- hybrid metafile: the v1 view and the v2 view describe the same payload."""
from props import v2_common as V

GEN_FILES = []
EXTRA_TARGETS = ["Extract/ExtractV2.vo"]
AREAS = ["v2"]
RULE = ("model tie: the extracted Coq models of HasherHybrid (padding on/off) and FileHasher (hybrid x padding, iterated to "
        "exhaustion) vs the real classes on one file per case -- v1 piece digests (the model returns the SHA-1 inputs, the driver "
        "hashes them), padding_file and the yielded pieces are compared (C02 compares root and layer); same cases as C02: the "
        "boundary set with the real BLOCK_SIZE, and the patched_constant small scope (exhaustive in the thorough tier).  Every "
        "real hybrid hasher is also compared with reference SHA-1 piece hashing of the file (padding off) or of the file followed "
        "by zeros up to the piece boundary (padding on) and with the expected pad length.  End to end: TorrentFileHybrid, "
        "TorrentAssembler (meta version 3) and `create --meta-version 3` on generated trees; the written metafile is decoded by the "
        "reference strict decoder: non-padding entries of info.files = file-tree leaves (order, lengths) = disk, every non-padding "
        "entry starts on a piece boundary of the listed stream, padding entries have attr p and path [.pad, <len>], info.pieces = "
        "reference SHA-1 piece hashing of that stream with padding as zeros; single file: info.length = size, no files list, pieces "
        "= hashing of the file alone.  A case is non-trivial when it is distinct and hits at least one boundary class.")
TRUSTED_BASE = V.TRUSTED_BASE
ASSUMPTIONS = V.ASSUMPTIONS


def run(ctx, model_ok):
    V.record_ast(ctx)
    V.unit(ctx, "C03", model_ok)
    V.e2e(ctx, "C03")
    if ctx.tier == "thorough":
        ctx.exhaustive = True
    V.require_classes(ctx, V.REQUIRED_V2 + V.REQUIRED_CREATORS)


def replay(ctx, data):
    return V.replay_case(ctx, data, "C03")
