"""C09 -- results never depend on what the process did earlier."""
import os
import json
import shutil
import subprocess
from concurrent.futures import ThreadPoolExecutor

import core

GEN_FILES = ["GenState.v"]
RULE = ("history differential: random histories over {create v1/v2/hybrid of p (library classes, TorrentAssembler, CLI), add / delete / "
        "grow / shrink / rewrite a file under p, edit, recheck, rebuild, magnet, info} run in ONE interpreter; before every operation "
        "step the filesystem state is saved, and after it the same step is executed in a FRESH interpreter on the restored state at the "
        "same path; results (metafile bytes minus creation date, percentage repr, magnet URI, rebuilt-tree digest, exception class) and "
        "the resulting filesystem digests must be equal.  Aimed histories: create/change/create for every kind of change; two torrents "
        "of different piece lengths with missing or short ALL-ZERO files rechecked/rebuilt one after the other (state computed on first "
        "use); operations that RAISE in the middle (symlink leaf without length in nested directories, missing metafile, directory in "
        "place of a file) followed by ordinary operations; the INTERACTIVE mode (select_action driven through a patched sys.stdin in the "
        "one-process side, harness/interactive_route.py): two or three interactive creates in one process, the first answering "
        "trackers / seeds / comment / source / private / piece length / output path, the later ones leaving every optional answer "
        "(and the output path) blank, an interactive create after a CLI or library create and vice versa, interactive edit and "
        "recheck dialogs; `create --config --config-path <ini>` twice or three times in one process with DIFFERENT ini files (the "
        "second omits keys the first sets: meta-version, piece-length, private, source, comment, web-seed), spelled create/new, "
        "followed by a plain CLI create; the process-wide LOGGING LEVEL: every CLI step also with the global flag -v (which leaves the "
        "root logger at DEBUG for the rest of the process), and aimed: a -v create / info / recheck / magnet followed by a rebuild of a "
        "BATCH of two metafiles (two trackers) for the same single file whose RETURNED counter and destination are compared, by "
        "rechecks with a hook registered through Checker.register_callback whose received messages are part of the result, and by "
        "the recheck of a v1 torrent made from empty files one of which grew afterwards.  EDIT CHAINS in one process (v1 / v2 / hybrid, "
        "library and CLI): a metafile created without comment / source / private, then one edit per editable field in every rotation "
        "of the six fields (so that each edit that ADDS an info field -- and must re-sort info -- comes after an earlier edit of another "
        "field), a clear, and the same fields set again; thorough tier: every ordered pair of fields as the first two edits; the result "
        "of such a step is the metafile BYTE FOR BYTE (key order included); random histories draw their edits from all six fields.  "
        "The fresh interpreter of every step runs with ANOTHER string-hash seed (PYTHONHASHSEED) than the long-lived one: a result that "
        "depends on set / dict-of-str iteration order shows up as a difference (reported as hash-seed-dependent-result when the fresh run "
        "with the long-lived side's seed agrees with it).  A history is non-trivial when it contains a create after a filesystem change "
        "that followed an earlier create/recheck of the same path; distinct = distinct step sequence.")
TRUSTED_BASE = [
    "Coq 8.16.1 kernel; theorems closed under the global context",
    "translator gen/gen_state.py (+ gen/callgraph.py): the read/write/flow summaries must over-approximate the code -- this is the "
    "weakest link (name-based, syntactic); the history differential is what looks for channels it cannot see "
    "(monkey-patching, interned objects, sys.modules)",
    "sys.stdout/sys.stderr rebinding by -q and what logging handlers print are declared benign: what is printed is not an operation's "
    "result.  The LEVELS of the logging tree are a cell (`logging:level`, written by -v): a level test is benign only when it guards "
    "nothing but discarded logging calls",
]
ASSUMPTIONS = ["`respects`: the generated summaries over-approximate each operation's reads that flow into results and its writes"]

# runners/history.py steps plus the interactive dialogs and `create --config` (harness/interactive_route.py delegates the rest)
RUNNER = os.path.join(core.VERIF, "harness", "interactive_route.py")


EDIT_VALUES = {"comment": ["first comment", "second"], "source": ["SRC", "S2"], "private": [True],
               "announce": ["http://n/1 http://n/2", ["http://l/1"]], "url-list": [["http://w/1"], "http://w/2 http://w/3"],
               "httpseeds": ["http://h/1", ["http://h/2", "http://h/3"]]}
EDIT_FIELDS = ["announce", "comment", "url-list", "source", "httpseeds", "private"]


def edit_histories(tier):
    """several edits of one metafile in one process.  The creators of the histories write no comment / source / private, so the
    first edit naming one of them ADDS a key to info (which must then be re-sorted): every such step comes after an earlier
    edit of another field.  Something kept from the first edit (a used-up iterator, a cached field table, a remembered
    `info was edited` flag) shows as a byte difference from the fresh interpreter."""
    out = []
    combos = [(1, "lib"), (2, "cli"), (3, "lib"), (1, "cli"), (2, "lib"), (3, "cli")]

    def chain(v, via, order, creator):
        h = [{"op": "create", "version": v, "via": creator, "pl": 16384}]
        for i, f in enumerate(order):
            h.append({"op": "edit", "version": v, "via": via, "fields": {f: EDIT_VALUES[f][i % len(EDIT_VALUES[f])]}})
        # clear (library only) and set again: the key is ADDED a second time; then plain replacements
        h.append({"op": "edit", "version": v, "via": "lib", "fields": {"comment": "", "source": ""}})
        h.append({"op": "edit", "version": v, "via": via, "fields": {"source": "again"}})
        h.append({"op": "edit", "version": v, "via": via, "fields": {"comment": "again", "announce": "http://z/1"}})
        return h
    for k, (v, via) in enumerate(combos):
        order = EDIT_FIELDS[k:] + EDIT_FIELDS[:k]
        out.append(chain(v, via, order, ["lib", "asm", "cli"][k % 3]))
    # after the interactive editor, and after an edit that RAISED (no metafile)
    out.append([{"op": "create", "version": 2, "via": "asm"}, {"op": "create", "version": 1, "via": "lib"},
                {"op": "iedit", "version": 2, "edits": [["tracker", "http://i/1"]]},
                {"op": "edit", "version": 2, "via": "lib", "fields": {"private": True}},
                {"op": "edit", "version": 1, "via": "cli", "fields": {"source": "other file"}},
                {"op": "fs", "action": "remove-meta", "version": 2},
                {"op": "edit", "version": 2, "via": "lib", "fields": {"comment": "gone"}},
                {"op": "edit", "version": 1, "via": "lib", "fields": {"comment": "added after a failed edit"}}])
    if tier == "thorough":
        n = 0
        for f1 in EDIT_FIELDS:
            for f2 in EDIT_FIELDS:
                if f1 == f2:
                    continue
                v, via = combos[n % len(combos)]
                n += 1
                rest = [f for f in EDIT_FIELDS if f not in (f1, f2)]
                out.append(chain(v, via, [f1, f2] + rest[n % 4:] + rest[:n % 4], ["lib", "asm", "cli"][n % 3]))
    return out


def gen_history(rng, length):
    files = ["a", "b", "d/c"]
    steps = [{"op": "create", "version": rng.choice([1, 2, 3]), "via": rng.choice(["lib", "asm", "cli"]),
              "pl": rng.choice([16384, 32768])}]
    created = {steps[0]["version"]}
    for _ in range(length - 1):
        r = rng.random()
        if r < 0.4:
            act = rng.choice(["add", "delete", "grow", "shrink", "rewrite"])
            if act == "add":
                f = rng.choice(["n1", "d/n2", "e/n3", "n4"])
            else:
                f = rng.choice(files)
            steps.append({"op": "fs", "action": act, "file": f, "seed": rng.randrange(1 << 30)})
        elif r < 0.62:
            v = rng.choice([1, 2, 3])
            steps.append({"op": "create", "version": v, "via": rng.choice(["lib", "asm", "cli"]),
                          "pl": rng.choice([16384, 32768, 65536])})
            created.add(v)
        elif r < 0.7:                        # an interactive create with a random subset of the answers given
            st = {"op": "icreate", "version": rng.choice([1, 2, 3]), "out": rng.choice(["default", None, None])}
            for k, val in (("pl", "15"), ("trackers", ["http://r/a"]), ("web", ["http://w/"]), ("http", ["http://h/"]),
                           ("comment", f"i{rng.randrange(9)}"), ("source", "s"), ("private", True)):
                if rng.random() < 0.4:
                    st[k] = val
            steps.append(st)
        else:
            v = rng.choice(sorted(created))
            op = rng.choice(["recheck", "recheck", "edit", "magnet", "rebuild", "info", "irecheck", "iedit", "rebuild-batch"])
            st = {"op": op, "version": v, "via": rng.choice(["lib", "cli"])}
            if op == "edit":
                st["comment"] = f"c{rng.randrange(100)}"
                if rng.random() < 0.6:           # any of the six editable fields; the result is the file byte for byte
                    st["fields"] = {f: rng.choice(EDIT_VALUES[f]) for f in rng.sample(sorted(EDIT_VALUES), rng.choice([1, 1, 2]))}
            if op == "iedit":
                st["edits"] = [[rng.choice(["comment", "source"]), f"e{rng.randrange(100)}"]]
            if op == "rebuild-batch":
                steps.append({"op": "mkbatch", "version": v, "file": rng.choice(["a", "b"])})
            if op == "recheck" and rng.random() < 0.5:
                st["hook"] = True
            steps.append(st)
        # the global flag -v (debug): the root logger stays at DEBUG for the rest of the process
        last = steps[-1]
        if last["op"] in ("create", "recheck", "edit", "info", "magnet", "rebuild", "rebuild-batch") and last.get("via") == "cli" \
                and rng.random() < 0.45:
            last["verbose"] = True
    return steps


def apply_fs(sb, step):
    import random
    act = step["action"]
    if act == "write-ini":                   # a configuration file for `create --config --config-path`
        import interactive_route
        with open(os.path.join(sb, step["name"]), "w", encoding="utf-8") as fd:
            fd.write(interactive_route.ini_text(step["cfg"]))
        return
    if act == "remove-meta":                 # the next operation on this metafile raises
        mf = os.path.join(sb, f"m{step['version']}.torrent")
        if os.path.exists(mf):
            os.remove(mf)
        return
    if act == "craft-symlink-leaf":
        # copy m<src>.torrent to m<dst>.torrent with a BEP 52 symlink leaf (`attr: l`, no `length`) added inside the
        # nested directory `d` of the file tree: walking the tree raises KeyError in the middle of the recursion
        import pyben
        src = os.path.join(sb, f"m{step['src']}.torrent")
        if not os.path.exists(src):
            return
        meta = pyben.load(src)
        tree = meta["info"].get("file tree")
        if isinstance(tree, dict):
            sub = tree.setdefault("d", {})
            if "" in sub:
                sub = tree
            sub["lnk"] = {"": {"attr": "l", "symlink path": ["a"]}}
            tree["zz"] = {"deep": {"er": {"lnk2": {"": {"attr": "l", "symlink path": ["b"]}}}}}
        pyben.dump(meta, os.path.join(sb, f"m{step['dst']}.torrent"))
        return
    p = os.path.join(sb, step.get("root", "payload"), step["file"])
    if act == "zeros":                       # a file of zero bytes (its piece hashes equal those of padding)
        os.makedirs(os.path.dirname(p), exist_ok=True)
        with open(p, "wb") as fd:
            fd.write(bytes(step["size"]))
        return
    if act == "dir-for-file":                # a directory where the metafile names a file: unreadable content path
        if os.path.isfile(p):
            os.remove(p)
        os.makedirs(os.path.join(p, "inner"), exist_ok=True)
        return
    rnd = random.Random(step["seed"])
    if act in ("add", "rewrite") or (act in ("grow", "shrink") and not os.path.exists(p)):
        os.makedirs(os.path.dirname(p), exist_ok=True)
        n = os.path.getsize(p) if (act == "rewrite" and os.path.exists(p)) else rnd.choice([5, 16384, 20000])
        with open(p, "wb") as fd:
            fd.write(rnd.randbytes(n))
    elif act == "delete":
        if os.path.exists(p) and sum(len(f) for _, _, f in os.walk(os.path.join(sb, "payload"))) > 1:
            os.remove(p)
    elif act == "grow":
        with open(p, "ab") as fd:
            fd.write(rnd.randbytes(rnd.choice([1, 16384, 100])))
    elif act == "shrink":
        n = os.path.getsize(p)
        with open(p, "r+b") as fd:
            fd.truncate(n // 2)


# process-lifetime state observed to change during the one-process side of the histories: snapshot key -> first op that changed it
STATE_CHANGES = {}
STATE_WITNESS = {}          # snapshot key -> the history prefix (and its seed) that first showed the change: the replayable input


def check_state_cells(ctx):
    """dynamic validation of the state translator: every change of the package's process-lifetime state that was OBSERVED
       (harness/state_snapshot.py: module-level objects, class attributes, function attributes, default-argument objects,
       TORRENTFILE_* variables, stream rebinding) must be explained by a cell of coq/Gen/GenState.v"""
    import re
    import state_snapshot
    try:
        txt = open(os.path.join(core.COQ, "Gen", "GenState.v"), encoding="utf-8").read()
    except OSError:
        return
    cells = re.findall(r'\(\d+, "([^"]+)"\)', txt)
    for key, op in sorted(STATE_CHANGES.items()):
        ok = state_snapshot.covered(key, cells)
        ctx.case(key=("state-cell", key), classes=["observed state change " + key.split(":")[0]], nontrivial=True)
        ctx.traces_validated += 1
        if not ok:
            ctx.disagree("gen/gen_state.py cell list vs process-lifetime state observed to change at run time",
                         dict({"observed_change": key, "first_changed_by_step": op}, **STATE_WITNESS.get(key, {})),
                         f"one of the cells {cells}", "no cell explains it")
    ctx.extra["observed_state_changes"] = sorted(STATE_CHANGES)


def hash_seeds(seed, k):
    """(PYTHONHASHSEED of the long-lived interpreter, of the fresh interpreter of step k): always different"""
    one = seed % 4000
    return str(one), str((one + 1 + (seed * 31 + k * 7) % 3999) % 4000 or 4001)


def run_history(tmp, hid, steps, seed):
    import random
    rnd = random.Random(seed)
    sb = os.path.join(tmp, f"h{hid}", "sandbox")
    os.makedirs(os.path.join(sb, "payload", "d"))
    for f, n in (("a", 90000), ("b", 16384), ("d/c", 7)):
        with open(os.path.join(sb, "payload", f), "wb") as fd:
            fd.write(rnd.randbytes(n))
    env = core.impl_env({"HOME": os.path.join(tmp, f"h{hid}", "home"), "PYTHONHASHSEED": hash_seeds(seed, 0)[0]})
    os.makedirs(env["HOME"])
    proc = subprocess.Popen([core.PY, RUNNER, sb], stdin=subprocess.PIPE, stdout=subprocess.PIPE, stderr=subprocess.DEVNULL,
                            text=True, env=env, cwd=os.path.join(tmp, f"h{hid}"))
    diffs = []
    try:
        for k, st in enumerate(steps):
            if st["op"] == "fs":
                apply_fs(sb, st)
                continue
            pre = sb + f".pre{k}"
            shutil.copytree(sb, pre)
            proc.stdin.write(json.dumps(st) + "\n")
            proc.stdin.flush()
            line = proc.stdout.readline()
            if not line:
                diffs.append({"step": k, "op": st, "one_process": "runner died", "fresh": None})
                break
            rec = json.loads(line)
            r1 = rec["result"]
            for key in rec.get("state_changed", []):
                STATE_CHANGES.setdefault(key, st["op"])
                STATE_WITNESS.setdefault(key, {"history": steps[:k + 1], "history_seed": seed})
            from runners import history as H
            d1 = H.tree_digest(sb)
            post = sb + f".post{k}"
            os.rename(sb, post)
            os.rename(pre, sb)
            def fresh(hs):
                p2 = subprocess.run([core.PY, RUNNER, sb, "--once", json.dumps(st)], capture_output=True, text=True,
                                    env=dict(env, PYTHONHASHSEED=hs), cwd=os.path.join(tmp, f"h{hid}"), timeout=300)
                try:
                    r = json.loads(p2.stdout.strip().splitlines()[-1])["result"]
                except Exception:  # noqa
                    r = {"error": "fresh run produced no result", "stderr": p2.stderr[-300:]}
                return r, H.tree_digest(sb)
            hs1, hs2 = hash_seeds(seed, k)
            keep = sb + f".keep{k}"
            shutil.copytree(sb, keep, symlinks=True)
            r2, d2 = fresh(hs2)
            kind = None
            if r1 != r2 or d1 != d2:
                # the same step once more in a fresh interpreter with the LONG-LIVED side's hash seed: does the seed explain it?
                shutil.rmtree(sb)
                os.rename(keep, sb)
                r3, d3 = fresh(hs1)
                kind = "hash-seed-dependent-result" if (r3, d3) == (r1, d1) else "history-dependent-result"
                if kind == "hash-seed-dependent-result":
                    r2 = {"PYTHONHASHSEED=" + hs2: r2, "PYTHONHASHSEED=" + hs1: r3}
            else:
                shutil.rmtree(keep, ignore_errors=True)
            shutil.rmtree(sb)
            os.rename(post, sb)
            if kind:
                diffs.append({"step": k, "op": st, "one_process": r1, "fresh": r2, "kind": kind,
                              "fs_equal": d1 == d2, "hash_seeds": {"one_process": hs1, "fresh": hs2}})
                break
    finally:
        try:
            proc.stdin.close()
            proc.wait(timeout=10)
        except Exception:  # noqa
            proc.kill()
        shutil.rmtree(os.path.join(tmp, f"h{hid}"), ignore_errors=True)
    return diffs


CREATES = ("create", "icreate", "cfgcreate")


def after_verbose(steps):
    """an operation whose result is compared runs after an earlier `-v` step of the same process"""
    seen = False
    for st in steps:
        if seen and st["op"] != "fs":
            return True
        seen = seen or bool(st.get("verbose"))
    return False


def edit_classes(steps):
    """boundary classes of the edit steps of a history: an edit that ADDS an info field after an earlier edit in the same process"""
    out = set()
    edits = 0
    present = {}                      # version -> info fields the metafile is known to carry
    for st in steps:
        if st["op"] in CREATES:
            present[str(st.get("version"))] = set()
        if st["op"] in ("edit", "iedit"):
            v = str(st.get("version"))
            named = st.get("fields")
            if named is None:
                named = {"comment": st.get("comment")} if st["op"] == "edit" else {e[0]: e[1] for e in st.get("edits", ())}
            have = present.setdefault(v, set())
            for f, val in named.items():
                if f in ("comment", "source", "private"):
                    if val == "":
                        have.discard(f)
                        out.add("edit clears an info field")
                    elif f not in have:
                        out.add("edit ADDS an info field after an earlier edit in the same process" if edits
                                else "edit adds an info field (first edit of the process)")
                        have.add(f)
                    else:
                        out.add("edit replaces an info field")
                else:
                    out.add("edit of a top-level field")
            if "fields" in st:
                out.add("edit step compared byte for byte")
            edits += 1
    return sorted(out)


def nontrivial(steps):
    seen_op, changed = False, False
    for st in steps:
        if st["op"] in CREATES + ("recheck", "irecheck"):
            if seen_op and changed and st["op"] in CREATES:
                return True
            seen_op = True
        if st["op"] == "fs" and seen_op:
            changed = True
    return False


def aimed_state_histories(tier):
    """histories aimed at process-lifetime state that the random generator reaches only by luck:
    (a) something computed on FIRST use and kept (a padding hash, a compiled table): the same kind of operation on two
        torrents of DIFFERENT piece lengths whose missing/short file is all zero bytes (so that padding hashes decide the
        result), both orders, v2 and hybrid, library and CLI;
    (b) something left half-updated by an operation that RAISES in the middle (a symlink leaf without length inside nested
        directories of the file tree, a missing metafile, a directory where a file is expected), followed by ordinary operations."""
    out = []
    Z = 5 * 32768 + 1000            # 10.06 / 5.03 / 2.5 pieces: never a power of two of pieces, last piece partial
    combos = [((2, "asm", 16384), (3, "asm", 32768)), ((3, "lib", 65536), (2, "lib", 16384)),
              ((2, "cli", 32768), (3, "cli", 16384)), ((3, "asm", 16384), (2, "asm", 65536))]
    for (va, via_a, pla), (vb, via_b, plb) in (combos if tier == "thorough" else combos[:3]):
        for damage in (("delete",), ("shrink",)) if tier == "thorough" else (("delete",),) if va == 2 else (("shrink",),):
            h = [{"op": "fs", "action": "zeros", "file": "z", "size": Z},
                 {"op": "fs", "action": "zeros", "file": "d/z2", "size": 3 * 16384},
                 {"op": "create", "version": va, "via": via_a, "pl": pla},
                 {"op": "create", "version": vb, "via": via_b, "pl": plb},
                 {"op": "fs", "action": damage[0], "file": "z", "seed": 3},
                 {"op": "fs", "action": "delete", "file": "d/z2", "seed": 3},
                 {"op": "recheck", "version": va, "via": "lib"},
                 {"op": "recheck", "version": vb, "via": "lib"},
                 {"op": "recheck", "version": va, "via": "cli"},
                 {"op": "rebuild", "version": vb, "via": "lib"}]
            out.append(h)
    # the same torrent name re-created at another piece length between two rechecks of damaged all-zero content
    for v, via in ((2, "lib"), (3, "asm")):
        out.append([{"op": "fs", "action": "zeros", "file": "z", "size": Z},
                    {"op": "create", "version": v, "via": via, "pl": 16384},
                    {"op": "fs", "action": "delete", "file": "z", "seed": 1},
                    {"op": "recheck", "version": v, "via": "lib"},
                    {"op": "fs", "action": "zeros", "file": "z", "size": Z},
                    {"op": "create", "version": v, "via": via, "pl": 65536},
                    {"op": "fs", "action": "delete", "file": "z", "seed": 1},
                    {"op": "recheck", "version": v, "via": "lib"},
                    {"op": "create", "version": v, "via": via, "pl": 32768}])
    # (b) an operation that raises in the middle, then ordinary work
    for v, via in ((2, "lib"), (3, "asm"), (2, "cli")) if tier == "thorough" else ((2, "lib"), (3, "asm")):
        bad = f"{v}x"
        out.append([{"op": "create", "version": v, "via": via, "pl": 16384},
                    {"op": "fs", "action": "craft-symlink-leaf", "src": v, "dst": bad},
                    {"op": "recheck", "version": bad, "via": "lib"},
                    {"op": "recheck", "version": v, "via": "lib"},
                    {"op": "rebuild", "version": bad, "via": "lib"},
                    {"op": "rebuild", "version": v, "via": "lib"},
                    {"op": "recheck", "version": bad, "via": "cli"},
                    {"op": "recheck", "version": v, "via": "cli"},
                    {"op": "info", "version": bad, "via": "lib"},
                    {"op": "create", "version": v, "via": via, "pl": 32768},
                    {"op": "recheck", "version": v, "via": "lib"}])
    for v, via in ((1, "lib"), (3, "cli")):
        out.append([{"op": "create", "version": v, "via": via},
                    {"op": "recheck", "version": v, "via": "lib"},
                    {"op": "fs", "action": "remove-meta", "version": v},
                    {"op": "recheck", "version": v, "via": "lib"},
                    {"op": "edit", "version": v, "via": "lib", "comment": "c1"},
                    {"op": "rebuild", "version": v, "via": "lib"},
                    {"op": "magnet", "version": v, "via": "lib"},
                    {"op": "info", "version": v, "via": "lib"},
                    {"op": "create", "version": v, "via": via},
                    {"op": "recheck", "version": v, "via": "cli"},
                    {"op": "edit", "version": v, "via": "cli", "comment": "c2"}])
    for v, via in ((2, "asm"), (1, "lib")):
        out.append([{"op": "create", "version": v, "via": via},
                    {"op": "fs", "action": "dir-for-file", "file": "b"},
                    {"op": "recheck", "version": v, "via": "lib"},
                    {"op": "rebuild", "version": v, "via": "lib"},
                    {"op": "create", "version": v, "via": via},
                    {"op": "recheck", "version": v, "via": "lib"},
                    {"op": "fs", "action": "dir-for-file", "file": "d/c"},
                    {"op": "create", "version": v, "via": "cli"},
                    {"op": "recheck", "version": v, "via": "cli"}])
    return out


def interactive_histories(tier):
    """the interactive dialogs in one process: answers of one dialog must not reach the next (an attribute shared through the
    class, a module-level dictionary of defaults, a parser kept between runs)"""
    out = []
    full = {"pl": "15", "trackers": ["http://tr.example/ann", "udp://b.example:1/x"], "web": ["http://ws.example/"],
            "http": ["http://hs.example/"], "comment": "first run", "source": "SRC", "private": True}
    for v in (1, 2, 3):
        h = [dict(full, op="icreate", version=v, out=f"first{v}.torrent"),
             {"op": "fs", "action": "add", "file": "n1", "seed": 3},
             {"op": "icreate", "version": v, "out": f"second{v}.torrent"},                  # every optional answer blank
             {"op": "icreate", "version": v, "out": "default", "trailing": v == 2},          # output path blank as well
             {"op": "icreate", "version": v, "out": f"third{v}.torrent", "comment": "only a comment", "pl": "16"}]
        out.append(h)
    # an interactive create after CLI / library creates, and the other way round
    for v, via in ((1, "cli"), (3, "asm"), (2, "lib")) if tier == "thorough" else ((1, "cli"), (3, "asm")):
        out.append([{"op": "create", "version": v, "via": via, "pl": 32768},
                    {"op": "icreate", "version": v},
                    {"op": "fs", "action": "grow", "file": "a", "seed": 9},
                    dict(full, op="icreate", version=v, out="default"),
                    {"op": "create", "version": v, "via": via, "pl": 16384},
                    {"op": "icreate", "version": v, "out": "default"},
                    {"op": "recheck", "version": v, "via": "lib"}])
    # the other dialogs
    out.append([{"op": "create", "version": 1, "via": "lib"},
                {"op": "iedit", "version": 1, "edits": [["comment", "c one"], ["tracker", "http://x/a http://y/b"]]},
                {"op": "irecheck", "version": 1},
                {"op": "create", "version": 3, "via": "asm"},
                {"op": "iedit", "version": 3, "edits": [["source", "S"]]},
                {"op": "iedit", "version": 1, "edits": []},
                {"op": "fs", "action": "shrink", "file": "a", "seed": 2},
                {"op": "irecheck", "version": 3},
                {"op": "icreate", "version": 3},
                {"op": "irecheck", "version": 1}])
    return out


def config_histories(tier):
    """`create --config` more than once in one process with different configuration files"""
    a = {"meta-version": 2, "piece-length": 16, "private": True, "source": "FIRST", "comment": "made by the first run",
         "announce": ["http://one.example/announce"], "web-seed": ["http://seed.example/data"]}
    b = {"announce": ["http://two.example/announce"]}
    c = {"meta-version": 3, "http-seed": ["http://h.example/s"], "comment": "third"}
    out = []
    pre = [{"op": "fs", "action": "write-ini", "name": "A.ini", "cfg": a}, {"op": "fs", "action": "write-ini", "name": "B.ini", "cfg": b},
           {"op": "fs", "action": "write-ini", "name": "C.ini", "cfg": c}]
    out.append(pre + [{"op": "cfgcreate", "ini": "A.ini", "out": "first.torrent"},
                      {"op": "fs", "action": "rewrite", "file": "a", "seed": 4},
                      {"op": "fs", "action": "add", "file": "n1", "seed": 5},
                      {"op": "cfgcreate", "ini": "B.ini", "out": "second.torrent", "spelling": "new"},
                      {"op": "cfgcreate", "ini": "C.ini", "out": "third.torrent"},
                      {"op": "cfgcreate", "ini": "B.ini", "out": "fourth.torrent"},
                      {"op": "create", "version": 1, "via": "cli"}])
    out.append(pre + [{"op": "cfgcreate", "ini": "C.ini", "out": "first.torrent", "spelling": "new"},
                      {"op": "cfgcreate", "ini": "A.ini", "out": "second.torrent"},
                      {"op": "cfgcreate", "ini": "B.ini", "out": "third.torrent", "flags": ["--meta-version", "3"]},
                      {"op": "recheck", "version": 1, "via": "lib"},
                      {"op": "icreate", "version": 2}])
    if tier == "thorough":
        out.append(pre + [{"op": "create", "version": 2, "via": "cli"},
                          {"op": "cfgcreate", "ini": "B.ini", "out": "first.torrent"},
                          {"op": "cfgcreate", "ini": "A.ini", "out": "second.torrent"},
                          {"op": "fs", "action": "delete", "file": "b", "seed": 1},
                          {"op": "cfgcreate", "ini": "B.ini", "out": "third.torrent"},
                          {"op": "create", "version": 2, "via": "cli"}])
    return out


def logging_histories(tier):
    """the process-wide LOGGING LEVEL: `-v` (cli.Config.activate_logger) raises the root logger to DEBUG and nothing resets it, so
    every later operation of the process runs with all loggers enabled, a fresh interpreter with the default (WARNING).  An
    operation whose result (returned counter, percentage, exception, what a registered hook receives, what lands on disk)
    is computed under `isEnabledFor` / `getEffectiveLevel` differs.  Aimed at the places where a level test is tempting:
    de-duplicated / counted messages of a rebuild BATCH (two metafiles, two trackers, the same single file), the per-piece
    progress messages of recheck (handed to the hook of Checker.register_callback), the arithmetic of those messages on a
    v1 torrent made from EMPTY files one of which grew afterwards (total = 0)."""
    out = []
    vsteps = [lambda v: {"op": "create", "version": v, "via": "cli", "verbose": True, "pl": 32768},
              lambda v: {"op": "info", "version": v, "via": "cli", "verbose": True},
              lambda v: {"op": "recheck", "version": v, "via": "cli", "verbose": True},
              lambda v: {"op": "magnet", "version": v, "via": "cli", "verbose": True}]
    # (1) -v step, then a batch rebuild of two metafiles for one file: returned counter and destination
    combos = [(1, 0, "cli"), (2, 1, "lib"), (3, 0, "lib"), (1, 2, "lib"), (2, 3, "cli"), (3, 1, "cli")]
    for v, k, via in combos if tier == "thorough" else combos[:3]:
        out.append([{"op": "create", "version": v, "via": "lib"},
                    {"op": "mkbatch", "version": v, "file": "a"},
                    vsteps[k](v),
                    {"op": "rebuild-batch", "version": v, "via": via},
                    {"op": "rebuild-batch", "version": v, "via": "cli" if via == "lib" else "lib"},      # second run: all present
                    {"op": "rebuild", "version": v, "via": "lib"}])
    # (2) -v step, then rechecks with a registered hook (intact and damaged content)
    combos = [(1, 0, "lib"), (2, 1, "lib"), (3, 2, "cli"), (1, 3, "cli"), (3, 0, "lib")]
    for v, k, via in combos if tier == "thorough" else combos[:3]:
        out.append([{"op": "create", "version": v, "via": "asm"},
                    {"op": "recheck", "version": v, "via": via, "hook": True},
                    vsteps[k](v),
                    {"op": "recheck", "version": v, "via": via, "hook": True},
                    {"op": "fs", "action": "shrink", "file": "a", "seed": 4},
                    {"op": "recheck", "version": v, "via": "lib", "hook": True},
                    {"op": "recheck", "version": v, "via": "cli"}])
    # (3) v1 (and hybrid) torrent made from empty files; one grows; -v step; recheck (with and without hook)
    for v, k in ((1, 0), (1, 1), (3, 0)) if tier == "thorough" else ((1, 0), (1, 1)):
        out.append([{"op": "fs", "action": "zeros", "root": "empties", "file": "e.bin", "size": 0},
                    {"op": "fs", "action": "zeros", "root": "empties", "file": "sub/f.bin", "size": 0},
                    {"op": "create", "version": v, "via": "lib", "target": "empties"},
                    {"op": "recheck", "version": v, "via": "lib", "target": "empties"},
                    {"op": "fs", "action": "grow", "root": "empties", "file": "e.bin", "seed": 6},
                    {"op": "create", "version": 2, "via": "lib"},
                    vsteps[k](2),
                    {"op": "recheck", "version": v, "via": "lib", "target": "empties"},
                    {"op": "recheck", "version": v, "via": "lib", "target": "empties", "hook": True},
                    {"op": "recheck", "version": v, "via": "cli", "target": "empties"}])
    # (4) -v in front of the other routes: config create, then everything once more without the flag
    out.append([{"op": "fs", "action": "write-ini", "name": "V.ini", "cfg": {"meta-version": 3, "comment": "verbose"}},
                {"op": "cfgcreate", "ini": "V.ini", "out": "m3.torrent", "verbose": True},
                {"op": "mkbatch", "version": 3, "file": "b"},
                {"op": "rebuild-batch", "version": 3, "via": "lib"},
                {"op": "edit", "version": 3, "via": "cli", "comment": "after verbose"},
                {"op": "recheck", "version": 3, "via": "lib", "hook": True},
                {"op": "icreate", "version": 1},
                {"op": "irecheck", "version": 3}])
    return out


def run(ctx, model_ok):
    import sys
    sys.path.insert(0, os.path.join(core.VERIF, "harness"))
    n = 60 if ctx.tier == "quick" else 600
    maxlen = 8 if ctx.tier == "quick" else 15
    hist = []
    # aimed prefixes first: create; change; create (every kind of change)
    for act in ("add", "delete", "grow", "shrink", "rewrite"):
        for v, via in ((1, "lib"), (2, "asm"), (3, "cli")):
            hist.append([{"op": "create", "version": v, "via": via},
                         {"op": "fs", "action": act, "file": "n1" if act == "add" else "a", "seed": 7},
                         {"op": "create", "version": v, "via": via},
                         {"op": "recheck", "version": v, "via": "lib"}])
    if ctx.tier == "quick":
        hist = hist[::2]
    # aimed: the same operation twice around a same-size rewrite; a create at another piece length after other work
    for v, via in ((2, "asm"), (3, "asm"), (1, "lib"), (3, "lib")):
        hist.append([{"op": "create", "version": v, "via": via, "pl": 16384}, {"op": "rebuild", "version": v, "via": "lib"},
                     {"op": "fs", "action": "rewrite", "file": "a", "seed": 11}, {"op": "rebuild", "version": v, "via": "lib"},
                     {"op": "recheck", "version": v, "via": "lib"}])
        hist.append([{"op": "create", "version": v, "via": via, "pl": 16384}, {"op": "recheck", "version": v, "via": "lib"},
                     {"op": "fs", "action": "grow", "file": "a", "seed": 5},
                     {"op": "create", "version": v, "via": via, "pl": 32768}, {"op": "recheck", "version": v, "via": "cli"},
                     {"op": "create", "version": v, "via": via, "pl": 65536}])
    hist += aimed_state_histories(ctx.tier)
    hist += interactive_histories(ctx.tier) + config_histories(ctx.tier) + logging_histories(ctx.tier)
    while len(hist) < n:
        hist.append(gen_history(ctx.rng, ctx.rng.randrange(3, maxlen + 1)))
    hist += edit_histories(ctx.tier)
    with core.Scratch("vc09_") as tmp:
        def work(item):
            i, steps = item
            return steps, run_history(tmp, i, steps, ctx.seed * 1000 + i)
        with ThreadPoolExecutor(max_workers=12) as ex:
            results = list(ex.map(work, list(enumerate(hist))))
    for i, (steps, diffs) in enumerate(results):
        ctx.case(key=json.dumps(steps, sort_keys=True), nontrivial=nontrivial(steps),
                 classes=["history with create after a filesystem change" if nontrivial(steps) else "other history"] +
                 (["operation after an earlier -v (root logger at DEBUG)"] if after_verbose(steps) else []) +
                 (["recheck with a registered hook"] if any(s.get("hook") for s in steps) else []) +
                 edit_classes(steps) +
                 sorted({"op " + s["op"] for s in steps}),
                 sample=steps if i == 0 else None)
        ctx.traces_validated += 1
        for d in diffs:
            ctx.fail(d.get("kind", "history-dependent-result"),
                     {"history": steps[:d["step"] + 1], "history_seed": ctx.seed * 1000 + i, "hash_seeds": d.get("hash_seeds")},
                     {"fresh_interpreter": d["fresh"]}, {"same_process": d["one_process"], "fs_equal": d.get("fs_equal")})
    check_state_cells(ctx)


def _replay_history(inp, tmp, n):
    steps, seed = inp["history"], inp.get("history_seed")
    if seed is None:
        print("replay: cannot rebuild input of kind history (the seed of the history's payload was not recorded in this file)")
        return 2
    print(f"[C09 replay] history of {len(steps)} steps (payload seed {seed}; PYTHONHASHSEED long-lived / fresh: {hash_seeds(seed, len(steps) - 1)}):")
    for st in steps:
        print("   ", json.dumps(st))
    diffs = run_history(tmp, n, steps, seed)
    for d in diffs:
        print(f"[C09 replay] VIOLATION {d.get('kind')}: step {d['step']} {json.dumps(d['op'])}\n   same process    : {json.dumps(d['one_process'])[:600]}\n"
              f"   fresh interpreter: {json.dumps(d['fresh'])[:600]}\n   filesystem equal : {d.get('fs_equal')}")
    if not diffs:
        print("[C09 replay] every step gave the same result and the same filesystem in the long-lived and in a fresh interpreter")
    return 1 if diffs else 0


def _replay_state(inp, tmp, n):
    """an observed change of process-lifetime state that no cell of GenState.v explained: run the recorded history again and
       compare what changed with the cells REGENERATED from the tree under test"""
    import re
    import gen_state
    import state_snapshot
    key = inp.get("observed_change")
    if "history" not in inp or inp.get("history_seed") is None:
        print("replay: cannot rebuild input of kind state-cell disagreement (the history that showed the change was not recorded)")
        return 2
    try:
        text, _, _ = gen_state.gen_state(core.REPO)
    except Exception as e:  # noqa
        print(f"[C09 replay] STILL BROKEN: translator gen_state refused: {type(e).__name__}: {e}")
        return 1
    cells = re.findall(r'\(\d+, "([^"]+)"\)', text)
    STATE_CHANGES.clear()
    run_history(tmp, n, inp["history"], inp["history_seed"])
    print(f"[C09 replay] state observed to change during the recorded history: {sorted(STATE_CHANGES)}; cells generated now: {cells}")
    bad = [k for k in STATE_CHANGES if not state_snapshot.covered(k, cells)]
    if key not in STATE_CHANGES:
        print(f"[C09 replay] the recorded change {key} is not observed on this tree")
    for k in bad:
        print(f"[C09 replay] DISAGREE: no generated cell explains the observed change {k}")
    return 1 if bad else 0


def replay(ctx, data):
    """re-runs the recorded history (same payload seed, same hash seeds) against core.REPO: 1 violated, 0 holds, 2 cannot rebuild"""
    import sys
    sys.path.insert(0, os.path.join(core.VERIF, "harness"))
    from props import c17
    kind = str(data.get("kind"))
    inp = data.get("input") if isinstance(data.get("input"), dict) else {}
    print(f"[C09 replay] kind={kind} implementation under test: {core.REPO}")
    rcs = []
    with core.Scratch("vc09r_") as tmp:
        if data.get("finding") or data.get("reproducer"):
            rcs.append(c17.replay_finding("C09", data))
        elif kind in ("history-dependent-result", "hash-seed-dependent-result"):
            if "history" not in inp:
                print(f"replay: cannot rebuild input of kind {kind} (no history recorded)")
                rcs.append(2)
            else:
                rcs.append(_replay_history(inp, tmp, 0))
        elif kind == "proof-or-correspondence-broken" or "what" in data:
            dis = data.get("disagreements") or ([data] if "what" in data else [])
            for n, d in enumerate(dis[:5]):
                di = d.get("input") if isinstance(d.get("input"), dict) else {}
                if str(d.get("what", "")).startswith("gen/gen_state.py cell list"):
                    rcs.append(_replay_state(di, tmp, n + 1))
                else:
                    print(f"replay: cannot rebuild input of kind disagreement {d.get('what')!r} (unknown correspondence)")
                    rcs.append(2)
            if data.get("broken"):
                rcs.append(c17.replay_broken(ctx, "C09", data["broken"]))
            if not dis and not data.get("broken"):
                print("[C09 replay] the file records neither a disagreement nor a broken obligation: nothing to replay")
                rcs.append(2)
        else:
            print(f"replay: cannot rebuild input of kind {kind} (unknown kind)")
            rcs.append(2)
    rc = 1 if 1 in rcs else (2 if 2 in rcs or not rcs else 0)
    print("[C09 replay] verdict:", {0: "the property holds on this input", 1: "property VIOLATED on this input",
                                    2: "could not be replayed exactly"}[rc])
    return rc
