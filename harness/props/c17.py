"""C17 -- an interrupted or failed edit never loses or truncates the metafile."""
import os
import json
import shutil
import subprocess
from concurrent.futures import ThreadPoolExecutor

import core
import trees
from ref import oracle

GEN_FILES = ["GenEditOps.v"]
RULE = ("tie: the filesystem events of a real edit (open/write/close/replace/remove/exists/encode, recorded by runner-side "
        "wrappers) must equal the operation list the translator generated from edit.py, up to path instantiation; search: real "
        "fault injection in fresh interpreters -- at every observed operation index: raise PermissionError, raise ENOSPC, kill the "
        "process before and after the operation, short write (half the bytes, flushed) then raise or kill; kernel-level file size "
        "limits (RLIMIT_FSIZE at several byte counts, with SIGXFSZ ignored -> EFBIG, and not ignored -> killed by signal); requests "
        "whose value cannot be encoded; after each run the bytes at the metafile path must be exactly the original or exactly the "
        "reference edit's output (the latter only if the fault came after the replace, when an error was raised).  The space "
        "(operation x fault kind) is enumerated completely for each (metafile, request) pair; distinct = distinct (metafile, request, fault).")
TRUSTED_BASE = [
    "Coq 8.16.1 kernel; theorems closed under the global context",
    "Spec/FsOps.v: the crash/error semantics (buffered write may leave any prefix until close; os.replace atomic) is the specification a reviewer reads",
    "translator gen/gen_effects.py (edit_torrent -> op list; anything unclassified becomes Unknown/POther which the checker rejects); "
    "checked on every run against the observed event trace",
    "POSIX rename(2) atomicity; no power-loss durability claim (no fsync)",
]
ASSUMPTIONS = ["faults at operation granularity and at every byte count of the write; not reordering below the system-call interface",
               "pyben.load reads the whole file before anything is written (observed in the trace)"]

RUNNER = os.path.join(core.VERIF, "harness", "runners", "edit_fault.py")


def make_metafiles(tmp, rng, tier):
    """returns list of (label, path)"""
    out = []
    specs = [("v1-small", "v1", {("a",): 100}, 16384),
             ("hybrid-30k", "hybrid-asm", {("a",): 16384 * 40 + 5, ("b", "c"): 16384 * 3}, 16384)]
    if tier == "thorough":
        specs += [("v2", "v2-asm", {("x",): 70000, ("y",): 5}, 32768),
                  ("v1-many-pieces", "v1", {("big",): 16384 * 600}, 16384)]
    for label, kind, sizes, pl in specs:
        d = os.path.join(tmp, "src_" + label)
        trees.write_tree(os.path.join(d, "payload"), {k: rng.randbytes(n) for k, n in sizes.items()})
        mf = os.path.join(d, "m.torrent")
        trees.create(kind, os.path.join(d, "payload"), mf, pl, announce=["http://t/a"], comment="c0")
        out.append((label, mf))
    return out


REQUESTS = [
    ("set-tracker", {"announce": "http://new/announce http://second/x"}),
    ("set-comment-private", {"comment": "edited", "private": "1", "source": "src"}),
    ("clear-comment", {"comment": "", "announce": None}),
    ("set-webseed", {"url-list": ["http://w/1", "http://w/2"], "httpseeds": "http://h/1"}),
]
UNENCODABLE = [("float-comment", {"comment": {"unencodable": "float"}}),
               ("object-source", {"source": {"unencodable": "object"}, "announce": "http://x/y"}),
               ("set-in-list", {"url-list": [{"unencodable": "float"}]})]


# the name of the metafile being edited: the property holds for every name (a temp-file name derived from it by string
# replacement coincides with the metafile itself when the name lacks the expected suffix)
MF_NAMES = ["m.torrent", "upper.TORRENT", "noext", "m.torrent", "a.torrent.bak"]


def run_one(workdir, mf_src, req, fault, name="m.torrent"):
    """copy the metafile into a fresh directory under `name`, run the edit under the fault; returns dict"""
    os.makedirs(workdir)
    mf = os.path.join(workdir, name)
    shutil.copyfile(mf_src, mf)
    trace = workdir + ".trace"
    p = subprocess.run([core.PY, RUNNER, mf, json.dumps(req), json.dumps(fault), trace],
                       env=core.impl_env({"HOME": workdir}), capture_output=True, text=True, timeout=120)
    after = oracle.read(mf) if os.path.isfile(mf) else None
    events = []
    if os.path.exists(trace):
        pending = None
        for line in open(trace):
            try:
                rec = json.loads(line)
            except ValueError:
                continue
            if "op" in rec:
                events.append(rec)
                pending = rec
            elif pending is not None:
                pending.update(rec)
        os.remove(trace)
    left = sorted(os.listdir(workdir))
    shutil.rmtree(workdir, ignore_errors=True)
    return {"rc": p.returncode, "out": p.stdout.strip()[:200], "after": after, "events": events, "left": left}


def canon_events(events):
    """observed events -> op strings in the vocabulary of Spec/FsOps.v"""
    ops = []

    def sp(s):
        return "PM" if s == "PM" else ("PT" if s and s.startswith("PT:") else "POther")
    for e in events:
        k = e["op"]
        ps = [sp(x) for x in e["paths"]]
        if k == "open":
            m = e.get("mode", "r")
            if e.get("extra"):
                ops.append("Unknown")
            elif "w" in m:
                ops.append(f"OpenTrunc {ps[0]}")
            elif "a" in m:
                ops.append(f"OpenAppend {ps[0]}")
            elif "+" in m or "x" in m:
                ops.append("Unknown")
            else:
                ops.append(f"Load {ps[0]}")
        elif k == "write":
            ops.append(f"WriteAll {ps[0]}")
        elif k == "close":
            ops.append(f"Close {ps[0]}")
        elif k == "replace":
            ops.append(f"Replace {ps[0]} {ps[1]}")
        elif k == "rename":
            ops.append(f"Rename {ps[0]} {ps[1]}")
        elif k == "remove":
            ops.append(f"Remove {ps[0]}")
        elif k == "exists":
            ops.append(f"ExistsTest {ps[0]}")
        elif k == "encode":
            ops.append("Encode")
    return ops


def expected_ops(main, cleanup):
    """generated list as it is observed on a fault-free run (RemoveIfExists on a path that is gone is invisible)"""
    exists = {"PM": True, "PT": False}
    out = []
    for o in main + cleanup:
        w = o.split()
        if w[0] == "RemoveIfExists":
            if exists.get(w[1], False):
                out.append(f"Remove {w[1]}")
                exists[w[1]] = False
            continue
        if w[0] in ("OpenTrunc", "OpenAppend"):
            exists[w[1]] = True
        if w[0] in ("Replace", "Rename"):
            exists[w[2]] = exists.get(w[1], False)
            exists[w[1]] = False
        if w[0] == "Remove":
            exists[w[1]] = False
        out.append(o)
    return out


def judge(f, r, old, new, ridx):
    """the property on one fault run: the metafile path holds the complete original or the complete edited file.
       f: fault, r: result of run_one, old/new: original bytes / bytes of the fault-free edit, ridx: index of the replace event"""
    after = r["after"]
    ok = True
    why = ""
    if after is None:
        ok, why = False, "metafile missing"
    elif f.get("unencodable"):
        if r["rc"] == 0:
            # the value turned out to be encodable for pyben (e.g. a list inside): then a complete file is required
            try:
                oracle.bdecode_strict(after)
            except Exception as e:  # noqa
                ok, why = False, f"edit with odd value returned normally and left non-canonical bytes: {e}"
        elif after != old:
            ok, why = False, "unencodable value: the metafile is no longer the original"
    elif after == old:
        if r["rc"] == 0:
            ok, why = False, "edit returned normally but the metafile is unchanged"
    elif after == new:
        if r["rc"] == 3 and f["kind"] in ("raise", "shortwrite") and ridx is not None \
                and (f["event_index"] < ridx or (f["event_index"] == ridx and f.get("when", "before") == "before")):
            ok, why = False, "error raised before the replace, yet the edited metafile is in place"
    else:
        ok = False
        why = f"metafile holds {len(after)} bytes that are neither the original ({len(old)}) nor the edited ({len(new)}) file"
    return ok, why


def run(ctx, model_ok):
    import gen_effects
    try:
        gmain, gcleanup = gen_effects.EditOps(core.REPO).run()
    except Exception as e:  # noqa
        gmain = gcleanup = None
        ctx.broken.append(f"translator crashed on edit.py: {type(e).__name__}: {e}")
    with core.Scratch("vc17_") as tmp:
        os.environ["HOME"] = tmp
        metas = make_metafiles(tmp, ctx.rng, ctx.tier)
        reqs = REQUESTS if ctx.tier == "thorough" else REQUESTS[:2]
        jobs = []
        n = 0
        pair = -1
        for label, mf in metas:
            old = oracle.read(mf)
            for rname, req in reqs:
                # reference run: no fault
                n += 1
                pair += 1
                mfname = MF_NAMES[pair % len(MF_NAMES)]
                ref = run_one(os.path.join(tmp, f"w{n}"), mf, req, {"kind": "none"}, name=mfname)
                if ref["rc"] != 0 or ref["after"] is None:
                    ctx.fail("edit-failed-without-fault", {"metafile": label, "request": req, "base_hex": old.hex(), "metafile_name": mfname},
                             "edit succeeds and leaves the edited metafile at its path", ref["out"] or f"rc={ref['rc']} metafile present={ref['after'] is not None}")
                    continue
                new = ref["after"]
                obs = canon_events(ref["events"])
                ctx.case(key=("ref", label, rname), classes=["fault-free trace"],
                         sample={"metafile": label, "request": req, "observed_ops": obs} if n == 1 else None)
                if gmain is not None:
                    exp = expected_ops(gmain, gcleanup)
                    ctx.traces_validated += 1
                    if obs != exp:
                        ctx.disagree("generated op list of edit_torrent vs observed filesystem events",
                                     {"metafile": label, "request": req, "base_hex": old.hex()}, exp, obs)
                if ref["left"] != [mfname]:
                    ctx.notes.append(f"files left beside the metafile after a successful edit: {ref['left']}")
                nev = len(ref["events"])
                replace_idx = next((e["i"] for e in ref["events"] if e["op"] in ("replace", "rename") and "PM" in e["paths"][1:]), None)
                faults = []
                for i in range(nev):
                    faults.append({"kind": "raise", "event_index": i, "exc": "PermissionError"})
                    faults.append({"kind": "raise", "event_index": i, "exc": "ENOSPC"})
                    faults.append({"kind": "kill", "event_index": i, "when": "before"})
                    faults.append({"kind": "kill", "event_index": i, "when": "after"})
                    faults.append({"kind": "raise", "event_index": i, "exc": "ENOSPC", "when": "after"})
                    if ref["events"][i]["op"] == "write":
                        for frac in (0.0, 0.5, 0.99):
                            faults.append({"kind": "shortwrite", "event_index": i, "frac": frac, "then": "raise"})
                            faults.append({"kind": "shortwrite", "event_index": i, "frac": frac, "then": "kill"})
                for nbytes in sorted({0, 1, 100, len(new) // 2, len(new) - 1, 4096, 8192}):
                    if nbytes < len(new):
                        faults.append({"kind": "rlimit", "bytes": nbytes, "ignore_signal": True})
                        faults.append({"kind": "rlimit", "bytes": nbytes, "ignore_signal": False})
                for f in faults:
                    n += 1
                    jobs.append((os.path.join(tmp, f"w{n}"), label, mf, rname, req, dict(f, metafile_name=mfname), old, new, replace_idx))
            for rname, req in (UNENCODABLE if ctx.tier == "thorough" else UNENCODABLE[:2]):
                n += 1
                jobs.append((os.path.join(tmp, f"w{n}"), label, mf, rname, req, {"kind": "none", "unencodable": True}, old, None, None))

        def work(job):
            wd, label, mf, rname, req, f, old, new, ridx = job
            return job, run_one(wd, mf, req, f, name=f.get("metafile_name", "m.torrent"))
        with ThreadPoolExecutor(max_workers=12) as ex:
            results = list(ex.map(work, jobs))
        for job, r in results:
            wd, label, mf, rname, req, f, old, new, ridx = job
            after = r["after"]
            kind = f["kind"] + (":" + f.get("exc", "") if f.get("exc") else "") + (":" + f.get("then", "") if f.get("then") else "") \
                + (":" + f.get("when", "") if f.get("when") else "")
            desc = {"metafile": label, "request": req, "fault": f}
            ok, why = judge(f, r, old, new, ridx)
            if not ok:
                # the metafile's bytes make the replay exact (the payload behind it is random per run)
                ctx.fail("edit-fault:" + kind.split(":")[0], dict(desc, base_hex=old.hex()), "complete original or complete edited metafile",
                         {"rc": r["rc"], "out": r["out"], "why": why, "len_after": None if after is None else len(after)})
            ctx.case(key=(label, rname, json.dumps(f, sort_keys=True)), classes=["fault " + kind, "metafile " + label])
        ctx.exhaustive = True
        ctx.extra["fault_runs"] = len(jobs)


# --------------------------------------------------------------------------- replay
def replay_finding(pid, data):
    """pinned reproducer recorded by check.py ({"kind": "e2e", "reproducer": "harness/repro.py D10", "finding": "D10"}):
       run the probe in a fresh interpreter as check.run_repro does; PRESENT -> 1, absent -> 0, anything else -> 2"""
    fid = data.get("finding") or str(data.get("reproducer", "")).split()[-1]
    if not fid:
        print("replay: cannot rebuild input of kind e2e (no finding id recorded)")
        return 2
    p = subprocess.run([core.PY, os.path.join(core.VERIF, "harness", "repro.py"), fid],
                       env=core.impl_env({"HOME": "/nonexistent-home"}), capture_output=True, text=True, timeout=600)
    line = next((l for l in p.stdout.splitlines() if l.split(" ", 1)[0] == fid), "")
    print(f"[{pid} replay] pinned reproducer harness/repro.py {fid} against {core.REPO}: {line or 'no output ' + p.stderr[-300:]}")
    st = (line.split(" ", 2) + ["", ""])[1]
    if st == "PRESENT":
        return 1
    if st == "absent":
        return 0
    print(f"replay: cannot rebuild input of kind e2e (reproducer {fid} did not answer PRESENT or absent)")
    return 2


REBUILDABLE = ("translator refused", "translator crashed", "coq build of", "theorem audit failed", "forbidden vernacular",
               "coqchk ", "OCaml driver for area")


def replay_broken(ctx, pid, recorded):
    """broken obligations (translator / Coq build / theorem audit / driver) are functions of the implementation's source:
       re-run phases 1-2 of ./check against core.REPO and report whether any obligation is broken NOW"""
    import importlib
    import modelrun
    for b in recorded:
        print(f"[{pid} replay] recorded broken obligation: {str(b)[:400]}")
    rc = 0
    other = [b for b in recorded if not str(b).startswith(REBUILDABLE) and "driver" not in str(b)]
    for b in other:
        kind = str(b).split(":")[0][:60]
        print(f"replay: cannot rebuild input of kind broken obligation {kind!r} (it is not a function of a recorded input)")
        rc = 2
    import check as checkmod
    mod = importlib.import_module(f"props.{pid.lower()}")
    fresh = core.Ctx(pid, ctx.tier, ctx.seed)
    with core.Lock("pipeline"):
        fresh, audit, ok = checkmod._build_phase(mod, pid, fresh)
    if ok:
        for area in getattr(mod, "AREAS", []):
            q = subprocess.run([modelrun.binary(area)], input="selftest\n", capture_output=True, text=True, timeout=300)
            if q.returncode != 0 or "SELFTEST OK" not in q.stdout:
                fresh.broken.append(f"extracted model driver for area {area} fails its self-test")
    print(f"[{pid} replay] regenerated coq/Gen from {core.REPO}, rebuilt Props/{pid}.vo, audited Print Assumptions: "
          f"theorems {len(audit['discharged']) if audit else 0}/{len(audit['theorems']) if audit else '?'}, "
          f"broken now: {len(fresh.broken)}")
    for b in fresh.broken:
        print(f"[{pid} replay] STILL BROKEN: {b[:600]}")
    if fresh.broken:
        return 1
    print(f"[{pid} replay] every proof obligation of {pid} is discharged for this tree")
    return rc


def _base(tmp, base):
    src = os.path.join(tmp, "base.torrent")
    if not os.path.exists(src):
        with open(src, "wb") as fd:
            fd.write(base)
    return src


def _reference(tmp, base, req, name="m.torrent"):
    """fault-free run on a copy of the recorded metafile: (result, replace index)"""
    k = len(os.listdir(tmp))
    ref = run_one(os.path.join(tmp, f"ref{k}"), _base(tmp, base), req, {"kind": "none"}, name=name)
    ridx = next((e["i"] for e in ref["events"] if e["op"] in ("replace", "rename") and "PM" in e["paths"][1:]), None)
    return ref, ridx


def _replay_fault(inp, tmp):
    base, req, f = bytes.fromhex(inp["base_hex"]), inp["request"], inp["fault"]
    print(f"[C17 replay] metafile {inp.get('metafile')} ({len(base)} bytes), request {json.dumps(req)}, fault {json.dumps(f)}")
    new = ridx = None
    if not f.get("unencodable"):
        ref, ridx = _reference(tmp, base, req, name=inp.get("metafile_name") or f.get("metafile_name", "m.torrent"))
        if ref["rc"] != 0 or ref["after"] is None:
            print(f"[C17 replay] VIOLATION edit-failed-without-fault: exit {ref['rc']} {ref['out']}")
            return 1
        new = ref["after"]
        print(f"[C17 replay] fault-free run: {len(new)} bytes written, operations {canon_events(ref['events'])}, replace at index {ridx}")
    r = run_one(os.path.join(tmp, "fault"), _base(tmp, base), req, f, name=inp.get("metafile_name") or f.get("metafile_name", "m.torrent"))
    ok, why = judge(f, r, base, new, ridx)
    after = r["after"]
    print(f"[C17 replay] under the fault: exit {r['rc']} {r['out']!r}; operations reached {canon_events(r['events'])}; metafile path holds "
          + ("NOTHING" if after is None else f"{len(after)} bytes = " + ("the original" if after == base else "the edited file" if after == new
                                                                        else "NEITHER the original nor the edited file"))
          + f"; beside it: {[x for x in r['left'] if x != 'm.torrent']}")
    if not ok:
        print("[C17 replay] VIOLATION", "edit-fault:" + f["kind"], "-", why)
    return 0 if ok else 1


def _replay_trace(inp, tmp):
    """generated op list of edit_torrent vs the filesystem events of a real fault-free edit"""
    import gen_effects
    base, req = bytes.fromhex(inp["base_hex"]), inp["request"]
    try:
        gmain, gcleanup = gen_effects.EditOps(core.REPO).run()
    except Exception as e:  # noqa
        print(f"[C17 replay] STILL BROKEN: translator crashed on edit.py: {type(e).__name__}: {e}")
        return 1
    ref, ridx = _reference(tmp, base, req)
    if ref["rc"] != 0 or ref["after"] is None:
        print(f"[C17 replay] VIOLATION edit-failed-without-fault: exit {ref['rc']} {ref['out']}")
        return 1
    exp, obs = expected_ops(gmain, gcleanup), canon_events(ref["events"])
    print(f"[C17 replay] metafile {inp.get('metafile')}, request {json.dumps(req)}\n   generated: {exp}\n   observed : {obs}")
    print("[C17 replay] " + ("translator and observed events agree" if exp == obs else "translator and observed events DISAGREE"))
    return 0 if exp == obs else 1


def replay(ctx, data):
    """re-runs the recorded (metafile bytes, request, fault) in a fresh interpreter and judges again; 1 violated, 0 holds, 2 cannot rebuild"""
    kind = str(data.get("kind"))
    inp = data.get("input") if isinstance(data.get("input"), dict) else {}
    print(f"[C17 replay] kind={kind} implementation under test: {core.REPO}")
    rcs = []

    def cannot(k, why):
        print(f"replay: cannot rebuild input of kind {k} ({why})")
        return 2
    with core.Scratch("vc17r_") as tmp:
        os.environ["HOME"] = tmp
        if data.get("finding") or data.get("reproducer"):
            rcs.append(replay_finding("C17", data))
        elif kind.startswith("edit-fault:"):
            if "base_hex" not in inp or "fault" not in inp or "request" not in inp:
                rcs.append(cannot(kind, "the bytes of the metafile were not recorded in this file"))
            else:
                rcs.append(_replay_fault(inp, tmp))
        elif kind == "edit-failed-without-fault":
            if "base_hex" not in inp or "request" not in inp:
                rcs.append(cannot(kind, "the bytes of the metafile were not recorded in this file"))
            else:
                rcs.append(_replay_fault(dict(inp, fault={"kind": "none"}), tmp))
        elif kind == "proof-or-correspondence-broken" or "what" in data:
            dis = data.get("disagreements") or ([data] if "what" in data else [])
            for d in dis[:5]:
                di = d.get("input") if isinstance(d.get("input"), dict) else {}
                if not str(d.get("what", "")).startswith("generated op list of edit_torrent"):
                    rcs.append(cannot("disagreement " + repr(d.get("what")), "unknown correspondence"))
                elif "base_hex" not in di or "request" not in di:
                    rcs.append(cannot("disagreement generated op list vs observed events", "the bytes of the metafile were not recorded"))
                else:
                    rcs.append(_replay_trace(di, tmp))
            if data.get("broken"):
                rcs.append(replay_broken(ctx, "C17", data["broken"]))
            if not dis and not data.get("broken"):
                print("[C17 replay] the file records neither a disagreement nor a broken obligation: nothing to replay")
                rcs.append(2)
        else:
            rcs.append(cannot(kind, "unknown kind"))
    rc = 1 if 1 in rcs else (2 if 2 in rcs or not rcs else 0)
    print("[C17 replay] verdict:", {0: "the property holds on this input", 1: "property VIOLATED on this input",
                                    2: "could not be replayed exactly"}[rc])
    return rc
