"""C17 -- an interrupted or failed edit never loses or truncates the metafile."""
import os
import json
import shutil
import hashlib
import tempfile
import subprocess
from concurrent.futures import ThreadPoolExecutor

import core
import trees
from ref import oracle

GEN_FILES = ["GenEditOps.v"]
RULE = ("tie: the filesystem events of a real edit (open/write/close/replace/remove/exists/encode, recorded by runner-side "
        "wrappers) must equal the operation list the translator generated from edit.py, up to path instantiation; search: real "
        "fault injection in fresh interpreters -- at every observed operation index: raise PermissionError, raise ENOSPC, kill the "
        "process before and after the operation, short write (half the bytes, flushed) then raise or kill; kernel-level file size "
        "limits (RLIMIT_FSIZE at several byte counts, with SIGXFSZ ignored -> EFBIG, and not ignored -> killed by signal); requests "
        "whose value cannot be encoded; after each run the bytes at the metafile path must be exactly the original or exactly the "
        "reference edit's output (the latter only if the fault came after the replace, when an error was raised).  The space "
        "(operation x fault kind) is enumerated completely for each (metafile, request) pair; distinct = distinct (metafile, request, fault).  "
        "HISTORIES of faults: an earlier edit (a request whose encoding is LONGER / SHORTER / the SAME length as the new one) KILLED before "
        "and after every operation and in the middle of its write, then an ordinary edit in the same directory -- whatever the killed "
        "edit left behind (a stale temp file longer, shorter or as long as the new encoding) must not reach the metafile: it holds "
        "exactly the reference edit's output (or, had the edit raised, the previous file); PLANTED stale files under every name the "
        "edit was seen to write beside the metafile (0, 1, len-1, len, len+1, len+4096, 3 x len bytes; an empty and a non-empty "
        "directory).  The metafile on ANOTHER FILESYSTEM than the temp directory ($TMPDIR is set to a scratch directory on the "
        "ordinary one, the metafile lives under /dev/shm; counted as skipped when no second filesystem is writable): the complete "
        "(operation x fault) enumeration again there, where a move degrades to copy + unlink: events are also the low-level ones "
        "(os.open / os.write / os.close on descriptors, os.sendfile / copy_file_range, file objects over descriptors, io.open, "
        "paths directly in $TMPDIR).  Values that cannot be encoded: float, object, set in a list, and TEXT THAT IS NOT UTF-8 "
        "ENCODABLE (a lone surrogate, as sys.argv yields for a Latin-1 byte) in comment / source / a tracker / a web seed, through "
        "edit_torrent and through `torrentfile edit`.")
TRUSTED_BASE = [
    "Coq 8.16.1 kernel; theorems closed under the global context",
    "Spec/FsOps.v: the crash/error semantics (buffered write may leave any prefix until close; os.replace atomic) is the specification a reviewer reads",
    "translator gen/gen_effects.py (edit_torrent -> op list; anything unclassified becomes Unknown/POther which the checker rejects); "
    "checked on every run against the observed event trace",
    "POSIX rename(2) atomicity; no power-loss durability claim (no fsync)",
]
ASSUMPTIONS = ["faults at operation granularity and at every byte count of the write; not reordering below the system-call interface",
               "pyben.load reads the whole file before anything is written (observed in the trace)"]

RUNNER = os.path.join(core.VERIF, "harness", "runners", "edit_fault.py")


def make_metafiles(tmp, rng, tier):
    """returns list of (label, path)"""
    out = []
    specs = [("v1-small", "v1", {("a",): 100}, 16384),
             ("hybrid-30k", "hybrid-asm", {("a",): 16384 * 40 + 5, ("b", "c"): 16384 * 3}, 16384)]
    if tier == "thorough":
        specs += [("v2", "v2-asm", {("x",): 70000, ("y",): 5}, 32768),
                  ("v1-many-pieces", "v1", {("big",): 16384 * 600}, 16384)]
    for label, kind, sizes, pl in specs:
        d = os.path.join(tmp, "src_" + label)
        trees.write_tree(os.path.join(d, "payload"), {k: rng.randbytes(n) for k, n in sizes.items()})
        mf = os.path.join(d, "m.torrent")
        trees.create(kind, os.path.join(d, "payload"), mf, pl, announce=["http://t/a"], comment="c0")
        out.append((label, mf))
    return out


REQUESTS = [
    ("set-tracker", {"announce": "http://new/announce http://second/x"}),
    ("set-comment-private", {"comment": "edited", "private": "1", "source": "src"}),
    ("clear-comment", {"comment": "", "announce": None}),
    ("set-webseed", {"url-list": ["http://w/1", "http://w/2"], "httpseeds": "http://h/1"}),
]
UNENCODABLE = [("float-comment", {"comment": {"unencodable": "float"}}, "lib"),
               ("object-source", {"source": {"unencodable": "object"}, "announce": "http://x/y"}, "lib"),
               # text that has no UTF-8 encoding: what sys.argv holds for a Latin-1 byte (surrogateescape)
               ("surrogate-comment", {"comment": {"unencodable": "surrogate"}}, "lib"),
               ("surrogate-comment-cli", {"comment": {"unencodable": "surrogate"}, "announce": "http://x/y"}, "cli"),
               ("surrogate-tracker-cli", {"announce": {"unencodable": "surrogate-list"}}, "cli"),
               ("set-in-list", {"url-list": [{"unencodable": "float"}]}, "lib"),
               ("surrogate-source-cli", {"source": {"unencodable": "surrogate"}, "private": True}, "cli"),
               ("surrogate-webseed", {"url-list": {"unencodable": "surrogate-list"}, "comment": "fine"}, "lib"),
               ("surrogate-tracker-words", {"announce": {"unencodable": "surrogate-words"}}, "lib"),
               ("surrogate-httpseed-cli", {"httpseeds": {"unencodable": "surrogate-list"}}, "cli")]
# the EARLIER edit of a fault history (killed at some operation): its encoding is longer / shorter than the later edit's, or the same
PRE_REQUESTS = [("longer", {"comment": "stale " * 1200, "source": "left-behind-by-a-killed-edit"}),
                ("shorter", {"comment": "", "source": "", "announce": "http://s/"}),
                ("same", None)]


# the name of the metafile being edited: the property holds for every name (a temp-file name derived from it by string
# replacement coincides with the metafile itself when the name lacks the expected suffix)
MF_NAMES = ["m.torrent", "upper.TORRENT", "noext", "m.torrent", "a.torrent.bak"]


def other_fs_root():
    """a fresh directory on a filesystem OTHER than the one of the temp directory (os.rename between the two fails with EXDEV), or None"""
    cand = os.environ.get("VERIF_OTHER_FS", "/dev/shm")
    try:
        if os.path.isdir(cand) and os.access(cand, os.W_OK | os.X_OK) and os.stat(cand).st_dev != os.stat(tempfile.gettempdir()).st_dev:
            return tempfile.mkdtemp(prefix="vc17x_", dir=cand)
    except OSError:
        pass
    return None


def stale_bytes(n):
    return (b"STALE-TEMP-FILE-LEFT-BY-A-KILLED-EDIT\xff\x00\n" * (n // 40 + 1))[:n]


def read_trace(trace):
    events = []
    if os.path.exists(trace):
        pending = None
        for line in open(trace):
            try:
                rec = json.loads(line)
            except ValueError:
                continue
            if "op" in rec:
                events.append(rec)
                pending = rec
            elif pending is not None:
                pending.update(rec)
        os.remove(trace)
    return events


def run_one(workdir, mf_src, req, fault, name="m.torrent", tmpdir=None):
    """copy the metafile into a fresh directory under `name`; plant the stale entries fault["stale"] beside it; run the earlier
       edits fault["pre"] (each {"request", "fault"}, usually killed) and then the edit under the fault, every one in a fresh
       interpreter whose $TMPDIR is `tmpdir` (default: a directory next to workdir); returns dict"""
    os.makedirs(workdir)
    tdir = tmpdir or workdir + ".tmpdir"
    os.makedirs(tdir, exist_ok=True)
    mf = os.path.join(workdir, name)
    shutil.copyfile(mf_src, mf)
    for st in fault.get("stale", ()):
        q = os.path.join(workdir, st["name"])
        if st.get("type") == "dir":
            os.makedirs(os.path.join(q, "inner") if st.get("nonempty") else q, exist_ok=True)
        else:
            with open(q, "wb") as fd:
                fd.write(stale_bytes(st["size"]))
    trace = workdir + ".trace"
    env = core.impl_env({"HOME": workdir, "TMPDIR": tdir})

    def launch(rq, flt):
        return subprocess.run([core.PY, RUNNER, mf, json.dumps(rq), json.dumps(flt), trace], env=env, capture_output=True, text=True,
                              timeout=120)
    mid = stale_left = None
    pre_rc = []
    for pre in fault.get("pre", ()):
        q = launch(pre["request"], pre["fault"])
        pre_rc.append(q.returncode)
        read_trace(trace)
    if fault.get("pre"):
        mid = oracle.read(mf) if os.path.isfile(mf) else None
        stale_left = {x: (os.path.getsize(os.path.join(workdir, x)) if os.path.isfile(os.path.join(workdir, x)) else -1)
                      for x in sorted(os.listdir(workdir)) if x != name}
        stale_left.update({"$TMPDIR/" + x: os.path.getsize(os.path.join(tdir, x)) for x in sorted(os.listdir(tdir))
                           if os.path.isfile(os.path.join(tdir, x))})
    p = launch(req, {k: v for k, v in fault.items() if k not in ("pre", "stale")})
    after = oracle.read(mf) if os.path.isfile(mf) else None
    events = read_trace(trace)
    left = sorted(os.listdir(workdir))
    tmp_left = sorted(os.listdir(tdir))
    shutil.rmtree(workdir, ignore_errors=True)
    shutil.rmtree(tdir, ignore_errors=True)
    return {"rc": p.returncode, "out": p.stdout.strip()[:200], "after": after, "events": events, "left": left, "tmp_left": tmp_left,
            "mid": mid, "pre_rc": pre_rc, "stale_left": stale_left}


def canon_events(events):
    """observed events -> op strings in the vocabulary of Spec/FsOps.v"""
    ops = []

    def sp(s):
        return "PM" if s == "PM" else ("PT" if s and s.startswith("PT:") else "POther")
    for e in events:
        k = e["op"]
        ps = [sp(x) for x in e["paths"]]
        if k == "open":
            m = e.get("mode", "r")
            if e.get("extra"):
                ops.append("Unknown")
            elif "w" in m:
                ops.append(f"OpenTrunc {ps[0]}")
            elif "a" in m:
                ops.append(f"OpenAppend {ps[0]}")
            elif "+" in m or "x" in m:
                ops.append("Unknown")
            else:
                ops.append(f"Load {ps[0]}")
        elif k == "write":
            ops.append(f"WriteAll {ps[0]}")
        elif k == "close":
            ops.append(f"Close {ps[0]}")
        elif k == "replace":
            ops.append(f"Replace {ps[0]} {ps[1]}")
        elif k == "rename":
            ops.append(f"Rename {ps[0]} {ps[1]}")
        elif k == "remove":
            ops.append(f"Remove {ps[0]}")
        elif k == "exists":
            ops.append(f"ExistsTest {ps[0]}")
        elif k == "encode":
            ops.append("Encode")
        else:                         # sendfile / copy_file_range / link / symlink / truncate: outside the vocabulary of the specification
            ops.append("Unknown")
    return ops


def expected_ops(main, cleanup):
    """generated list as it is observed on a fault-free run (RemoveIfExists on a path that is gone is invisible)"""
    exists = {"PM": True, "PT": False}
    out = []
    for o in main + cleanup:
        w = o.split()
        if w[0] == "RemoveIfExists":
            if exists.get(w[1], False):
                out.append(f"Remove {w[1]}")
                exists[w[1]] = False
            continue
        if w[0] in ("OpenTrunc", "OpenAppend"):
            exists[w[1]] = True
        if w[0] in ("Replace", "Rename"):
            exists[w[2]] = exists.get(w[1], False)
            exists[w[1]] = False
        if w[0] == "Remove":
            exists[w[1]] = False
        out.append(o)
    return out


def judge(f, r, old, new, ridx):
    """the property on one fault run: the metafile path holds the complete original or the complete edited file.
       f: fault, r: result of run_one, old/new: original bytes / bytes of the fault-free edit, ridx: index of the replace event"""
    after = r["after"]
    ok = True
    why = ""
    if after is None:
        ok, why = False, "metafile missing"
    elif f.get("unencodable"):
        if r["rc"] == 0:
            # the value turned out to be encodable for pyben (e.g. a list inside): then a complete file is required
            try:
                oracle.bdecode_strict(after)
            except Exception as e:  # noqa
                ok, why = False, f"edit with odd value returned normally and left non-canonical bytes: {e}"
        elif after != old:
            ok, why = False, "unencodable value: the edit failed, yet the metafile is no longer the original"
    elif after == old:
        if r["rc"] == 0 and old != new:          # (a request that changes nothing leaves the same bytes: both readings coincide)
            ok, why = False, "edit returned normally but the metafile is unchanged"
    elif after == new:
        if r["rc"] == 3 and f["kind"] in ("raise", "shortwrite") and ridx is not None \
                and (f["event_index"] < ridx or (f["event_index"] == ridx and f.get("when", "before") == "before")):
            ok, why = False, "error raised before the replace, yet the edited metafile is in place"
    else:
        ok = False
        why = f"metafile holds {len(after)} bytes that are neither the original ({len(old)}) nor the edited ({len(new) if new is not None else '?'}) file"
    return ok, why


def replace_index(events):
    return next((e["i"] for e in events if e["op"] in ("replace", "rename") and "PM" in e["paths"][1:]), None)


def single_faults(events, newlen):
    """every (operation, fault kind) of one observed trace, plus the kernel-level size limits"""
    faults = []
    for i in range(len(events)):
        faults.append({"kind": "raise", "event_index": i, "exc": "PermissionError"})
        faults.append({"kind": "raise", "event_index": i, "exc": "ENOSPC"})
        faults.append({"kind": "kill", "event_index": i, "when": "before"})
        faults.append({"kind": "kill", "event_index": i, "when": "after"})
        faults.append({"kind": "raise", "event_index": i, "exc": "ENOSPC", "when": "after"})
        if events[i]["op"] in ("write", "sendfile"):
            for frac in (0.0, 0.5, 0.99):
                faults.append({"kind": "shortwrite", "event_index": i, "frac": frac, "then": "raise"})
                faults.append({"kind": "shortwrite", "event_index": i, "frac": frac, "then": "kill"})
    for nbytes in sorted({0, 1, 100, newlen // 2, newlen - 1, 4096, 8192}):
        if nbytes < newlen:
            faults.append({"kind": "rlimit", "bytes": nbytes, "ignore_signal": True})
            faults.append({"kind": "rlimit", "bytes": nbytes, "ignore_signal": False})
    return faults


def kill_faults(events):
    """the ways an EARLIER edit can have died: before / after every operation, in the middle of a write"""
    out = []
    for i in range(len(events)):
        out.append({"kind": "kill", "event_index": i, "when": "before"})
        out.append({"kind": "kill", "event_index": i, "when": "after"})
        if events[i]["op"] in ("write", "sendfile"):
            out.append({"kind": "shortwrite", "event_index": i, "frac": 0.5, "then": "kill"})
            out.append({"kind": "shortwrite", "event_index": i, "frac": 0.99, "then": "kill", "flush": True})
    return out


def written_beside(events):
    """names beside the metafile (and in $TMPDIR) the edit was seen to open for writing: where a stale file can lie"""
    names = []
    for e in events:
        if e["op"] == "open" and any(c in e.get("mode", "r") for c in "wax+"):
            for x in e["paths"]:
                if x and x.startswith("PT:") and x[3:] not in names:
                    names.append(x[3:])
    return names


class Refs:
    """fault-free edits of given metafile BYTES (cached): the reference an edit after an earlier killed edit is judged against"""

    def __init__(self, tmp):
        self.tmp, self.cache, self.n = tmp, {}, 0

    def put(self, state, req, result):
        self.cache[(hashlib.sha1(state).digest(), json.dumps(req, sort_keys=True))] = result

    def get(self, state, req):
        key = (hashlib.sha1(state).digest(), json.dumps(req, sort_keys=True))
        if key not in self.cache:
            self.n += 1
            src = os.path.join(self.tmp, f"refsrc{self.n}.torrent")
            with open(src, "wb") as fd:
                fd.write(state)
            r = run_one(os.path.join(self.tmp, f"refrun{self.n}"), src, req, {"kind": "none"})
            os.remove(src)
            self.cache[key] = r["after"] if r["rc"] == 0 else None
        return self.cache[key]


def effective(f, r, old, new, req, refs):
    """(old, new, problem) the run is judged against: with earlier (killed) edits in the history the metafile before the last edit
       must be one of the states the earlier requests lead to, and the expected result is the reference edit of THAT state"""
    if not f.get("pre"):
        return old, new, None
    states = [old]
    for pre in f["pre"]:
        for s in list(states):
            t = refs.get(s, pre["request"])
            if t is not None and t not in states:
                states.append(t)
    mid = r["mid"]
    if mid is None or mid not in states:
        return old, new, ("after the earlier killed edit the metafile is " + ("missing" if mid is None else f"{len(mid)} bytes that are "
                          "neither the original nor the earlier request's edited file"))
    if mid == old:
        return old, new, None
    return mid, refs.get(mid, req), None


def fault_kind(f):
    if f.get("pre"):
        return "after-killed-edit"
    if f.get("stale"):
        return "stale-temp"
    return f["kind"]


def run(ctx, model_ok):
    import gen_effects
    try:
        gmain, gcleanup = gen_effects.EditOps(core.REPO).run()
    except Exception as e:  # noqa
        gmain = gcleanup = None
        ctx.broken.append(f"translator crashed on edit.py: {type(e).__name__}: {e}")
    xroot = other_fs_root()
    try:
        with core.Scratch("vc17_") as tmp:
            os.environ["HOME"] = tmp
            _run(ctx, tmp, xroot, gmain, gcleanup)
    finally:
        if xroot:
            shutil.rmtree(xroot, ignore_errors=True)


def _run(ctx, tmp, xroot, gmain, gcleanup):
    thorough = ctx.tier == "thorough"
    metas = make_metafiles(tmp, ctx.rng, ctx.tier)
    reqs = REQUESTS if thorough else REQUESTS[:2]
    refs = Refs(tmp)
    jobs = []
    counter = [0]
    if xroot is None:
        ctx.case(key="no-other-fs", classes=["SKIPPED: no second writable filesystem (metafile and $TMPDIR on different filesystems not exercised)"],
                 nontrivial=False)

    def place(where):
        counter[0] += 1
        n = counter[0]
        return os.path.join(xroot if where == "other-fs" else tmp, f"w{n}"), os.path.join(tmp, f"t{n}")

    def go(mf, req, f):
        wd, td = place(f.get("where"))
        return run_one(wd, mf, req, f, name=f.get("metafile_name", "m.torrent"), tmpdir=td)

    pair = -1
    for li, (label, mf) in enumerate(metas):
        old = oracle.read(mf)
        for rname, req in reqs:
            pair += 1
            mfname = MF_NAMES[pair % len(MF_NAMES)]
            wheres = [None] + (["other-fs"] if xroot and (thorough or pair % 2 == li % 2) else [])
            for where in wheres:
                tag = {"metafile_name": mfname, **({"where": where} if where else {})}
                # reference run: no fault
                ref = go(mf, req, dict(tag, kind="none"))
                if ref["rc"] != 0 or ref["after"] is None:
                    ctx.fail("edit-failed-without-fault", {"metafile": label, "request": req, "base_hex": old.hex(), "metafile_name": mfname,
                                                           "fault": dict(tag, kind="none")},
                             "edit succeeds and leaves the edited metafile at its path", ref["out"] or f"rc={ref['rc']} metafile present={ref['after'] is not None}")
                    continue
                new = ref["after"]
                refs.put(old, req, new)
                obs = canon_events(ref["events"])
                ctx.case(key=("ref", label, rname, where), classes=["fault-free trace"] + (["metafile and $TMPDIR on different filesystems"] if where else []),
                         sample={"metafile": label, "request": req, "observed_ops": obs} if pair == 0 and not where else None)
                if gmain is not None:
                    exp = expected_ops(gmain, gcleanup)
                    ctx.traces_validated += 1
                    if obs != exp:
                        ctx.disagree("generated op list of edit_torrent vs observed filesystem events",
                                     {"metafile": label, "request": req, "base_hex": old.hex(), "fault": dict(tag, kind="none")}, exp, obs)
                if ref["left"] != [mfname] or ref["tmp_left"]:
                    ctx.notes.append(f"files left beside the metafile / in $TMPDIR after a successful edit: {ref['left']} {ref['tmp_left']}")
                ridx = replace_index(ref["events"])
                todo = [dict(f, **tag) for f in single_faults(ref["events"], len(new))]
                # (a) an EARLIER edit killed at each operation, then this edit without any fault
                for pi, (pname, preq) in enumerate(PRE_REQUESTS):
                    if not thorough and pname != "longer" and (pair + pi) % 2:
                        continue
                    preq = dict(req) if preq is None else preq
                    pref = go(mf, preq, dict(tag, kind="none"))
                    if pref["rc"] != 0 or pref["after"] is None:
                        continue
                    refs.put(old, preq, pref["after"])
                    for kf in kill_faults(pref["events"]):
                        todo.append(dict(tag, kind="none", pre=[{"request": preq, "fault": kf}], pre_name=pname))
                        if thorough and pname == "longer" and kf.get("when") == "after":
                            # ... and this edit under a fault of its own
                            for i in range(len(ref["events"])):
                                todo.append(dict(tag, kind="raise", exc="PermissionError", event_index=i,
                                                 pre=[{"request": preq, "fault": kf}], pre_name=pname))
                # (b) PLANTED stale entries under every name the edit writes beside the metafile
                names = written_beside(ref["events"])
                if not names:
                    ctx.case(key=("no-temp-name", label, rname, where), classes=["no file beside the metafile written: nothing to plant"], nontrivial=False)
                for nm in names:
                    for size in sorted({0, 1, len(new) - 1, len(new), len(new) + 1, len(new) + 4096, 3 * len(new)}):
                        todo.append(dict(tag, kind="none", stale=[{"name": nm, "type": "file", "size": size}]))
                    todo.append(dict(tag, kind="none", stale=[{"name": nm, "type": "dir"}]))
                    todo.append(dict(tag, kind="none", stale=[{"name": nm, "type": "dir", "nonempty": True}]))
                    if thorough:
                        for i in range(len(ref["events"])):
                            for base in ({"kind": "raise", "exc": "ENOSPC"}, {"kind": "kill", "when": "after"}):
                                todo.append(dict(tag, **base, event_index=i, stale=[{"name": nm, "type": "file", "size": len(new) + 4096}]))
                for f in todo:
                    jobs.append((label, mf, rname, req, f, old, new, ridx))
        for uname, ureq, via in (UNENCODABLE if thorough else UNENCODABLE[:5]):
            f = {"kind": "none", "unencodable": True}
            if via == "cli":
                f["via"] = "cli"
            jobs.append((label, mf, uname, ureq, f, old, None, None))

    def work(job):
        label, mf, rname, req, f, old, new, ridx = job
        return job, go(mf, req, f)
    with ThreadPoolExecutor(max_workers=12) as ex:
        results = list(ex.map(work, jobs))
    for job, r in results:
        label, mf, rname, req, f, old, new, ridx = job
        after = r["after"]
        kind = fault_kind(f) + (":" + f["kind"] if fault_kind(f) != f["kind"] else "") + (":" + f.get("exc", "") if f.get("exc") else "") \
            + (":" + f.get("then", "") if f.get("then") else "") + (":" + f.get("when", "") if f.get("when") else "")
        desc = {"metafile": label, "request": req, "fault": f}
        old_e, new_e, problem = effective(f, r, old, new, req, refs)
        if problem:
            ok, why = False, problem
        elif f.get("pre") and new_e is None:
            ok, why = True, ""          # the reference edit of the intermediate state fails by itself: nothing to compare with
        else:
            ok, why = judge(f, r, old_e, new_e, ridx)
        if not ok:
            # the metafile's bytes make the replay exact (the payload behind it is random per run)
            ctx.fail("edit-fault:" + fault_kind(f), dict(desc, base_hex=old.hex()), "complete original or complete edited metafile",
                     {"rc": r["rc"], "out": r["out"], "why": why, "len_after": None if after is None else len(after),
                      "left_by_the_killed_edit": r.get("stale_left")})
        classes = ["fault " + kind, "metafile " + label]
        if f.get("where"):
            classes.append("metafile and $TMPDIR on different filesystems")
        if f.get("via"):
            classes.append("via " + f["via"])
        if f.get("pre"):
            sl = [v for v in (r.get("stale_left") or {}).values()]
            nl = len(new) if new is not None else 0
            classes.append("earlier edit killed: " + ("nothing left behind" if not sl else
                                                     "stale file LONGER than the new encoding left behind" if max(sl) > nl else
                                                     "stale file as long as the new encoding left behind" if max(sl) == nl else
                                                     "stale file shorter than the new encoding left behind"))
        for st in f.get("stale", ()):
            nl = len(new) if new is not None else 0
            classes.append("planted stale " + ("directory" if st.get("type") == "dir" else
                                               "file longer than the new encoding" if st["size"] > nl else
                                               "file as long as the new encoding" if st["size"] == nl else
                                               "empty file" if st["size"] == 0 else "file shorter than the new encoding"))
        ctx.case(key=(label, rname, json.dumps(f, sort_keys=True)), classes=classes)
    ctx.exhaustive = True
    ctx.extra["fault_runs"] = len(jobs)
    ctx.extra["other_filesystem"] = bool(xroot)


# --------------------------------------------------------------------------- replay
def replay_finding(pid, data):
    """pinned reproducer recorded by check.py ({"kind": "e2e", "reproducer": "harness/repro.py D10", "finding": "D10"}):
       run the probe in a fresh interpreter as check.run_repro does; PRESENT -> 1, absent -> 0, anything else -> 2"""
    fid = data.get("finding") or str(data.get("reproducer", "")).split()[-1]
    if not fid:
        print("replay: cannot rebuild input of kind e2e (no finding id recorded)")
        return 2
    p = subprocess.run([core.PY, os.path.join(core.VERIF, "harness", "repro.py"), fid],
                       env=core.impl_env({"HOME": "/nonexistent-home"}), capture_output=True, text=True, timeout=600)
    line = next((l for l in p.stdout.splitlines() if l.split(" ", 1)[0] == fid), "")
    print(f"[{pid} replay] pinned reproducer harness/repro.py {fid} against {core.REPO}: {line or 'no output ' + p.stderr[-300:]}")
    st = (line.split(" ", 2) + ["", ""])[1]
    if st == "PRESENT":
        return 1
    if st == "absent":
        return 0
    print(f"replay: cannot rebuild input of kind e2e (reproducer {fid} did not answer PRESENT or absent)")
    return 2


REBUILDABLE = ("translator refused", "translator crashed", "coq build of", "theorem audit failed", "forbidden vernacular",
               "coqchk ", "OCaml driver for area")


def replay_broken(ctx, pid, recorded):
    """broken obligations (translator / Coq build / theorem audit / driver) are functions of the implementation's source:
       re-run phases 1-2 of ./check against core.REPO and report whether any obligation is broken NOW"""
    import importlib
    import modelrun
    for b in recorded:
        print(f"[{pid} replay] recorded broken obligation: {str(b)[:400]}")
    rc = 0
    other = [b for b in recorded if not str(b).startswith(REBUILDABLE) and "driver" not in str(b)]
    for b in other:
        kind = str(b).split(":")[0][:60]
        print(f"replay: cannot rebuild input of kind broken obligation {kind!r} (it is not a function of a recorded input)")
        rc = 2
    import check as checkmod
    mod = importlib.import_module(f"props.{pid.lower()}")
    fresh = core.Ctx(pid, ctx.tier, ctx.seed)
    with core.Lock("pipeline"):
        fresh, audit, ok = checkmod._build_phase(mod, pid, fresh)
    if ok:
        for area in getattr(mod, "AREAS", []):
            q = subprocess.run([modelrun.binary(area)], input="selftest\n", capture_output=True, text=True, timeout=300)
            if q.returncode != 0 or "SELFTEST OK" not in q.stdout:
                fresh.broken.append(f"extracted model driver for area {area} fails its self-test")
    print(f"[{pid} replay] regenerated coq/Gen from {core.REPO}, rebuilt Props/{pid}.vo, audited Print Assumptions: "
          f"theorems {len(audit['discharged']) if audit else 0}/{len(audit['theorems']) if audit else '?'}, "
          f"broken now: {len(fresh.broken)}")
    for b in fresh.broken:
        print(f"[{pid} replay] STILL BROKEN: {b[:600]}")
    if fresh.broken:
        return 1
    print(f"[{pid} replay] every proof obligation of {pid} is discharged for this tree")
    return rc


def _base(tmp, base):
    src = os.path.join(tmp, "base.torrent")
    if not os.path.exists(src):
        with open(src, "wb") as fd:
            fd.write(base)
    return src


_XROOT = []


def _go(tmp, base, req, f, name):
    """one run of the recorded case: on the other filesystem when the fault says so (None when there is none on this machine)"""
    k = len(os.listdir(tmp))
    root = tmp
    if f.get("where") == "other-fs":
        if not _XROOT:
            _XROOT.append(other_fs_root())
        if _XROOT[0] is None:
            return None
        root = _XROOT[0]
    os.makedirs(os.path.join(tmp, f"mark{k}"))
    return run_one(os.path.join(root, f"run{k}"), _base(tmp, base), req, f, name=name, tmpdir=os.path.join(tmp, f"tmpdir{k}"))


def _reference(tmp, base, req, name="m.torrent", where=None):
    """fault-free run on a copy of the recorded metafile: (result, replace index)"""
    ref = _go(tmp, base, req, {"kind": "none", **({"where": where} if where else {})}, name)
    if ref is None:
        return None, None
    return ref, replace_index(ref["events"])


def _replay_fault(inp, tmp):
    base, req, f = bytes.fromhex(inp["base_hex"]), inp["request"], inp["fault"]
    name = inp.get("metafile_name") or f.get("metafile_name", "m.torrent")
    print(f"[C17 replay] metafile {inp.get('metafile')} ({len(base)} bytes) under the name {name!r}"
          + (", on ANOTHER filesystem than $TMPDIR" if f.get("where") else "") + f", request {json.dumps(req)}, fault {json.dumps(f)}")
    new = ridx = None
    try:
        if not f.get("unencodable"):
            ref, ridx = _reference(tmp, base, req, name=name, where=f.get("where"))
            if ref is None:
                print("replay: cannot rebuild input of kind edit-fault (no second writable filesystem on this machine; set VERIF_OTHER_FS)")
                return 2
            if ref["rc"] != 0 or ref["after"] is None:
                print(f"[C17 replay] VIOLATION edit-failed-without-fault: exit {ref['rc']} {ref['out']}")
                return 1
            new = ref["after"]
            print(f"[C17 replay] fault-free run: {len(new)} bytes written, operations {canon_events(ref['events'])}, replace at index {ridx}")
        for st in f.get("stale", ()):
            print(f"[C17 replay] planted beside the metafile before the edit: {json.dumps(st)}")
        r = _go(tmp, base, req, f, name)
        if r is None:
            print("replay: cannot rebuild input of kind edit-fault (no second writable filesystem on this machine; set VERIF_OTHER_FS)")
            return 2
        refs = Refs(tmp)
        if new is not None:
            refs.put(base, req, new)
        old_e, new_e, problem = effective(f, r, base, new, req, refs)
        if f.get("pre"):
            mid = r["mid"]
            print(f"[C17 replay] earlier edit(s) {json.dumps(f['pre'])}: exit {r['pre_rc']}; left behind {r['stale_left']}; metafile then holds "
                  + ("NOTHING" if mid is None else f"{len(mid)} bytes = " + ("the original" if mid == base else "another state")))
        if problem:
            ok, why = False, problem
        elif f.get("pre") and new_e is None:
            ok, why = True, ""
        else:
            ok, why = judge(f, r, old_e, new_e, ridx)
        after = r["after"]
        print(f"[C17 replay] under the fault: exit {r['rc']} {r['out']!r}; operations reached {canon_events(r['events'])}; metafile path holds "
              + ("NOTHING" if after is None else f"{len(after)} bytes = " + ("the previous file" if after == old_e else "the edited file" if after == new_e
                                                                            else "NEITHER the previous nor the edited file"))
              + f"; beside it: {[x for x in r['left'] if x != name]}; in $TMPDIR: {r['tmp_left']}")
        if not ok:
            print("[C17 replay] VIOLATION", "edit-fault:" + fault_kind(f), "-", why)
        return 0 if ok else 1
    finally:
        while _XROOT:
            x = _XROOT.pop()
            if x:
                shutil.rmtree(x, ignore_errors=True)


def _replay_trace(inp, tmp):
    """generated op list of edit_torrent vs the filesystem events of a real fault-free edit"""
    import gen_effects
    base, req = bytes.fromhex(inp["base_hex"]), inp["request"]
    try:
        gmain, gcleanup = gen_effects.EditOps(core.REPO).run()
    except Exception as e:  # noqa
        print(f"[C17 replay] STILL BROKEN: translator crashed on edit.py: {type(e).__name__}: {e}")
        return 1
    tag = inp.get("fault") or {}
    ref, ridx = _reference(tmp, base, req, name=tag.get("metafile_name", "m.torrent"), where=tag.get("where"))
    if ref is None:
        print("replay: cannot rebuild input of kind disagreement (no second writable filesystem on this machine; set VERIF_OTHER_FS)")
        return 2
    if ref["rc"] != 0 or ref["after"] is None:
        print(f"[C17 replay] VIOLATION edit-failed-without-fault: exit {ref['rc']} {ref['out']}")
        return 1
    exp, obs = expected_ops(gmain, gcleanup), canon_events(ref["events"])
    print(f"[C17 replay] metafile {inp.get('metafile')}, request {json.dumps(req)}\n   generated: {exp}\n   observed : {obs}")
    print("[C17 replay] " + ("translator and observed events agree" if exp == obs else "translator and observed events DISAGREE"))
    return 0 if exp == obs else 1


def replay(ctx, data):
    """re-runs the recorded (metafile bytes, request, fault) in a fresh interpreter and judges again; 1 violated, 0 holds, 2 cannot rebuild"""
    kind = str(data.get("kind"))
    inp = data.get("input") if isinstance(data.get("input"), dict) else {}
    print(f"[C17 replay] kind={kind} implementation under test: {core.REPO}")
    rcs = []

    def cannot(k, why):
        print(f"replay: cannot rebuild input of kind {k} ({why})")
        return 2
    with core.Scratch("vc17r_") as tmp:
        os.environ["HOME"] = tmp
        if data.get("finding") or data.get("reproducer"):
            rcs.append(replay_finding("C17", data))
        elif kind.startswith("edit-fault:"):
            if "base_hex" not in inp or "fault" not in inp or "request" not in inp:
                rcs.append(cannot(kind, "the bytes of the metafile were not recorded in this file"))
            else:
                rcs.append(_replay_fault(inp, tmp))
        elif kind == "edit-failed-without-fault":
            if "base_hex" not in inp or "request" not in inp:
                rcs.append(cannot(kind, "the bytes of the metafile were not recorded in this file"))
            else:
                tag = {k: v for k, v in (inp.get("fault") or {}).items() if k in ("where", "metafile_name")}
                rcs.append(_replay_fault(dict(inp, fault=dict(tag, kind="none")), tmp))
        elif kind == "proof-or-correspondence-broken" or "what" in data:
            dis = data.get("disagreements") or ([data] if "what" in data else [])
            for d in dis[:5]:
                di = d.get("input") if isinstance(d.get("input"), dict) else {}
                if not str(d.get("what", "")).startswith("generated op list of edit_torrent"):
                    rcs.append(cannot("disagreement " + repr(d.get("what")), "unknown correspondence"))
                elif "base_hex" not in di or "request" not in di:
                    rcs.append(cannot("disagreement generated op list vs observed events", "the bytes of the metafile were not recorded"))
                else:
                    rcs.append(_replay_trace(di, tmp))
            if data.get("broken"):
                rcs.append(replay_broken(ctx, "C17", data["broken"]))
            if not dis and not data.get("broken"):
                print("[C17 replay] the file records neither a disagreement nor a broken obligation: nothing to replay")
                rcs.append(2)
        else:
            rcs.append(cannot(kind, "unknown kind"))
    while _XROOT:                      # scratch on the other filesystem (trace replays create it too)
        x = _XROOT.pop()
        if x:
            shutil.rmtree(x, ignore_errors=True)
    rc = 1 if 1 in rcs else (2 if 2 in rcs or not rcs else 0)
    print("[C17 replay] verdict:", {0: "the property holds on this input", 1: "property VIOLATED on this input",
                                    2: "could not be replayed exactly"}[rc])
    return rc
