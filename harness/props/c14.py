"""C14 -- Rebuild only adds verified copies; it never damages sources or existing files."""
import os
import json
import queue
import random
import shutil
from concurrent.futures import ThreadPoolExecutor

import core
import trees
import modelrun
from ref import oracle
from props import rebuild_common as rc

GEN_FILES = ["GenEffects.v"]
EXTRA_TARGETS = ["Extract/ExtractRebuild.vo", "Extract/ExtractRebuildRun.vo"]
AREAS = ["rebuild", "rebuildrun"]
RULE = ("model tie: (1) utils.copypath run on small real filesystems built in a scratch directory (1-4 path elements over the names "
        "a-d; source a file / a directory / absent; destination absent with missing ancestors, a shorter / equal / longer file, a "
        "directory, below a file, equal to the source, of one element, relative to the working directory and absolute) vs the extracted "
        "Coq copypath_run: returned/raised and the state of every path of the universe afterwards; (2) Metadata._match_v1 vs the "
        "extracted match_v1 (outcome per piece and the exact copypath calls; see C13); (3) Metadata._match_v2 vs the extracted extract + "
        "match_v2 (count and the exact copypath calls; candidates of the recorded size and of other sizes incl. longer files that begin "
        "with the genuine bytes; metafiles whose recorded root or length was changed; see C13); (4) Metadata(metafile) vs the extracted metadata_of_bytes on creator / reference / hostile "
        "metafiles incl. every hostile element at every key position of a file tree (see C13).  End to end: payloads, metafiles (v1, aligned "
        "v1, v2, hybrid, reference encoder) and scattered search roots as in C13 plus partially matching decoys and longer decoys (genuine bytes then junk, enumerated first), destinations that "
        "already hold correct, wrong same-size, shorter, longer and unrelated files, empty directories and (rarely) a file where a "
        "directory is needed; full recursive snapshots (names, sizes, sha256, modes, mtimes) of every search root, the metafile "
        "directory and the destination before the rebuild, after it and after a second identical rebuild; the runner records every "
        "filesystem-mutating audit event (open for writing, os.mkdir, shutil.copyfile/copymode, os.chmod, os.remove, os.rename, ...).  "
        "Checked: nothing under the search roots or the metafiles differs; no destination entry disappears; a destination file that had "
        "its full recorded length is unchanged (also its mtime); every created or changed file is at a path some metafile assigns, has the recorded length, is "
        "byte-identical to a search-root file of the recorded name and length, and agrees with the payload on the whole overlap with at "
        "least one piece (v2: the whole file) -- so a same-size decoy none of whose pieces verify is never placed; new directories are "
        "ancestors of assigned paths; the second rebuild changes nothing at all; every mutating event targets the destination.  "
        "Aimed streams judged by the same rules: v1 with a file of exactly k pieces followed by a file whose wholly different same-size "
        "decoy is enumerated first or is its ONLY candidate; v1 with a piece spanning two files where the later file's name exists nowhere "
        "in the search directories and the earlier file has such a decoy; directory torrents (v2, hybrid, v1; creators and reference "
        "encoder; single and batch; also a share of every random payload pool) with a top-level FILE named like the torrent beside other "
        "files and directories -- the path dest/name itself is assigned by no metafile then, only dest/name/name is -- or with a SUB-"
        "DIRECTORY named like the torrent.  HOSTILE metafiles written by the reference encoder (v1 path "
        "elements; v2 and hybrid DIRECTORY keys, below a plain directory or not, first or later sibling): '..' as separate elements, "
        "'../..' inside one element, or an absolute element, leading from dest/<name> into a search directory (its top or a sub-"
        "directory), onto the metafile itself or beside it; a candidate with the recorded name, length and digest is present and a "
        "SHORTER file of that name (or nothing) lies where the escape lands; single metafiles and metafile directories with a benign "
        "metafile; destinations 1-4 levels deep, relative or absolute; judged by C14's own rule: everything in the case directory "
        "outside the destination (search directories, metafiles) is snapshotted before and after and must be identical -- refusing "
        "the metafile is fine.  NAMES THAT ARE NOT THE RECORDED NAME (aimed stream `othername` and a share of the random and scale "
        "streams): for some files the right bytes lie in the search directories ONLY under another name -- the recorded name with a "
        "byte that is not valid UTF-8 first / last / before the extension (b'data\\xff.bin'), a truncated or over-long sequence inside, "
        "the other Unicode normalisation (NFD for NFC, NFC for NFD, NFKC for a ligature), another letter case, white space appended -- "
        "while the recorded name belongs to a wholly different same-size decoy, to a file of another size or to no file; a search "
        "root may be that other-named file itself; the judge is the one above: a written file must equal a search-directory file whose "
        "NAME IS THE RECORDED NAME (names compared exactly, as the file system returns them).  THE -m FOLDER (aimed stream `metafolder`; "
        "mostly the command line in process): the metafile lies next to its own payload (<folder>/<name>.torrent, <folder>/<name>, the "
        "usual `create` layout) and -m names that folder (or the metafile in it; the working directory may be that folder); for some "
        "files the trees given with -c hold only a same-size decoy, a file of another size or nothing: every written file must be a copy "
        "of a file under a directory GIVEN WITH -c.  A few v1 metafiles whose `pieces` string is valid UTF-8 with multi-byte "
        "characters (see C13).  Payloads at SCALE (end to end only; rebuild_common.scale_plan, as in C13, plus partially matching "
        "decoys and aligned v1; half of them into a pre-populated destination): candidates of 1 .. 9 MiB -- exactly k MiB, k MiB +- 1, "
        "k MiB + r -- at piece lengths 256 KiB .. 16 MiB, v1 / v2 / hybrid metafiles of every creator and of the "
        "reference encoder: every file written must have the recorded length and be byte-identical to a candidate, whatever buffer the "
        "copy goes through.  "
        "PATH ARGUMENTS (profile 'paths', rebuild_common.spell_destination): sibling search directories one of whose names is a "
        "string prefix of another ('parts' / 'parts2', 'disk1' / 'disk10'), the destination spelled './../../x/y' or '../../x/y' from inside a "
        "search directory, './../x/y' from the parent of the search directories, './.hidden', './../.hidden' from the folder of the "
        "metafiles, './x/y/', 'x/./y', './/x/y', absolute with a '..' segment or a trailing separator, a sibling of the search directories whose "
        "name extends a search directory's name ('parts-out' next to 'parts'); mostly through the command line: everything written lies under the directory the shell "
        "would resolve (every mutation event targets it), nothing changes in the search directories or the metafiles.  "
        "Non-trivial = distinct case in which the destination was pre-populated or changed.")
TRUSTED_BASE = rc.TRUSTED_BASE + [
    "sys.addaudithook reports every file-system mutation Python code performs (checked on each run: every path the snapshots show as "
    "created or changed must have appeared as the target of a recorded event)"]
ASSUMPTIONS = ["destination disjoint from the search directories and the metafiles (excluded by the property)",
               "no symbolic links; a DIRECTORY standing exactly where a payload file belongs is outside the generated space "
               "(C14_copypath_frame_without_guard_refuted: shutil.copy then writes inside that directory)",
               "v2 route: the candidate's root is the HasherV2 model of Model/HasherV2.v (C02); piece length = 16 KiB * 2^k in the theorems"]

WORKERS = 4


def prepopulate(case, rng):
    dest = case["dest"]
    os.makedirs(dest, exist_ok=True)
    cl = case["classes"]
    cl.discard("destination missing")
    cl.discard("destination exists")
    entries = [(t, e) for t in case["torrents"] for e in t["layout"] if e["rel"]]
    blocker_done = False
    for t, e in entries:
        p = os.path.join(dest, *e["rel"])
        n, data = e["length"], e["data"]
        r = rng.random()
        if r < 0.03 and len(e["rel"]) >= 2 and not blocker_done:
            k = rng.randrange(1, len(e["rel"]))
            q = os.path.join(dest, *e["rel"][:k])
            if not os.path.lexists(q):
                os.makedirs(os.path.dirname(q), exist_ok=True)
                with open(q, "wb") as fd:
                    fd.write(b"i am a file")
                blocker_done = True
                cl.add("destination: a file where a directory is needed")
            continue
        if os.path.lexists(p) or any(os.path.isfile(os.path.join(dest, *e["rel"][:i])) for i in range(1, len(e["rel"]))):
            continue
        if r < 0.25:
            content, label = data, "correct file"
        elif r < 0.39 and n > 0:
            content, label = rc.wholly_different(data, rng.randrange(251)), "wrong file of the full recorded length"
        elif r < 0.53 and n > 0:
            content = rng.choice([data[:n // 2], data[:n - 1], b"", rng.randbytes(n - 1)])
            label = "shorter file"
        elif r < 0.62:
            content, label = data + rng.choice([b"tail", rng.randbytes(1), rng.randbytes(5000)]), "longer file"
        elif r < 0.68:
            os.makedirs(os.path.dirname(p), exist_ok=True)
            cl.add("destination: directory of the layout exists")
            continue
        else:
            continue
        os.makedirs(os.path.dirname(p), exist_ok=True)
        with open(p, "wb") as fd:
            fd.write(content)
        if rng.random() < 0.3:
            os.chmod(p, rng.choice([0o600, 0o444, 0o755]))
        cl.add("destination: " + label)
    for _ in range(rng.randrange(0, 4)):
        t = rng.choice(case["torrents"])
        q = os.path.join(dest, *rng.choice([("unrelated.txt",), (t["name"], "zz_unrelated"), ("other", "x.bin"),
                                            (t["name"] + ".nfo",)]))
        try:
            os.makedirs(os.path.dirname(q), exist_ok=True)
            if not os.path.lexists(q):
                with open(q, "wb") as fd:
                    fd.write(rng.randbytes(rng.choice([0, 9, 3000])))
                cl.add("destination: unrelated file")
        except OSError:
            pass


def snap_all(case):
    out = {"dest": rc.snapshot(case["dest"]), "meta": rc.snapshot(os.path.join(case["workdir"], "meta"))}
    for i, s in enumerate(case["search_all"]):
        out[f"search{i}"] = rc.snapshot(s)
    return out


def run_case(case, runners):
    r = runners.get()
    try:
        res = {"before": snap_all(case)}
        res["reply1"] = r.run(rc.job_of(case))
        res["after1"] = snap_all(case)
        res["reply2"] = r.run(rc.job_of(case))
        res["after2"] = snap_all(case)
        return res
    finally:
        runners.put(r)


class _Safe:
    """ctx whose failures carry only text that can be written (names that are not valid UTF-8 shown with \\xNN)"""

    def __init__(self, ctx):
        self._ctx = ctx

    def __getattr__(self, name):
        return getattr(self._ctx, name)

    def fail(self, kind, inp, expected, observed, **kw):
        return self._ctx.fail(kind, rc.sanitize(inp), expected, rc.sanitize(observed), **kw)


def evaluate(ctx, case, res):
    ctx = _Safe(ctx)
    inp = rc.case_summary(case)
    dest = case["dest"]
    if res["reply1"].get("runner_died") or res["reply2"].get("runner_died"):
        why = next((r.get("error") for r in (res["reply1"], res["reply2"]) if r.get("runner_died")), "")
        ctx.broken.append(f"no answer from the rebuild on case seed {case['seed']}: {why}")
        return
    b, a1, a2 = res["before"], res["after1"], res["after2"]
    for label in b:
        if label == "dest":
            continue
        d = rc.snap_diff(b[label], a1[label]) + ["(second rebuild) " + x for x in rc.snap_diff(a1[label], a2[label])]
        if d:
            ctx.fail("search-directory-or-metafile-changed", inp, "nothing under the search directories or the metafiles changes",
                     {"where": label, "differences": d[:8]})
    layout = {"/".join(e["rel"]): (t, e) for t in case["torrents"] for e in t["layout"] if e["rel"]}
    ancestors = {"/".join(e["rel"][:i]) for t in case["torrents"] for e in t["layout"] if e["rel"] for i in range(1, len(e["rel"]))}
    cands = {(k.rsplit("/", 1)[-1] if k != "." else os.path.basename(case["search_all"][int(label[6:])]), v[1], v[2])
             for label, snap in b.items() if label.startswith("search") for k, v in snap.items() if v[0] == "f"}
    changed = []
    for k in sorted(set(b["dest"]) | set(a1["dest"])):
        x, y = b["dest"].get(k), a1["dest"].get(k)
        if x == y:
            continue
        if y is None:
            ctx.fail("destination-entry-removed", inp, "nothing in the destination is removed", {"path": k, "was": x[:4]})
            continue
        if y[0] == "d":
            if x is not None and x[0] == "d":
                if x[3] != y[3]:
                    ctx.fail("directory-mode-changed", inp, "existing directories keep their mode", {"path": k})
                continue
            if x is not None:
                ctx.fail("destination-file-replaced-by-directory", inp, "existing files are not replaced", {"path": k})
            elif k not in ancestors and k != ".":
                ctx.fail("unexpected-directory", inp, "new directories are ancestors of paths the metafile assigns", {"path": k})
            changed.append(k)
            continue
        changed.append(k)
        if y[0] != "f":
            ctx.fail("unexpected-node", inp, "only regular files and directories are created", {"path": k, "kind": y[0]})
            continue
        if k not in layout:
            ctx.fail("write-outside-layout", inp, "files are written only at paths a metafile assigns",
                     {"path": k, "before": x and x[:2], "after": y[:2]})
            continue
        t, e = layout[k]
        if x is not None and x[0] == "f" and x[1] == e["length"]:
            ctx.fail("full-length-file-altered", inp, "a destination file that has its full recorded length is never altered",
                     {"path": k, "changed": rc.snap_diff({k: x}, {k: y})})
        elif x is not None and x[0] == "f" and x[1] > e["length"]:
            # (C14_full_length_untouched: a destination at least as long as the source is left alone)
            ctx.fail("longer-file-altered", inp, "a destination file that holds at least its full recorded length is never altered",
                     {"path": k, "recorded_length": e["length"], "changed": rc.snap_diff({k: x}, {k: y})})
        elif y[1] != e["length"]:
            ctx.fail("written-file-length-differs", inp, "every file written has exactly the length the metafile records",
                     {"path": k, "size": y[1], "recorded_length": e["length"],
                      "is_a_candidate": (e["rel"][-1], y[1], y[2]) in cands})
        elif (e["rel"][-1], y[1], y[2]) not in cands:
            ctx.fail("written-file-not-a-candidate-copy", inp,
                     "everything written is byte-identical to a search-directory file with the recorded name and length",
                     {"path": k, "size": y[1], "recorded_length": e["length"]})
        elif not rc.agrees_on_some_piece(t, e, oracle.read(os.path.join(dest, *e["rel"]))):
            ctx.fail("unverified-copy-placed", inp, "a same-named same-sized file none of whose pieces verify is never placed",
                     {"path": k, "size": y[1]})
    d2 = rc.snap_diff(a1["dest"], a2["dest"])
    if d2:
        ctx.fail("second-rebuild-changed-destination", inp, "a repeated rebuild into the same destination changes nothing", d2[:8])
    for n, rep in (("first", res["reply1"]), ("second", res["reply2"])):
        out = rc.outside_events(rep, dest)
        if out:
            ctx.fail("mutation-outside-destination", inp, "every filesystem mutation is under the destination",
                     {"rebuild": n, "events": out[:6]})
    # the audit trail must be complete: what the snapshots show as new/changed was announced by an event
    targets = {ev[1] for ev in (res["reply1"].get("events") or [])}
    rd = os.path.realpath(dest)
    unseen = [k for k in changed if os.path.normpath(os.path.join(rd, k)) not in targets]      # ('.' = the destination itself, created by the tool)
    if unseen:
        ctx.broken.append(f"audit hook did not report the mutation of {rc.sanitize(unseen[:3])} (case seed {case['seed']})")
    cl = set(case["classes"])
    for rep in (res["reply1"],):
        if rep.get("error"):
            cl.add("rebuild raised " + rep["error"].split(":")[0])
    if changed:
        cl.add("destination changed")
    ctx.case(key=("e2e", case["profile"], case["seed"]), classes=sorted(cl),
             nontrivial=bool(changed) or any(c.startswith("destination: ") for c in cl),
             sample=rc.sanitize({"case": inp, "destination_before": sorted(b["dest"])[:12], "changed": changed[:12]})
             if case.get("index") == 2 else None)


def make_case(seed, workdir, profile="c14"):
    if profile == "escape":
        return make_escape_case(seed, workdir)
    case = rc.gen_case(seed, profile, workdir)
    case["search_all"] = list(case["search"])
    prng = random.Random(f"prepopulate:{seed}")
    # the aimed profiles mostly start from an empty destination; at scale half of the cases are pre-populated
    if profile == "c14" or prng.random() < (0.5 if profile.startswith("scale") else 0.3):
        prepopulate(case, prng)
    if case["dest_arg"] == case["dest"] and not os.path.isdir(case["dest"]):
        os.makedirs(case["dest"])
    return case


# ------------------------------------------------------------------------- hostile metafiles aimed at the sources
ESC_NAMES = ["victim.bin", "x y.dat", "é.bin", "wait....bin", "data"]


def make_escape_case(seed, workdir):
    """
    A v1 / v2 / hybrid metafile written by the reference encoder whose path elements (v1) or DIRECTORY keys (v2, hybrid)
    lead from dest/<name> into a search directory, or onto the directory of the metafiles: as separate '..' elements, inside
    one element ('../../..') or as an absolute element.  A candidate of the recorded name, length and digest lies in a search
    directory, so the copy is attempted whenever the metafile is let through; where the escape lands there is a SHORTER
    file of that name (the victim) -- or the metafile itself.  Refusing the metafile is fine.
    """
    rng = random.Random(f"escape:{seed}")
    pl = 16384
    version = rng.choice([1, 2, 2, 3, 3])
    cl = {f"hostile metafile: {'v1' if version == 1 else 'v2' if version == 2 else 'hybrid'}"}
    name = rng.choice(["t", "tor", "album x"])
    nroots = rng.choice([1, 2, 2])
    below = rng.choice([["out", "dest"], ["dest"], ["out", "deep", "er", "dest"]])
    dest = os.path.join(workdir, *below)
    search = [os.path.join(workdir, "search", f"S{r}") for r in range(nroots)]
    meta_dir = os.path.join(workdir, "meta")
    for d in search + [meta_dir, dest]:
        os.makedirs(d)
    mf = os.path.join(meta_dir, name + ".torrent")
    target = rng.choice(["search", "search", "search-sub", "metafile", "meta-dir"])
    troot = rng.randrange(nroots)
    fname = rng.choice(ESC_NAMES)
    if target == "search":
        landing = ["search", f"S{troot}", fname]
    elif target == "search-sub":
        landing = ["search", f"S{troot}", rng.choice(["lib", "k.d"]), fname]
    elif target == "metafile":
        fname = name + ".torrent"
        landing = ["meta", fname]
    else:
        landing = ["meta", fname]
    cl.add("hostile metafile: escape lands " + {"search": "in a search directory", "search-sub": "in a sub-directory of a search directory",
                                                 "metafile": "on the metafile itself", "meta-dir": "beside the metafile"}[target])
    up = len(below) + 1                       # from dest/<name> up to the working directory of the case
    pre = rng.choice([[], [], ["sub"], ["a", "b"]])
    form = rng.choice(["separate", "separate", "one element", "absolute"])
    if form == "separate":
        comps = pre + [".."] * (up + len(pre)) + landing
    elif form == "one element":
        comps = pre + ["/".join([".."] * (up + len(pre)))] + landing
    else:
        comps = pre + [os.path.join(workdir, *landing[:-1])] + landing[-1:]
    cl.add("hostile metafile: " + {"separate": "'..' as separate elements", "one element": "'../..' inside one element",
                                   "absolute": "an absolute element"}[form] + (" below a plain directory" if pre else ""))
    data = rng.randbytes(rng.choice([5000, 9000, pl, pl + 77, 2 * pl + 5]))
    files = [(tuple(comps), data)]
    benign = {}
    for i in range(rng.randrange(0, 3)):
        c = rng.choice([("ok.bin",), ("d", "ok2.bin"), ("zz",)])
        if c not in benign:
            benign[c] = rng.randbytes(rng.choice([100, pl, pl + 1]))
    files += sorted(benign.items())
    if rng.random() < 0.5:
        files.sort(key=lambda f: [x.encode() for x in f[0]])         # the hostile entry first or later among its siblings
    raw = oracle.ref_metafile(name, files, pl, version)
    with open(mf, "wb") as fd:
        fd.write(raw)
    metas = [mf]
    if rng.random() < 0.3:
        good = oracle.ref_metafile("good", [(("g.bin",), data[:700])], pl, rng.choice([1, 2, 3]))
        with open(os.path.join(meta_dir, "good.torrent"), "wb") as fd:
            fd.write(good)
        with open(os.path.join(search[0], "g.bin"), "wb") as fd:
            fd.write(data[:700])
        metas = [meta_dir]
        cl.add("hostile metafile: in a metafile directory next to a benign metafile")
    # candidates: every file of the metafile under its own name, in sub-directories of the search roots
    for i, (c, d) in enumerate(files):
        p = os.path.join(search[rng.randrange(nroots)], rng.choice(["have", "deep/er", "5_x"]), f"{i}", c[-1])
        os.makedirs(os.path.dirname(p), exist_ok=True)
        with open(p, "wb") as fd:
            fd.write(d)
    # the victim: a shorter file where the escape lands (the metafile itself is shorter than the candidate by construction)
    victim = os.path.join(workdir, *landing)
    if target != "metafile":
        os.makedirs(os.path.dirname(victim), exist_ok=True)
        if rng.random() < 0.85:
            with open(victim, "wb") as fd:
                fd.write(rng.choice([b"short unrelated file\n", b"", data[:len(data) // 2], rng.randbytes(len(data) - 1)]))
            cl.add("hostile metafile: a shorter file where the escape lands")
        else:
            cl.add("hostile metafile: nothing where the escape lands")
    elif len(raw) >= len(data):
        raise RuntimeError("escape case: the metafile is not shorter than the candidate")
    mode = rng.choice(["api", "api", "cli"])
    rel = rng.random() < 0.3
    cl.update({"mode " + mode, "relative destination" if rel else "destination exists"})
    return {"seed": seed, "profile": "escape", "workdir": workdir, "classes": cl, "mode": mode, "order": "sorted",
            "metafiles": metas, "search": search, "search_all": search, "dest": dest,
            "dest_arg": os.path.join(*below) if rel else dest, "cwd": workdir if rel else None,
            "escape": {"metafile_version": {1: "v1", 2: "v2", 3: "hybrid"}[version], "name": name,
                       "hostile_entry": comps if form != "absolute" else pre + ["<case directory>/" + "/".join(landing[:-1])] + landing[-1:],
                       "other_entries": ["/".join(c) for c, _ in files if list(c) != comps],
                       "lands_on": "/".join(landing), "destination": "/".join(below),
                       "metafile_hex": raw.hex() if form != "absolute" and len(raw) < 1500 else None}}


def escape_summary(case):
    return dict(case["escape"], case_seed=case["seed"], profile="escape", mode=case["mode"], dest_arg=os.path.relpath(case["dest"], case["workdir"]),
                cwd="<case directory>" if case["cwd"] else None,
                metafiles=[os.path.relpath(m, case["workdir"]) for m in case["metafiles"]],
                search=[os.path.relpath(x, case["workdir"]) for x in case["search"]])


def snap_outside(case):
    """everything of the case directory except the destination"""
    pre = os.path.relpath(case["dest"], case["workdir"])
    return {k: v for k, v in rc.snapshot(case["workdir"]).items() if k != pre and not k.startswith(pre + "/")}


def run_escape(case, runners):
    r = runners.get()
    try:
        res = {"before": snap_outside(case)}
        res["reply1"] = r.run(rc.job_of(case))
        res["after1"] = snap_outside(case)
        return res
    finally:
        runners.put(r)


def evaluate_escape(ctx, case, res):
    ctx = _Safe(ctx)
    inp = escape_summary(case)
    rep = res["reply1"]
    if rep.get("runner_died"):
        ctx.broken.append(f"no answer from the rebuild on escape case seed {case['seed']}: {rep.get('error')}")
        return
    b, a = res["before"], res["after1"]
    keys = [k for k in sorted(set(b) | set(a)) if b.get(k) != a.get(k)]
    src = [k for k in keys if k in ("search", "meta") or k.startswith(("search/", "meta/"))]
    if src:
        ctx.fail("search-directory-or-metafile-changed", inp, "nothing under the search directories or the metafiles changes",
                 {"differences": rc.snap_diff({k: b[k] for k in src if k in b}, {k: a[k] for k in src if k in a})[:8],
                  "error": rep.get("error"), "counter": rep.get("counter")})
    other = [k for k in keys if k not in src]
    if other:
        ctx.fail("changed-outside-destination", inp, "nothing outside the destination is created, changed or removed",
                 rc.snap_diff({k: b[k] for k in other if k in b}, {k: a[k] for k in other if k in a})[:8])
    out = rc.outside_events(rep, case["dest"])
    if out:
        ctx.fail("mutation-outside-destination", inp, "every filesystem mutation is under the destination", {"events": out[:6]})
    cl = set(case["classes"])
    cl.add("hostile metafile: refused" if rep.get("error") else "hostile metafile: rebuild returned")
    ctx.case(key=("e2e-escape", case["seed"]), classes=sorted(cl), nontrivial=True,
             sample=dict(inp, error=rep.get("error")) if case.get("index") == 1 else None)


def e2e(ctx):
    quick = ctx.tier == "quick"
    plan = ["c14"] * (70 if quick else 1100) + ["boundary"] * (6 if quick else 80) + ["boundary-only"] * (6 if quick else 80) + \
        ["absent"] * (8 if quick else 100) + ["namesake"] * (10 if quick else 120) + \
        ["escape"] * (30 if quick else 500) + ["othername"] * (8 if quick else 120) + ["metafolder"] * (8 if quick else 120) + \
        ["utf8pieces"] * (2 if quick else 24) + ["paths"] * (24 if quick else 240)
    # payloads at SCALE (rebuild_common.scale_plan: candidates of 1 .. 6 MiB, piece lengths 256 KiB .. 4 MiB and more): copies larger
    # than any buffer a copy loop would use, judged by the same snapshots and the same rules
    plan += rc.scale_plan(not quick, "scale14")
    n = len(plan)
    seeds = [ctx.rng.getrandbits(48) for _ in range(n)]
    with core.Scratch("vc14e_") as tmp:
        os.environ["HOME"] = tmp
        runners = queue.Queue()
        rs = [rc.Runner(tmp) for _ in range(WORKERS)]
        for r in rs:
            runners.put(r)
        try:
            with ThreadPoolExecutor(max_workers=WORKERS) as ex:
                for c0 in range(0, n, 24):
                    cases = []
                    for i in range(c0, min(c0 + 24, n)):
                        try:
                            c = make_case(seeds[i], os.path.join(tmp, f"c{i}"), plan[i])
                        except Exception as e:  # noqa
                            ctx.broken.append(f"case generation failed (seed {seeds[i]}, {plan[i]}): {type(e).__name__}: {e}")
                            continue
                        c["index"] = i
                        cases.append(c)
                    results = list(ex.map(lambda c: (run_escape if c["profile"] == "escape" else run_case)(c, runners), cases))
                    for c, res in zip(cases, results):
                        (evaluate_escape if c["profile"] == "escape" else evaluate)(ctx, c, res)
                        shutil.rmtree(c["workdir"], ignore_errors=True)
        finally:
            for r in rs:
                r.close()


# ------------------------------------------------------------------------------------------ copypath vs model
NAMES = ["a", "b", "c", "d"]


def copypath_tie(ctx, model_ok):
    core.use_repo_in_process()
    from torrentfile import utils
    rng = ctx.rng
    n = 500 if ctx.tier == "quick" else 8000
    lines, impl, descs = [], [], []
    home = os.getcwd()
    with core.Scratch("vc14c_") as tmp:
        tmp = os.path.realpath(tmp)
        dsize = os.path.getsize(tmp)
        base_parts = tuple(p for p in tmp.split(os.sep) if p)
        for ci in range(n):
            root = os.path.join(tmp, f"r{ci}")
            os.makedirs(root)
            # a small filesystem: every node is a directory or a file; files of 0..5 bytes, now and then > dsize
            nodes = {}
            for _ in range(rng.randrange(0, 10)):
                depth = rng.randrange(1, 4)
                p = tuple(rng.choice(NAMES) for _ in range(depth))
                if any(p[:i] in nodes and nodes[p[:i]] is not None for i in range(1, len(p) + 1)) or \
                        any(q[:len(p)] == p for q in nodes):
                    continue
                for i in range(1, len(p)):
                    nodes[p[:i]] = None
                r = rng.random()
                nodes[p] = None if r < 0.3 else (rng.randbytes(dsize + rng.randrange(1, 900)) if r < 0.38 else
                                                 bytes(rng.choice(b"pqr") for _ in range(rng.randrange(0, 6))))

            def pick(kind):
                existing = sorted(nodes)
                if kind == "existing" and existing:
                    return rng.choice(existing)
                if kind == "below" and existing:
                    return rng.choice(existing) + (rng.choice(NAMES),)
                return tuple(rng.choice(NAMES) for _ in range(rng.randrange(1, 5)))
            files = [p for p in sorted(nodes) if nodes[p] is not None]
            src = rng.choice(files) if files and rng.random() < 0.8 else pick(rng.choice(["existing", "random"]))
            dst = pick(rng.choice(["existing", "below", "below", "random", "random", "random"]))
            r = rng.random()
            if r < 0.04:
                dst = src
            elif r < 0.34 and len(files) >= 2:
                dst = rng.choice([f for f in files if f != src] or files)      # an existing file: shorter / equal / longer
            absolute = rng.random() < 0.3
            for p in sorted(nodes, key=len):
                fp = os.path.join(root, *p)
                if nodes[p] is None:
                    os.makedirs(fp, exist_ok=True)
                else:
                    with open(fp, "wb") as fd:
                        fd.write(nodes[p])
            universe = set(nodes) | {src[:i] for i in range(1, len(src) + 1)} | {dst[:i] for i in range(1, len(dst) + 1)} | \
                {dst + (src[-1],)}
            universe = sorted(universe)
            pre = (("/",) + base_parts + (f"r{ci}",)) if absolute else ()
            enc = lambda p: "/".join(rc.hx(c) for c in p) if p else "."          # noqa: E731
            fs = [(pre[:i], None) for i in range(1, len(pre) + 1)] + [(pre + p, nodes[p]) for p in sorted(nodes)]
            fsf = ";".join(enc(p) + "=" + ("D" if v is None else "F" + v.hex()) for p, v in fs) or "-"
            lines.append((str(dsize), enc(pre + src), enc(pre + dst), fsf, ";".join(enc(pre + q) for q in universe)))
            try:
                os.chdir(root)
                s_arg = os.path.join(root, *src) if absolute else os.path.join(*src)
                d_arg = os.path.join(root, *dst) if absolute else os.path.join(*dst)
                try:
                    utils.copypath(s_arg, d_arg)
                    tag = "ok"
                except Exception as e:  # noqa
                    tag = "raised"
                    exc = type(e).__name__
            finally:
                os.chdir(home)
            state = []
            for q in universe:
                fp = os.path.join(root, *q)
                state.append("D" if os.path.isdir(fp) else ("F" + oracle.read(fp).hex()) if os.path.isfile(fp) else "N")
            impl.append(tag + "|" + ";".join(state))
            kind_s = "absent" if src not in nodes else "directory" if nodes[src] is None else "file"
            kind_d = ("= source" if dst == src else "absent" if dst not in nodes else "directory" if nodes[dst] is None else
                      "file" if kind_s != "file" else "file shorter" if len(nodes[dst]) < len(nodes[src]) else
                      "file of equal length" if len(nodes[dst]) == len(nodes[src]) else "file longer")
            below_file = any(dst[:i] in nodes and nodes[dst[:i]] is not None for i in range(1, len(dst)))
            cl = ["copypath tie", "copypath tie: source " + kind_s, "copypath tie: destination " + kind_d,
                  "copypath tie: " + ("absolute paths" if absolute else "relative paths"), "copypath tie: " + tag]
            if below_file:
                cl.append("copypath tie: destination below a file")
            if len(dst) == 1 and not absolute:
                cl.append("copypath tie: destination of one element")
            descs.append({"source": "/".join(src), "dest": "/".join(dst), "absolute": absolute,
                          "fs": {"/".join(p): ("dir" if v is None else f"file[{len(v)}]") for p, v in sorted(nodes.items())}})
            ctx.case(key=("copypath", ci, src, dst, absolute, tuple(sorted((p, v) for p, v in nodes.items()))), classes=cl,
                     nontrivial=kind_s == "file", sample=dict(descs[-1], result=impl[-1][:200]) if ci == 9 else None)
            shutil.rmtree(root, ignore_errors=True)
    if not model_ok:
        return
    outs = modelrun.run("copypath", lines)
    if outs is None:
        ctx.broken.append("extracted model driver (copypath) failed to run")
        return
    for o, im, d in zip(outs, impl, descs):
        ctx.traces_validated += 1
        if o != im:
            ctx.disagree("Model/CopyPath.v copypath_run vs utils.copypath (ok/raised | state of every path)", d, o[:300], im[:300])


def run(ctx, model_ok):
    copypath_tie(ctx, model_ok)
    rc.match_v1_tie(ctx, model_ok)
    rc.match_v2_tie(ctx, model_ok)
    rc.parts_tie(ctx, model_ok)
    rc.extract_tie(ctx, model_ok)          # how the metafile is read: which entries, which targets (incl. every hostile key position)
    # the composition Metadata(metafile).rebuild(filemap, dest) on a real scratch filesystem vs Model/RebuildRun.v rebuild_of_metafile
    from props import rebuild_pipeline
    rebuild_pipeline.tie_rebuild_run(ctx, model_ok)
    e2e(ctx)


def replay(ctx, data):
    inp = (data.get("input") or {})
    print(json.dumps({k: data.get(k) for k in ("kind", "expected", "observed")}, indent=1, ensure_ascii=False)[:3000])
    if "case_seed" not in inp:
        print(json.dumps(data, indent=1)[:3000])
        return 0
    sub = core.Ctx("C14", ctx.tier, ctx.seed)
    with core.Scratch("vc14r_") as tmp:
        os.environ["HOME"] = tmp
        case = make_case(inp["case_seed"], os.path.join(tmp, "c"), inp.get("profile", "c14"))
        esc = case["profile"] == "escape"
        q = queue.Queue()
        r = rc.Runner(tmp)
        q.put(r)
        try:
            res = (run_escape if esc else run_case)(case, q)
        finally:
            r.close()
        (evaluate_escape if esc else evaluate)(sub, case, res)
        print("implementation:", res["reply1"].get("impl"), "error:", res["reply1"].get("error"))
        print(json.dumps((escape_summary if esc else rc.case_summary)(case), indent=1, ensure_ascii=False)[:4000])
        for f in sub.failures:
            print("PROBLEM", f["kind"], json.dumps(core.jsonable(rc.sanitize(f["observed"])), ensure_ascii=False)[:600])
        print("verdict:", "property violated on this input" if sub.failures else "holds on this input")
        return 1 if sub.failures else 0
