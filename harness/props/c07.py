"""C07 -- edit changes only the named fields; hash-bearing data is untouched."""
import os
import json
import hashlib

import core
import trees
import modelrun
from ref import oracle
from props import edit_common as EC

GEN_FILES = ["GenCli.v"]
EXTRA_TARGETS = ["Extract/ExtractEdit.vo", "Model/RoutesRun.vo"]
AREAS = ["edit"]
RULE = ("exhaustive shape space: every assignment of Keep / Clear / Set to the six editable fields (3^6 = 729 requests, value shape "
        "str or list alternating) x 25 base metafiles (v1 / v2 / hybrid x {all optional fields, none, tracker+source}, written by the "
        "tool's creators; reference-encoded metafiles with foreign extra keys, with several tracker tiers, 3 with UNSORTED top-level and "
        "info keys, and 3 whose info states private = 0 explicitly; 3 whose optional fields are all present but FALSY -- url-list / "
        "httpseeds empty lists, comment / source / created-by empty strings, private 0 -- and 3 whose strings are not what a decoder "
        "expects: a Latin-1 comment and web seed (not UTF-8), NFD / compatibility characters in source and created-by, a top-level and "
        "an info key that are not UTF-8; every fourth request sets values that are neither ASCII nor NFC and must arrive byte for "
        "byte) through edit_torrent, plus the CLI-expressible "
        "subset through `torrentfile edit` (quick tier: the CLI sampled 1/4; on the private = 0 bases every request that Sets private and a "
        "fixed third of the others; on the falsy / text-bytes bases every request naming exactly one field and a fixed fifth of the others); model tie: the bytes written must equal the extracted Coq "
        "model's edit of the same file bytes; end to end, independently of the model: every named field has its value (or is gone) at "
        "its home, every other key at the top level and in info is unchanged, and the raw info span (SHA-1 and SHA-256) is identical "
        "whenever no info field was named; sequences of 1..5 requests compared with the last-write summary; a separate foreign-layout "
        "stream: reference-encoded v1 / v2 / hybrid metafiles with a top-level comment / source / private (with and without the same "
        "key in info) x 12 requests (Set str / list of comment and source, alone and combined with other fields; Set private; Clear) x "
        "library and CLI, judged by the same frame judge and included in the model tie: a failing Set is a violation, only a failing "
        "Clear of exactly the shape of known finding D11 (the top-level key deleted, info untouched) is routed to D11; a "
        "command-line SPELLING stream: the same flag two or three times on one command line with other flags in between (the request "
        "is the LAST occurrence of each flag), option=value next to option value, --comment / --source / list-flag values that a shell, "
        "a formatter or an option parser would treat specially ('~', '~/x', '~user', '$HOME', '%s', a leading dash via option=value, '.', "
        "'..', blank padding; HOME is set, so an expansion is visible; the value '--' alone is left out, see EC.VERBATIM_EATEN_BY_ARGPARSE) which must arrive verbatim, the metafile placed first or last and "
        "spelled absolute / relative / './' / 'sub/../' / with '//' or '/./' from the working directory -- on six bases of every "
        "version, judged by the same frame judge against the request read off the structure of the command line (no stray files next "
        "to the metafile), and included in the model tie.")
TRUSTED_BASE = [
    "Coq 8.16.1 kernel; theorems closed under the global context",
    "hand models Model/Edit.v and Model/Bencode.v tied to edit.py / pyben by differential execution on the exhaustive shape space",
    "Python str/bytes duality collapsed to raw bytes; str.split() modelled on ASCII whitespace (bytes 9-13, 28-32)",
    "argparse maps the edit flags to the request as exercised end to end (C20 treats option routing)",
]
ASSUMPTIONS = ["metafiles have duplicate-free keys (true of everything pyben decodes into a dict)",
               "layout_ok for the frame theorems (foreign layouts: a Clear there is the known finding D11; Set requests on them are checked end to end)"]

HOME = {"comment": "info", "source": "info", "private": "info", "announce": "top", "url-list": "top", "httpseeds": "top"}


def req_spec(req, via):
    out = []
    for f in EC.FIELDS:
        v = req.get(f)
        if v is None:
            out.append("K")
        elif v == "":
            out.append("C")
        elif f == "private":
            out.append("S31")
        elif isinstance(v, list):
            out.append("L" + (",".join(x.encode().hex() for x in v) or "-"))
        elif via == "cli" and f in ("announce", "url-list", "httpseeds"):
            out.append("L" + ",".join(x.encode().hex() for x in v.split()))
        else:
            out.append("S" + v.encode().hex())
    return ";".join(out)


def decode(raw):
    try:
        return oracle.bdecode_strict(raw)
    except Exception:  # noqa
        return oracle.plain(oracle.bdecode_lenient(raw))


def info_span(raw):
    try:
        _, span = oracle.bdecode_lenient(raw, want_span=b"info")
        return raw[span[0]:span[1]]
    except Exception:  # noqa
        return None


def words(v):
    return [w.encode() for w in (v if isinstance(v, list) else v.split())]


def frame_problems(req, before, after):
    """the property, judged on decoded values independently of the Coq model"""
    p = []
    b, a = decode(before), decode(after)
    bi, ai = b[b"info"], a[b"info"]
    touched_top, touched_info = set(), set()
    for f in EC.FIELDS:
        v = req.get(f)
        if v is None:
            continue
        key = f.encode()
        home_b, home_a = (bi, ai) if HOME[f] == "info" else (b, a)
        (touched_info if HOME[f] == "info" else touched_top).add(key)
        if f == "announce":
            touched_top.add(b"announce-list")
        if v == "":
            if key in home_a:
                p.append(f"{f} cleared but still present")
        elif f == "private":
            if home_a.get(key) != 1:
                p.append("private not set to 1")
        elif f in ("comment", "source"):
            want = [x.encode() for x in v] if isinstance(v, list) else v.encode()
            if home_a.get(key) != want:
                p.append(f"{f} = {home_a.get(key)!r}, expected {want!r}")
        elif f == "announce":
            w = words(v)
            if a.get(b"announce") != w[0] or a.get(b"announce-list") != [w]:
                p.append(f"announce/announce-list = {a.get(b'announce')!r}/{a.get(b'announce-list')!r}")
        else:
            if home_a.get(key) != words(v):
                p.append(f"{f} = {home_a.get(key)!r}")
    for k in set(b) | set(a):
        if k not in touched_top and k != b"info" and b.get(k) != a.get(k):
            p.append(f"unnamed top-level key {k!r} changed")
    for k in set(bi) | set(ai):
        if k not in touched_info and bi.get(k) != ai.get(k):
            p.append(f"unnamed info key {k!r} changed")
    if not touched_info:
        sb, sa = info_span(before), info_span(after)
        if sb is not None and (sa is None or hashlib.sha1(sb).digest() != hashlib.sha1(sa).digest()
                               or hashlib.sha256(sb).digest() != hashlib.sha256(sa).digest()):
            p.append("info-hash changed although no info field was named")
    return p


def run(ctx, model_ok):
    cases = []          # (spec, before, after_or_None, desc)

    def visit(label, combo, req, via, before, after, exc):
        desc = {"metafile": label, "request": {k: v for k, v in req.items()}, "via": via}
        nontriv = any(c != "keep" for c in combo)
        ctx.case(key=(label, combo, via), nontrivial=nontriv,
                 classes=[f"{f}:{c}" for f, c in zip(EC.FIELDS, combo) if c != "keep"][:6] + [f"via {via}", "metafile " + label.split("/")[0]]
                 + (["base states private=0: private " + combo[2]] if label.endswith("/private0") else [])
                 + ([f"base holds a FALSY {f}: {c}" for f, c in zip(EC.FIELDS, combo) if f != "announce"] if label.endswith("/falsy") else [])
                 + (["base holds non-UTF-8 / non-NFC text and keys"] if label.endswith("/textbytes") else [])
                 + (["request sets non-ASCII, non-NFC values"] if any(isinstance(v, (str, list)) and not str(v).isascii() for v in req.values()) else []),
                 sample=desc if len(ctx.samples) < 2 and nontriv else None)
        if exc is not None:
            if isinstance(exc, IndexError) and after == before:
                cases.append((req_spec(req, via), before, None, desc))
                return
            ctx.fail("edit-raised", dict(desc, base_hex=before.hex()), "an edited metafile", f"{type(exc).__name__}: {exc}")
            return
        if after is None:
            ctx.fail("metafile-missing-after-edit", dict(desc, base_hex=before.hex()), "a metafile", None)
            return
        cases.append((req_spec(req, via), before, after, desc))
        probs = frame_problems(req, before, after)
        if probs:
            ctx.fail("edit-frame", dict(desc, base_hex=before.hex()), "only the named fields change", probs[:5])

    EC.enumerate_edits(ctx, visit, extra=True)
    foreign_layout(ctx, cases)
    cli_spellings(ctx, cases)

    if model_ok:
        outs = modelrun.run("edit", [(b.hex(), spec) for spec, b, _, _ in cases])
        if outs is None:
            ctx.broken.append("extracted edit driver failed to run")
        else:
            for (spec, before, after, desc), o in zip(cases, outs):
                ctx.traces_validated += 1
                want = "none" if after is None else after.hex()
                if o != want:
                    ctx.disagree("Model/Edit.v vs edit.edit_torrent (bytes written)", dict(desc, spec=spec, base_hex=before.hex()),
                                 o[:160], want[:160])
    sequences(ctx)
    cli_tie(ctx, model_ok)
    interactive_edits(ctx)


# ---------------------------------------------------------------------------- tie of the generated edit table (C07_cli_*)
CLI_PREAMBLE = r"""
From Coq Require Import String List Bool Ascii Arith.
From TF Require Import Model.ArgParse Model.Routes Model.RoutesEdit Gen.GenCli Model.RoutesRun.
Import ListNotations.
Open Scope string_scope.
Fixpoint strs_eq (a b : list string) : bool :=
  match a, b with [], [] => true | x :: r, y :: s => String.eqb x y && strs_eq r s | _, _ => false end.
Definition val_eq (a b : value) : bool :=
  match a, b with
  | VNone, VNone => true | VBool x, VBool y => Bool.eqb x y | VStr x, VStr y => String.eqb x y
  | VInt x, VInt y => Nat.eqb x y | VList x, VList y => strs_eq x y | _, _ => false
  end.
Fixpoint ns_eq_ordered (a b : namespace) : bool :=
  match a, b with
  | [], [] => true
  | (k, v) :: r, (k', v') :: s => String.eqb k k' && val_eq v v' && ns_eq_ordered r s
  | _, _ => false
  end.
(* Some (metafile, editargs): edit_torrent was called with them; None: argparse exited with status 2 *)
Definition check (i : list string * option (string * namespace)) : bool :=
  match run_edit_parse (fst i), snd i with
  | ER_ok (VStr m) ea, Some (m', ea') => String.eqb m m' && ns_eq_ordered ea ea'
  | ER_error, None => true
  | ER_outside, _ => true
  | _, _ => false
  end.
"""


def cli_tie(ctx, model_ok):
    """`torrentfile edit <argv>`: the (metafile, request) that commands.edit hands to edit_torrent -- or the argparse error --
       versus run_edit_parse (the argparse model on the edit table and mapping REGENERATED from cli.py / commands.py)"""
    from props import c20 as C20
    core.use_repo_in_process()
    import torrentfile.cli as cli
    import torrentfile.commands as commands
    flags = {"comment": ["--comment"], "source": ["--source"], "private": ["--private"],
             "announce": ["--tracker"], "url-list": ["--web-seed"], "httpseeds": ["--http-seed"]}
    vals = ["x", "http://t/a", "two words", "e", "1", "true", "a=b", "%41"]      # ASCII: Coq string literals
    rng = ctx.rng
    argvs = [["m.torrent"], [], ["m.torrent", "--private"], ["--private", "m.torrent"], ["m.torrent", "--comment"],
             ["m.torrent", "--tracker"], ["--tracker", "u1", "m.torrent"], ["m.torrent", "--bogus"], ["m.torrent", "extra"]]
    n = 300 if ctx.tier == "quick" else 4000
    for _ in range(n):
        items = []
        for f in rng.sample(list(flags), rng.randrange(0, 5)):
            fl = rng.choice(flags[f])
            if f == "private":
                items.append([fl])
            elif f in ("comment", "source"):
                items.append([fl, rng.choice(vals)])
            else:
                items.append([fl] + [rng.choice(vals) for _ in range(rng.randrange(1, 4))])
            if rng.random() < 0.15:
                items.append(list(items[-1]))          # a repeated flag: the last one wins
        pos = rng.randrange(0, len(items) + 1)
        argv = [t for it in items[:pos] for t in it] + (["m.torrent"] if rng.random() < 0.95 else []) + \
            [t for it in items[pos:] for t in it]
        argvs.append(argv)
    captured = {}

    def fake_edit(metafile, editargs):
        captured["call"] = (metafile, dict(editargs), list(editargs))
        return {}
    real = commands.edit_torrent
    items = []
    try:
        commands.edit_torrent = fake_edit
        for argv in argvs:
            captured.clear()
            status = None
            try:
                trees.quiet(cli.execute, ["edit"] + argv)
            except SystemExit as e:
                status = e.code
            except Exception as e:  # noqa
                status = f"{type(e).__name__}"
            if "call" in captured:
                m, d, order = captured["call"]
                exp = f"Some ({C20.cstr(m)}, [" + "; ".join(f"({C20.cstr(k)}, {C20.gval(d[k])})" for k in order) + "])"
                named = sorted(k for k in order if d[k] is not None)
            elif status == 2:
                exp, named = "None", ["argparse error"]
            else:
                ctx.notes.append(f"edit argv {argv}: neither a call nor exit status 2 ({status})")
                continue
            items.append(("(" + C20.glist(argv) + ", " + exp + ")", argv, exp))
            ctx.case(key=("edit-cli", tuple(argv)), classes=["edit table tie"] + [f"edit cli names {k}" for k in named][:6], nontrivial=True)
    finally:
        commands.edit_torrent = real
    if not model_ok:
        return
    bad, err = core.coq_eval_failing(CLI_PREAMBLE, [t for t, _, _ in items], "check")
    if err:
        ctx.broken.append("vm_compute evaluation of run_edit_parse failed: " + err[-600:])
        return
    ctx.traces_validated += len(items)
    for i in bad:
        ctx.disagree("Model/RoutesEdit.v run_edit_parse (generated edit table) vs cli.execute(['edit', ...]) + commands.edit",
                     {"argv": items[i][1]}, "differs (evaluate run_edit_parse on this argv)", items[i][2][:300])


def interactive_edits(ctx):
    """the interactive editor (`torrentfile -i`, edit): a dialog that names no field leaves the metafile byte-identical; a dialog
       that names fields changes only those (judged by frame_problems, independently of any model); every base metafile"""
    import interactive_route as IR
    import shutil
    with core.Scratch("vc07i_") as tmp:
        os.environ["HOME"] = tmp
        bases = EC.base_metafiles(tmp, ctx.rng, extra=True)
        dialogs = [("no edit", [], {}),
                   ("comment", [("comment", "dialog comment")], {"comment": "dialog comment"}),
                   ("tracker", [("tracker", "http://i/1 http://i/2")], {"announce": "http://i/1 http://i/2"}),
                   ("source+web-seed", [("source", "ISRC"), ("web-seed", "http://iw/1")], {"source": "ISRC", "url-list": "http://iw/1"}),
                   ("clear comment", [("comment", "")], {"comment": ""})]
        work = os.path.join(tmp, "i.torrent")
        for bi, (label, mf) in enumerate(bases):
            before = oracle.read(mf)
            for di, (dname, edits, req) in enumerate(dialogs):
                if ctx.tier == "quick" and (bi + di) % 2 and dname != "no edit":
                    continue
                shutil.copyfile(mf, work)
                r = IR.run_interactive_full(IR.edit_answers(work, edits), tmp, tmp, in_process=True)
                after = oracle.read(work) if os.path.isfile(work) else None
                desc = {"metafile": label, "base_hex": before.hex(), "interactive_dialog": dname, "answers": IR.edit_answers("<metafile>", edits)}
                ctx.case(key=("interactive-edit", label, dname), classes=["via interactive dialog", "interactive " + dname,
                                                                           "metafile " + label.split("/")[0]], nontrivial=True)
                if r["rc"] != 0 or after is None:
                    ctx.fail("interactive-edit-raised", desc, "an edited metafile", f"{r.get('exception')}: {r['stderr'][-200:]}")
                    continue
                if not edits:
                    # (a foreign metafile with unsorted top-level keys is re-written with sorted ones: no field changes)
                    probs = frame_problems({}, before, after)
                    if probs:
                        ctx.fail("interactive-edit-without-edits-changed-the-file", desc, "every field and the info span unchanged", probs[:5])
                    continue
                probs = frame_problems(req, before, after)
                if probs:
                    ctx.fail("interactive-edit-frame", desc, "only the named fields change", probs[:5])


def sequences(ctx):
    """after any sequence of edits the file equals the original with each named field at its last-written value"""
    core.use_repo_in_process()
    from torrentfile.edit import edit_torrent
    import shutil
    n = 30 if ctx.tier == "quick" else 500
    with core.Scratch("vc07s_") as tmp:
        bases = EC.base_metafiles(tmp, ctx.rng, extra=True)
        reqs = EC.all_requests(ctx.tier, ctx.rng, uni=True)
        work = os.path.join(tmp, "w.torrent")
        for i in range(n):
            label, mf = ctx.rng.choice(bases)
            seq = [ctx.rng.choice(reqs)[1] for _ in range(ctx.rng.randrange(1, 6))]
            shutil.copyfile(mf, work)
            try:
                for r in seq:
                    trees.quiet(edit_torrent, work, dict(r))
            except Exception as e:  # noqa
                ctx.fail("edit-sequence-raised", {"metafile": label, "sequence": seq, "base_hex": oracle.read(mf).hex()},
                         "edited metafile", type(e).__name__)
                continue
            last = {}
            for r in seq:
                for f, v in r.items():
                    if v is not None:
                        last[f] = v
            probs = frame_problems(last, oracle.read(mf), oracle.read(work))
            # when the tracker field is cleared only the disappearance of `announce` is required (fate of the tier list is free)
            if last.get("announce") == "":
                probs = [p for p in probs if "announce-list" not in p]
            if probs:
                ctx.fail("edit-history", {"metafile": label, "sequence": seq, "base_hex": oracle.read(mf).hex()},
                         "original with each named field at its last-written value", probs[:5])
            ctx.case(key=("seq", i, label, repr(seq)), classes=[f"sequence of {len(seq)}"])


FOREIGN_LAYOUTS = [      # (label, extra top-level keys, extra info keys): info fields that ANOTHER tool wrote at the top level
    ("top-level comment", {b"comment": b"top comment"}, {}),
    ("top-level comment + info.comment", {b"comment": b"top comment"}, {b"comment": b"inner comment"}),
    ("top-level source", {b"source": b"TOPSRC"}, {}),
    ("top-level source + info.source", {b"source": b"TOPSRC"}, {b"source": b"INSRC"}),
    ("top-level comment and source", {b"comment": b"top comment", b"source": b"TOPSRC"}, {b"source": b"INSRC"}),
    ("top-level private=0", {b"private": 0}, {}),
]


def foreign_requests(rng):
    S, L = "str", "list"
    v = EC.value_for
    return [("set comment str", {"comment": v("comment", S, rng)}),
            ("set comment list", {"comment": v("comment", L, rng)}),
            ("set source str", {"source": v("source", S, rng)}),
            ("set source list", {"source": v("source", L, rng)}),
            ("set comment+source", {"comment": v("comment", S, rng), "source": v("source", S, rng)}),
            ("set comment+source+tracker", {"comment": v("comment", L, rng), "source": v("source", S, rng), "announce": v("announce", S, rng)}),
            ("set comment+private", {"comment": v("comment", S, rng), "private": True}),
            ("set private", {"private": v("private", S, rng)}),
            ("set source+web-seed", {"source": v("source", S, rng), "url-list": v("url-list", L, rng)}),
            ("clear comment", {"comment": ""}),
            ("clear source", {"source": ""}),
            ("clear private", {"private": ""})]


def d11_pattern(req, before, after, probs):
    """the problems are exactly those of the known finding D11: the request CLEARS (and sets nothing) a field that the base carries
       at the top level, that top-level key is gone and info kept its own; nothing else differs"""
    if not probs or after is None or any(v not in (None, "") for v in req.values()):
        return False
    b, a = decode(before), decode(after)
    allowed = set()
    for f in ("comment", "source", "private"):
        key = f.encode()
        if req.get(f) == "" and key in b and key not in a:
            allowed.add(f"unnamed top-level key {key!r} changed")
            if key in b[b"info"] and a[b"info"].get(key) == b[b"info"][key]:
                allowed.add(f"{f} cleared but still present")
    return all(p in allowed for p in probs)


def foreign_layout(ctx, cases):
    """reference-encoded v1 / v2 / hybrid metafiles that carry a top-level key named like an info field (comment, source, private;
       with and without the same key in info).  SET (str and list values; library and command line): the value must arrive in info
       and the top-level key -- unnamed -- must stay: a failure is a violation (kind edit-frame-foreign-layout).  CLEAR of the field
       that sits at the top level: the known finding D11 (kind foreign-layout) when the failure has exactly the D11 shape, a
       violation otherwise.  Every case also enters the model tie."""
    core.use_repo_in_process()
    from torrentfile.edit import edit_torrent
    from torrentfile.cli import execute
    pl = 16384
    files = [(("a",), ctx.rng.randbytes(pl + 5)), (("d", "b"), ctx.rng.randbytes(77))]
    reqs = foreign_requests(ctx.rng)
    with core.Scratch("vc07f_") as tmp:
        os.environ["HOME"] = tmp
        work = os.path.join(tmp, "f.torrent")
        for ver in (1, 2, 3):
            for lname, top, inner in FOREIGN_LAYOUTS:
                label = f"foreign-v{ver}/{lname}"
                before = oracle.ref_metafile("payload", files, pl, ver, extra_top={**top, b"announce": b"http://f/a"},
                                             extra_info=dict(inner))
                for rname, req in reqs:
                    for via in ("lib", "cli"):
                        if via == "cli":
                            argv = EC.cli_argv(work, req)
                            if argv is None:
                                continue
                        with open(work, "wb") as fd:
                            fd.write(before)
                        exc = None
                        try:
                            if via == "cli":
                                trees.quiet(execute, argv)
                            else:
                                trees.quiet(edit_torrent, work, dict(req))
                        except Exception as e:  # noqa
                            exc = e
                        after = oracle.read(work) if os.path.isfile(work) else None
                        desc = {"metafile": label, "request": dict(req), "via": via, "base_hex": before.hex()}
                        named_top = sorted(f for f in ("comment", "source", "private") if req.get(f) is not None and f.encode() in top)
                        ctx.case(key=("foreign-layout", label, rname, via), nontrivial=True,
                                 classes=["foreign layout", "foreign layout: " + lname, "foreign layout: " + rname, f"via {via}",
                                          "foreign layout: request names a field present at top level" if named_top else
                                          "foreign layout: request names no misplaced field"])
                        if exc is not None:
                            ctx.fail("edit-raised", desc, "an edited metafile", f"{type(exc).__name__}: {exc}")
                            continue
                        if after is None:
                            ctx.fail("metafile-missing-after-edit", desc, "a metafile", None)
                            continue
                        cases.append((req_spec(req, via), before, after, {k: x for k, x in desc.items() if k != "base_hex"}))
                        probs = frame_problems(req, before, after)
                        if not probs:
                            continue
                        if d11_pattern(req, before, after, probs):
                            ctx.fail("foreign-layout", desc, "the field removed from info, the top-level key of that name untouched", probs)
                        else:
                            ctx.fail("edit-frame-foreign-layout", desc,
                                     "the named fields written into info (their home), every other key -- the top-level one of the same "
                                     "name included -- unchanged", probs[:5])


def run_cli_spelling(tmp, base, argv_tail, spelling):
    """`torrentfile edit <argv>` from the working directory <tmp> on a copy of the base; (after or None, exception or None)"""
    core.use_repo_in_process()
    from torrentfile.cli import execute
    os.makedirs(os.path.join(tmp, "sub"), exist_ok=True)
    work = os.path.join(tmp, "w.torrent")
    with open(work, "wb") as fd:
        fd.write(base)
    argv = ["edit"] + [EC.spell_metafile(tmp, "w.torrent", spelling) if t == "<metafile>" else t for t in argv_tail]
    cwd0, exc = os.getcwd(), None
    try:
        os.chdir(tmp)
        trees.quiet(execute, argv)
    except (Exception, SystemExit) as e:  # noqa
        exc = e
    finally:
        os.chdir(cwd0)
    after = oracle.read(work) if os.path.isfile(work) else None
    stray = sorted(x for x in os.listdir(tmp) if x not in ("w.torrent", "sub", "base")) + sorted(os.listdir(os.path.join(tmp, "sub")))
    return after, exc, stray


def judge_cli_spelling(req, before, after, exc, stray):
    if exc is not None:
        return [f"the command raised {type(exc).__name__}: {exc}"]
    if after is None:
        return ["no metafile at the path that was edited"]
    probs = frame_problems(req, before, after)
    if stray:
        probs.append(f"files appeared next to the metafile: {stray[:4]}")
    return probs


def cli_spellings(ctx, cases):
    """the command lines of EC.cli_spelling_cases (a flag repeated: the last occurrence is the request; option=value; values with
       '~', '$', '%', a leading dash, dots, blanks: verbatim; the metafile spelled relative to the working directory) on base
       metafiles of every version, judged by the frame judge against the request the command line means; also in the model tie"""
    with core.Scratch("vc07c_") as tmp:
        os.environ["HOME"] = tmp
        bases = [b for b in EC.base_metafiles(tmp, ctx.rng, extra=False)
                 if b[0] in ("v1/all-fields", "v2-asm/no-fields", "hybrid-asm/tracker+source", "ref-v3-tiers", "unsorted-v1", "ref-v2/private0")]
        raws = [(label, oracle.read(mf)) for label, mf in bases]
        for i, (classes, argv_tail, req, spelling) in enumerate(EC.cli_spelling_cases(ctx.rng, ctx.tier)):
            picks = raws if ctx.tier != "quick" else [raws[i % len(raws)], raws[(i + 1) % len(raws)]]
            for label, before in picks:
                after, exc, stray = run_cli_spelling(tmp, before, argv_tail, spelling)
                desc = {"metafile": label, "request": req, "via": "cli", "argv_tail": argv_tail, "metafile_spelling": spelling}
                ctx.case(key=("cli-spelling", label, tuple(argv_tail), spelling), nontrivial=True,
                         classes=["via cli", "cli spelling"] + classes + ["metafile spelled " + spelling, "metafile " + label.split("/")[0]],
                         sample=desc if i == 0 and label == picks[0][0] else None)
                probs = judge_cli_spelling(req, before, after, exc, stray)
                if probs:
                    ctx.fail("edit-cli-spelling", dict(desc, base_hex=before.hex()),
                             "the metafile at that path edited as the request the command line means (a repeated flag: its last "
                             "occurrence; every value verbatim), everything else unchanged", probs[:5])
                elif after is not None:
                    cases.append((req_spec(req, "cli"), before, after, desc))


def classify(failure):
    if failure["kind"] == "foreign-layout":
        return "D11"
    if failure["kind"] == "edit-cli-spelling":
        # known finding D42: the value '--' of --comment / --source is eaten by argparse.  Only a command line whose LAST
        # occurrence of comment or source is exactly `--comment=--` / `--source=--` is routed there, and only when the request
        # says that this field should have become '--'
        inp = failure.get("input") or {}
        tail = [t for t in inp.get("argv_tail", []) if isinstance(t, str)]
        req = inp.get("request") or {}
        eaten = [f for f in ("comment", "source") if req.get(f) == "--" and f"--{f}=--" in tail]
        if eaten:
            return "D42"
    return None


# --------------------------------------------------------------------------- replay
def _apply(tmp, base, reqs, via):
    """write the base metafile into a scratch directory and apply the requests in turn; returns (after or None, exception or None)"""
    core.use_repo_in_process()
    from torrentfile.edit import edit_torrent
    from torrentfile.cli import execute
    work = os.path.join(tmp, "w.torrent")
    with open(work, "wb") as fd:
        fd.write(base)
    exc = None
    try:
        for req in reqs:
            if via == "cli":
                argv = EC.cli_argv(work, req)
                if argv is None:
                    raise ValueError("request not expressible on the command line")
                trees.quiet(execute, argv)
            else:
                trees.quiet(edit_torrent, work, dict(req))
    except Exception as e:  # noqa
        exc = e
    after = oracle.read(work) if os.path.isfile(work) else None
    return after, exc


def _replay_single(inp, tmp, with_model):
    """one (base metafile, request, via) case judged as `visit` does; returns 0 holds / 1 violated / 2 cannot evaluate"""
    base, req, via = bytes.fromhex(inp["base_hex"]), inp["request"], inp.get("via", "lib")
    print(f"[C07 replay] metafile {inp.get('metafile')} ({len(base)} bytes, sha1 {hashlib.sha1(base).hexdigest()[:12]}), "
          f"via {via}, request {json.dumps(req, ensure_ascii=False)}")
    after, exc = _apply(tmp, base, [req], via)
    rc = 0
    model_want = None
    if exc is not None and isinstance(exc, IndexError) and after == base:
        print("[C07 replay] implementation: IndexError on an empty tracker list, metafile untouched (accepted; the model answers none)")
        model_want = "none"
    elif exc is not None:
        print(f"[C07 replay] VIOLATION edit-raised: {type(exc).__name__}: {exc}")
        rc = 1
    elif after is None:
        print("[C07 replay] VIOLATION metafile-missing-after-edit")
        rc = 1
    else:
        model_want = after.hex()
        probs = frame_problems(req, base, after)
        print(f"[C07 replay] implementation wrote {len(after)} bytes, sha1 {hashlib.sha1(after).hexdigest()[:12]}")
        for pr in probs:
            print("[C07 replay] VIOLATION edit-frame:", pr)
        if probs:
            rc = 1
        else:
            print("[C07 replay] judge: every named field has its value, every other key and the info span are unchanged")
    if with_model and model_want is not None:
        spec = req_spec(req, via)
        outs = modelrun.run("edit", [(base.hex(), spec)])
        if outs is None:
            print("[C07 replay] cannot evaluate: the extracted edit driver failed to run (./check --setup)")
            return rc or 2
        same = outs[0] == model_want
        print(f"[C07 replay] Model/Edit.v on spec {spec}: " + ("model and implementation agree" if same else "model and implementation DISAGREE"))
        if not same:
            k = next((j for j, (x, y) in enumerate(zip(outs[0], model_want)) if x != y), min(len(outs[0]), len(model_want)))
            print(f"   first difference at hex offset {k}:\n   model ...{outs[0][max(0, k - 40):k + 60]}\n   impl  ...{model_want[max(0, k - 40):k + 60]}")
            rc = 1
    return rc


def _replay_sequence(inp, tmp):
    base, seq = bytes.fromhex(inp["base_hex"]), inp["sequence"]
    print(f"[C07 replay] metafile {inp.get('metafile')} ({len(base)} bytes), sequence of {len(seq)} requests:")
    for r in seq:
        print("   ", json.dumps(r, ensure_ascii=False))
    after, exc = _apply(tmp, base, seq, "lib")
    if exc is not None:
        print(f"[C07 replay] VIOLATION edit-sequence-raised: {type(exc).__name__}: {exc}")
        return 1
    if after is None:
        print("[C07 replay] VIOLATION metafile missing after the sequence")
        return 1
    last = {}
    for r in seq:
        for f, v in r.items():
            if v is not None:
                last[f] = v
    probs = frame_problems(last, base, after)
    if last.get("announce") == "":
        probs = [p for p in probs if "announce-list" not in p]
    print("[C07 replay] last-write summary:", json.dumps(last, ensure_ascii=False))
    for pr in probs:
        print("[C07 replay] VIOLATION edit-history:", pr)
    if not probs:
        print("[C07 replay] judge: the file equals the original with each named field at its last-written value")
    return 1 if probs else 0


def _cannot(kind, why):
    print(f"replay: cannot rebuild input of kind {kind} ({why})")
    return 2


def replay(ctx, data):
    """rebuilds the recorded case (base metafile bytes, request(s), route), runs edit and judge again; 1 = violated, 0 = holds, 2 = cannot rebuild"""
    from props import c17
    rcs = []
    kind = data.get("kind")
    print(f"[C07 replay] kind={kind} implementation under test: {core.REPO}")
    with core.Scratch("vc07r_") as tmp:
        os.environ["HOME"] = tmp
        inp = data.get("input") if isinstance(data.get("input"), dict) else None
        if data.get("finding") or data.get("reproducer"):
            rcs.append(c17.replay_finding("C07", data))
        elif kind in ("edit-frame", "edit-raised", "metafile-missing-after-edit", "foreign-layout", "edit-frame-foreign-layout"):
            if not inp or "base_hex" not in inp or "request" not in inp:
                rcs.append(_cannot(kind, "the bytes of the base metafile were not recorded in this file"))
            else:
                if kind == "foreign-layout":
                    print("[C07 replay] (a violation here on the unchanged tree is the known finding D11)")
                rcs.append(_replay_single(inp, tmp, with_model=False))
        elif kind == "edit-cli-spelling":
            if not inp or not all(k in inp for k in ("base_hex", "request", "argv_tail", "metafile_spelling")):
                rcs.append(_cannot(kind, "the recorded input is incomplete"))
            else:
                base = bytes.fromhex(inp["base_hex"])
                print(f"[C07 replay] metafile {inp.get('metafile')} ({len(base)} bytes), working directory = its directory, metafile spelled "
                      f"{inp['metafile_spelling']}: torrentfile edit {inp['argv_tail']}\n[C07 replay] means the request "
                      f"{json.dumps(inp['request'], ensure_ascii=False)}")
                after, exc, stray = run_cli_spelling(tmp, base, inp["argv_tail"], inp["metafile_spelling"])
                probs = judge_cli_spelling(inp["request"], base, after, exc, stray)
                for pr in probs:
                    print("[C07 replay] VIOLATION edit-cli-spelling:", pr)
                if not probs:
                    print("[C07 replay] judge: every named field has its value, every other key and the info span are unchanged")
                rcs.append(1 if probs else 0)
        elif kind in ("edit-history", "edit-sequence-raised"):
            if not inp or "base_hex" not in inp or "sequence" not in inp:
                rcs.append(_cannot(kind, "the bytes of the base metafile were not recorded in this file"))
            else:
                rcs.append(_replay_sequence(inp, tmp))
        elif kind == "proof-or-correspondence-broken" or "what" in data:
            dis = data.get("disagreements") or ([data] if "what" in data else [])
            for d in dis[:5]:
                di = d.get("input") if isinstance(d.get("input"), dict) else {}
                if not str(d.get("what", "")).startswith("Model/Edit.v vs edit.edit_torrent"):
                    rcs.append(_cannot("disagreement " + repr(d.get("what")), "unknown correspondence"))
                elif "base_hex" not in di or "request" not in di:
                    rcs.append(_cannot("disagreement Model/Edit.v vs edit.edit_torrent", "the bytes of the base metafile were not recorded"))
                else:
                    rcs.append(_replay_single(di, tmp, with_model=True))
            if data.get("broken"):
                rcs.append(c17.replay_broken(ctx, "C07", data["broken"]))
            if not dis and not data.get("broken"):
                print("[C07 replay] the file records neither a disagreement nor a broken obligation: nothing to replay")
                rcs.append(2)
        else:
            rcs.append(_cannot(kind, "unknown kind"))
    rc = 1 if 1 in rcs else (2 if 2 in rcs or not rcs else 0)
    print("[C07 replay] verdict:", {0: "the property holds on this input", 1: "property VIOLATED on this input",
                                    2: "could not be replayed exactly"}[rc])
    return rc
