"""C07 -- edit changes only the named fields; hash-bearing data is untouched."""
import os
import hashlib

import core
import trees
import modelrun
from ref import oracle
from props import edit_common as EC

GEN_FILES = []
EXTRA_TARGETS = ["Extract/ExtractEdit.vo"]
AREAS = ["edit"]
RULE = ("exhaustive shape space: every assignment of Keep / Clear / Set to the six editable fields (3^6 = 729 requests, value shape "
        "str or list alternating) x 15 base metafiles (3 reference-encoded ones with UNSORTED top-level and info keys; v1 / v2 / hybrid x {all optional fields, none, tracker+source}, written by the "
        "tool's creators, and reference-encoded metafiles with foreign extra keys) through edit_torrent, plus the CLI-expressible "
        "subset through `torrentfile edit` (sampled 1/4 in the quick tier); model tie: the bytes written must equal the extracted Coq "
        "model's edit of the same file bytes; end to end, independently of the model: every named field has its value (or is gone) at "
        "its home, every other key at the top level and in info is unchanged, and the raw info span (SHA-1 and SHA-256) is identical "
        "whenever no info field was named; sequences of 1..5 requests compared with the last-write summary; a separate foreign-layout "
        "stream (top-level comment/source/private) is the known finding D11.")
TRUSTED_BASE = [
    "Coq 8.16.1 kernel; theorems closed under the global context",
    "hand models Model/Edit.v and Model/Bencode.v tied to edit.py / pyben by differential execution on the exhaustive shape space",
    "Python str/bytes duality collapsed to raw bytes; str.split() modelled on ASCII whitespace (bytes 9-13, 28-32)",
    "argparse maps the edit flags to the request as exercised end to end (C20 treats option routing)",
]
ASSUMPTIONS = ["metafiles have duplicate-free keys (true of everything pyben decodes into a dict)",
               "layout_ok for the frame theorems (foreign layouts: known finding D11)"]

HOME = {"comment": "info", "source": "info", "private": "info", "announce": "top", "url-list": "top", "httpseeds": "top"}


def req_spec(req, via):
    out = []
    for f in EC.FIELDS:
        v = req.get(f)
        if v is None:
            out.append("K")
        elif v == "":
            out.append("C")
        elif f == "private":
            out.append("S31")
        elif isinstance(v, list):
            out.append("L" + (",".join(x.encode().hex() for x in v) or "-"))
        elif via == "cli" and f in ("announce", "url-list", "httpseeds"):
            out.append("L" + ",".join(x.encode().hex() for x in v.split()))
        else:
            out.append("S" + v.encode().hex())
    return ";".join(out)


def decode(raw):
    try:
        return oracle.bdecode_strict(raw)
    except Exception:  # noqa
        return oracle.plain(oracle.bdecode_lenient(raw))


def info_span(raw):
    try:
        _, span = oracle.bdecode_lenient(raw, want_span=b"info")
        return raw[span[0]:span[1]]
    except Exception:  # noqa
        return None


def words(v):
    return [w.encode() for w in (v if isinstance(v, list) else v.split())]


def frame_problems(req, before, after):
    """the property, judged on decoded values independently of the Coq model"""
    p = []
    b, a = decode(before), decode(after)
    bi, ai = b[b"info"], a[b"info"]
    touched_top, touched_info = set(), set()
    for f in EC.FIELDS:
        v = req.get(f)
        if v is None:
            continue
        key = f.encode()
        home_b, home_a = (bi, ai) if HOME[f] == "info" else (b, a)
        (touched_info if HOME[f] == "info" else touched_top).add(key)
        if f == "announce":
            touched_top.add(b"announce-list")
        if v == "":
            if key in home_a:
                p.append(f"{f} cleared but still present")
        elif f == "private":
            if home_a.get(key) != 1:
                p.append("private not set to 1")
        elif f in ("comment", "source"):
            want = [x.encode() for x in v] if isinstance(v, list) else v.encode()
            if home_a.get(key) != want:
                p.append(f"{f} = {home_a.get(key)!r}, expected {want!r}")
        elif f == "announce":
            w = words(v)
            if a.get(b"announce") != w[0] or a.get(b"announce-list") != [w]:
                p.append(f"announce/announce-list = {a.get(b'announce')!r}/{a.get(b'announce-list')!r}")
        else:
            if home_a.get(key) != words(v):
                p.append(f"{f} = {home_a.get(key)!r}")
    for k in set(b) | set(a):
        if k not in touched_top and k != b"info" and b.get(k) != a.get(k):
            p.append(f"unnamed top-level key {k!r} changed")
    for k in set(bi) | set(ai):
        if k not in touched_info and bi.get(k) != ai.get(k):
            p.append(f"unnamed info key {k!r} changed")
    if not touched_info:
        sb, sa = info_span(before), info_span(after)
        if sb is not None and (sa is None or hashlib.sha1(sb).digest() != hashlib.sha1(sa).digest()
                               or hashlib.sha256(sb).digest() != hashlib.sha256(sa).digest()):
            p.append("info-hash changed although no info field was named")
    return p


def run(ctx, model_ok):
    cases = []          # (spec, before, after_or_None, desc)

    def visit(label, combo, req, via, before, after, exc):
        desc = {"metafile": label, "request": {k: v for k, v in req.items()}, "via": via}
        nontriv = any(c != "keep" for c in combo)
        ctx.case(key=(label, combo, via), nontrivial=nontriv,
                 classes=[f"{f}:{c}" for f, c in zip(EC.FIELDS, combo) if c != "keep"][:6] + [f"via {via}", "metafile " + label.split("/")[0]],
                 sample=desc if len(ctx.samples) < 2 and nontriv else None)
        if exc is not None:
            if isinstance(exc, IndexError) and after == before:
                cases.append((req_spec(req, via), before, None, desc))
                return
            ctx.fail("edit-raised", desc, "an edited metafile", f"{type(exc).__name__}: {exc}")
            return
        if after is None:
            ctx.fail("metafile-missing-after-edit", desc, "a metafile", None)
            return
        cases.append((req_spec(req, via), before, after, desc))
        probs = frame_problems(req, before, after)
        if probs:
            ctx.fail("edit-frame", desc, "only the named fields change", probs[:5])

    EC.enumerate_edits(ctx, visit)

    if model_ok:
        outs = modelrun.run("edit", [(b.hex(), spec) for spec, b, _, _ in cases])
        if outs is None:
            ctx.broken.append("extracted edit driver failed to run")
        else:
            for (spec, before, after, desc), o in zip(cases, outs):
                ctx.traces_validated += 1
                want = "none" if after is None else after.hex()
                if o != want:
                    ctx.disagree("Model/Edit.v vs edit.edit_torrent (bytes written)", dict(desc, spec=spec),
                                 o[:160], want[:160])
    sequences(ctx)
    foreign_layout(ctx)


def sequences(ctx):
    """after any sequence of edits the file equals the original with each named field at its last-written value"""
    core.use_repo_in_process()
    from torrentfile.edit import edit_torrent
    import shutil
    n = 30 if ctx.tier == "quick" else 500
    with core.Scratch("vc07s_") as tmp:
        bases = EC.base_metafiles(tmp, ctx.rng)
        reqs = EC.all_requests(ctx.tier, ctx.rng)
        work = os.path.join(tmp, "w.torrent")
        for i in range(n):
            label, mf = ctx.rng.choice(bases)
            seq = [ctx.rng.choice(reqs)[1] for _ in range(ctx.rng.randrange(1, 6))]
            shutil.copyfile(mf, work)
            try:
                for r in seq:
                    trees.quiet(edit_torrent, work, dict(r))
            except Exception as e:  # noqa
                ctx.fail("edit-sequence-raised", {"metafile": label, "sequence": seq}, "edited metafile", type(e).__name__)
                continue
            last = {}
            for r in seq:
                for f, v in r.items():
                    if v is not None:
                        last[f] = v
            probs = frame_problems(last, oracle.read(mf), oracle.read(work))
            # when the tracker field is cleared only the disappearance of `announce` is required (fate of the tier list is free)
            if last.get("announce") == "":
                probs = [p for p in probs if "announce-list" not in p]
            if probs:
                ctx.fail("edit-history", {"metafile": label, "sequence": seq}, "original with each named field at its last-written value", probs[:5])
            ctx.case(key=("seq", i, label, repr(seq)), classes=[f"sequence of {len(seq)}"])


def foreign_layout(ctx):
    """metafiles with a top-level key named like an info field: known finding D11"""
    core.use_repo_in_process()
    from torrentfile.edit import edit_torrent
    with core.Scratch("vc07f_") as tmp:
        mf = os.path.join(tmp, "f.torrent")
        raw = oracle.bencode({b"comment": b"top", b"info": {b"comment": b"inner", b"length": 1, b"name": b"a",
                                                           b"piece length": 16384, b"pieces": b"x" * 20}})
        with open(mf, "wb") as fd:
            fd.write(raw)
        trees.quiet(edit_torrent, mf, {"comment": ""})
        probs = frame_problems({"comment": ""}, raw, oracle.read(mf))
        ctx.case(key="foreign-layout", classes=["foreign layout"])
        if probs:
            ctx.fail("foreign-layout", {"metafile": "top-level comment + info.comment", "request": {"comment": ""}},
                     "info.comment removed, top-level comment untouched", probs)


def classify(failure):
    if failure["kind"] == "foreign-layout":
        return "D11"
    return None


def replay(ctx, data):
    import json
    print(json.dumps(data, indent=1)[:3000])
    return 0
